fn main() {
    // deep recursion in yarel's compiler and in the reference interpreter needs room; the
    // yarel heap is thread-local, so running everything on one big-stack thread is fine
    let child = std::thread::Builder::new()
        .stack_size(1 << 30)
        .spawn(|| {
            let args: Vec<String> = std::env::args().collect();
            if args.get(1).map(|s| s.as_str()) == Some("dev") {
                return yverif::dev::main(&args);
            }
            yverif::engine::main_with(yverif::props::all())
        })
        .unwrap();
    let code = child.join().unwrap_or(2);
    std::process::exit(code);
}
