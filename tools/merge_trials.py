#!/usr/bin/env python3
"""merge_trials.py <out> <log>...  — one trial line per seeded change, taken from the first log (in the order
given: newest first) that has a CAUGHT line for it, else the first line of any kind. Rows of the table already
in DESIGN.md (13.7) are used last, for changes that no log given covers."""
import re, sys
out, logs = sys.argv[1], sys.argv[2:]
pat = re.compile(r'(C\d\d-[a-z])( \(via (C\d\d)\))? (C\d\d) (CAUGHT|MISSED|INCONCLUSIVE)\s*(.*)')
best = {}
def offer(seed, line, res):
    cur = best.get(seed)
    if cur is None or (cur[1] != 'CAUGHT' and res == 'CAUGHT'):
        best[seed] = (line, res)
for lg in logs:
    try:
        for line in open(lg, errors='replace'):
            m = pat.match(line.rstrip('\n'))
            if m:
                offer(m.group(1), line.rstrip('\n'), m.group(5))
    except FileNotFoundError:
        pass
# rows of the existing table
row = re.compile(r'\| (C\d\d-[a-z]) \| \d+ \| (C\d\d|— \(\w+\)) \| `(.*)` \| (yes|no|unknown) \|')
for line in open('/verif/DESIGN.md', errors='replace'):
    m = row.match(line)
    if m and m.group(1) not in best:
        seed, by, sig = m.group(1), m.group(2), m.group(3).replace('\\|', '|')
        own = seed.split('-')[0]
        if by.startswith('C'):
            via = '' if by == own else ' (via %s)' % by
            best[seed] = ('%s%s %s CAUGHT    %s' % (seed, via, by, sig), 'CAUGHT')
        else:
            best[seed] = ('%s %s MISSED  %s' % (seed, own, sig), 'MISSED')
with open(out, 'w') as f:
    for seed in sorted(best):
        f.write(best[seed][0] + '\n')
print(len(best), 'seeds;', sum(1 for v in best.values() if v[1] == 'CAUGHT'), 'caught')
