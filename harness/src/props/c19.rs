//! C19 — numbers survive text: printing and parsing round-trip exactly; literals denote the
//! nearest double; number lexing never absorbs a following '.' that starts a call or a range.

use yarel::value::Value;

use crate::decimal::{is_nearest, parse_decimal, text_denotes};
use crate::engine::*;
use crate::rd::{fnv64, Rd};
use crate::yrun::{End, RunCfg, Session};

pub struct C19;

const BOUNDARY_BITS: &[u64] = &[
    0x0000000000000000, 0x8000000000000000, 0x0000000000000001, 0x8000000000000001, 0x000fffffffffffff,
    0x0010000000000000, 0x7fefffffffffffff, 0xffefffffffffffff, 0x7ff0000000000000, 0xfff0000000000000,
    0x7ff8000000000000, 0xfff8000000000001, 0x3ff0000000000000, 0xbff0000000000000, 0x4340000000000000,
    0x433fffffffffffff, 0x4340000000000001, 0x43e0000000000000, 0xc3e0000000000000, 0x43dfffffffffffff,
    0x43e0000000000001, 0x3fb999999999999a, 0x3fd5555555555555, 0x4059000000000000, 0x3e7ad7f29abcaf48,
    0x44b52d02c7e14af6, 0x7e37e43c8800759c, 0x0006123400000000, 0x3cb0000000000000, 0x4024000000000000,
];

fn doubles_for(family: &str, bytes: &[u8]) -> Vec<f64> {
    let mut v = Vec::new();
    match family {
        "boundaries" => {
            // powers of two and ten and their neighbours, chosen by index
            let mut b = [0u8; 8];
            let n = bytes.len().min(8);
            b[..n].copy_from_slice(&bytes[..n]);
            let i = u64::from_le_bytes(b) as usize;
            if i < BOUNDARY_BITS.len() {
                for d in [0u64, 1, u64::MAX] {
                    v.push(f64::from_bits(BOUNDARY_BITS[i].wrapping_add(d)));
                }
            } else if i < BOUNDARY_BITS.len() + 2098 {
                let e = (i - BOUNDARY_BITS.len()) as i32 - 1074;
                let x = 2f64.powi(e.max(-1022)) * if e < -1022 { 2f64.powi(e + 1022) } else { 1.0 };
                for d in [0u64, 1, u64::MAX] {
                    let bits = x.to_bits().wrapping_add(d);
                    v.push(f64::from_bits(bits));
                    v.push(-f64::from_bits(bits));
                }
            } else {
                let e = (i - BOUNDARY_BITS.len() - 2098) as i32 - 330;
                let x: f64 = format!("1e{}", e).parse().unwrap_or(0.0);
                for d in [0u64, 1, u64::MAX] {
                    v.push(f64::from_bits(x.to_bits().wrapping_add(d)));
                }
            }
        }
        _ => {
            let mut rd = Rd::new(bytes, 1000);
            let k = 1 + bytes.len() / 8;
            for _ in 0..k.min(32) {
                let bits = rd.u64();
                v.push(match rd.below(8) {
                    0 => (bits % 100_000) as f64,
                    1 => ((bits % 2_000_001) as f64 - 1_000_000.0) / 1000.0,
                    2 => f64::from_bits(bits & 0x800fffffffffffff), // subnormals
                    3 => (bits as i64) as f64,
                    _ => f64::from_bits(bits),
                });
            }
        }
    }
    v
}

fn literal_for(family: &str, bytes: &[u8]) -> Vec<String> {
    match family {
        "literals_enum" => {
            // index -> batch of 400 consecutive literal texts from the exhaustive scope
            let mut b = [0u8; 8];
            let n = bytes.len().min(8);
            b[..n].copy_from_slice(&bytes[..n]);
            let i = u64::from_le_bytes(b);
            (0..400).filter_map(|k| nth_literal(i * 400 + k)).collect()
        }
        _ => {
            let mut rd = Rd::new(bytes, 1000);
            let mut v = Vec::new();
            let k = 1 + rd.below(12);
            for _ in 0..k {
                let mut s = String::new();
                let nd = 1 + rd.below(24);
                for _ in 0..nd {
                    s.push((b'0' + rd.below(10) as u8) as char);
                }
                if rd.flag() {
                    s.push('.');
                    let nf = 1 + rd.below(16);
                    for _ in 0..nf {
                        s.push((b'0' + rd.below(10) as u8) as char);
                    }
                }
                v.push(s);
            }
            v
        }
    }
}

/// all `d+` (1..=6 digits) then all `d+.d+` with 2..=5 digits in total
pub fn literal_scope_size() -> u64 {
    let ints: u64 = (1..=6).map(|l| 10u64.pow(l)).sum();
    let fracs: u64 = (2..=5u32).map(|n| (n as u64 - 1) * 10u64.pow(n)).sum();
    ints + fracs
}

pub fn nth_literal(mut i: u64) -> Option<String> {
    for l in 1..=6u32 {
        let c = 10u64.pow(l);
        if i < c {
            return Some(format!("{:0width$}", i, width = l as usize));
        }
        i -= c;
    }
    for n in 2..=5u32 {
        let per = 10u64.pow(n);
        let c = (n as u64 - 1) * per;
        if i < c {
            let split = (i / per) as usize + 1; // digits before the point
            let digits = format!("{:0width$}", i % per, width = n as usize);
            return Some(format!("{}.{}", &digits[..split], &digits[split..]));
        }
        i -= c;
    }
    None
}

fn integral_text(t: &str) -> bool {
    let t = t.strip_prefix('-').unwrap_or(t);
    !t.is_empty() && t.bytes().all(|b| b.is_ascii_digit())
}

impl C19 {
    fn run_doubles(&self, xs: &[f64], ctx: &mut CaseCtx) -> Verdict {
        let mut s = Session::new(RunCfg::default());
        let mut src = String::new();
        {
            let vm = match s.vm() {
                Some(v) => v,
                None => return Verdict::Fail { sig: "vm-construction-panic".into(), detail: String::new() },
            };
            for (i, x) in xs.iter().enumerate() {
                vm.set_global("main", &format!("x{}", i), Value::Number(*x));
            }
        }
        for i in 0..xs.len() {
            src.push_str(&format!(
                "var t{i} = String.from(x{i}); print(t{i}); var u{i} = \"${{x{i}}}\"; print(u{i}); var y{i} = t{i}.to_num(); var z{i} = u{i}.to_num();\n\
                 print((y{i} == x{i} && 1 / y{i} == 1 / x{i}) || (y{i} != y{i} && x{i} != x{i}));\n\
                 print((z{i} == x{i} && 1 / z{i} == 1 / x{i}) || (z{i} != z{i} && x{i} != x{i}));\n",
                i = i
            ));
        }
        let (out, end) = s.feed(&src);
        let mut fail: Option<(String, String)> = None;
        match &end {
            End::Ok(_) => {}
            End::Panic(p) => fail = Some((format!("panic:{}", crate::props::c03::sig_of_panic(p)), p.clone())),
            End::Err(k, m) => fail = Some(("roundtrip-program-error".into(), format!("{:?} {:?}", k, m))),
        }
        if fail.is_none() && out.len() != xs.len() * 4 {
            fail = Some(("roundtrip-output-count".into(), format!("{} lines for {} numbers", out.len(), xs.len())));
        }
        let mut nontrivial = false;
        if fail.is_none() {
            for (i, x) in xs.iter().enumerate() {
                let t = &out[i * 4];
                let u = &out[i * 4 + 1];
                if !(x.abs() < 9007199254740992.0 && x.fract() == 0.0) {
                    nontrivial = true;
                }
                if t != u {
                    fail = Some(("print-vs-interpolation".into(), format!("{:?}: String.from gives {:?}, interpolation {:?}", x, t, u)));
                    break;
                }
                if out[i * 4 + 2] != "true" || out[i * 4 + 3] != "true" {
                    fail = Some(("roundtrip-in-program".into(), format!("{:?} (bits {:#x}) printed as {:?} does not convert back to itself", x, x.to_bits(), t)));
                    break;
                }
                match text_denotes(t, *x) {
                    Some(true) => {}
                    Some(false) => {
                        fail = Some(("printed-text-denotes-other-number".into(), format!("{:?} (bits {:#x}) printed as {:?}", x, x.to_bits(), t)));
                        break;
                    }
                    None => {
                        fail = Some(("printed-text-unparsable".into(), format!("{:?} printed as {:?}", x, t)));
                        break;
                    }
                }
                if x.is_finite() && x.fract() == 0.0 && !integral_text(t) {
                    fail = Some(("integral-printed-with-fraction".into(), format!("{:?} printed as {:?}", x, t)));
                    break;
                }
                if *x == 0.0 && x.is_sign_negative() != t.starts_with('-') {
                    fail = Some(("sign-of-zero".into(), format!("{:?} printed as {:?}", x, t)));
                    break;
                }
                // the value converted back, read bit-exactly through the host API
                let y = s.vm().and_then(|vm| vm.global("main", &format!("y{}", i)));
                match y {
                    Some(Value::Number(y)) => {
                        if !(y.to_bits() == x.to_bits() || (y.is_nan() && x.is_nan())) {
                            fail = Some(("roundtrip-bits".into(), format!("{:#x} -> {:?} -> {:#x}", x.to_bits(), t, y.to_bits())));
                            break;
                        }
                    }
                    _ => {
                        fail = Some(("roundtrip-global-missing".into(), format!("y{} is not a number", i)));
                        break;
                    }
                }
            }
        }
        let _ = s.finish();
        ctx.label_n("doubles", xs.len() as u64);
        match fail {
            Some((sig, detail)) => Verdict::Fail { sig, detail },
            None => Verdict::Pass { nontrivial, hash: fnv64(&xs.iter().flat_map(|x| x.to_bits().to_le_bytes()).collect::<Vec<u8>>()) },
        }
    }

    fn run_literals(&self, lits: &[String], ctx: &mut CaseCtx) -> Verdict {
        if lits.is_empty() {
            return Verdict::Discard("empty batch");
        }
        let mut s = Session::new(RunCfg { fuel: Some(50_000_000), ..RunCfg::default() });
        let mut src = String::new();
        for (i, l) in lits.iter().enumerate() {
            src.push_str(&format!("var v{} = {};\n", i, l));
        }
        // the literal written directly inside an interpolation, as an argument of String.from and
        // behind a sign denotes the same number as the literal bound to a variable (whatever the
        // spelling: leading zeros, a trailing `.0`, more digits than a double holds)
        for (i, l) in lits.iter().enumerate().take(12) {
            src.push_str(&format!(
                "print(\"${{{l}}}\" == String.from(v{i}) && String.from({l}) == \"${{v{i}}}\" && \"<${{{l}}}>\" == \"<\" + String.from(v{i}) + \">\" && -{l} == -v{i});\n",
                l = l,
                i = i
            ));
        }
        let (out, end) = s.feed(&src);
        let mut fail = None;
        if !matches!(end, End::Ok(_)) {
            fail = Some(("literal-program-error".to_string(), format!("{:?}\n{}", end, &src[..src.len().min(400)])));
        } else if let Some(k) = out.iter().position(|l| l != "true") {
            fail = Some((
                "literal-in-interpolation-differs".to_string(),
                format!("literal {}: written inside an interpolation (or as an argument of String.from, or negated) it does not give the text / value of the same literal bound to a variable", lits[k]),
            ));
        }
        let mut nontrivial = false;
        if fail.is_none() {
            for (i, l) in lits.iter().enumerate() {
                let v = s.vm().and_then(|vm| vm.global("main", &format!("v{}", i)));
                let v = match v {
                    Some(Value::Number(v)) => v,
                    other => {
                        fail = Some(("literal-not-a-number".into(), format!("{} -> {:?}", l, other.map(|v| format!("{}", v)))));
                        break;
                    }
                };
                if l.contains('.') || l.len() > 15 {
                    nontrivial = true;
                }
                let d = match parse_decimal(l) {
                    Some(d) => d,
                    None => continue,
                };
                match is_nearest(&d, v) {
                    Some(true) => {}
                    Some(false) => {
                        fail = Some(("literal-not-nearest-double".into(), format!("literal {} denotes {:?} (bits {:#x}), which is not the nearest double", l, v, v.to_bits())));
                        break;
                    }
                    None => {}
                }
            }
        }
        let _ = s.finish();
        ctx.label_n("literals", lits.len() as u64);
        match fail {
            Some((sig, detail)) => Verdict::Fail { sig, detail },
            None => Verdict::Pass { nontrivial, hash: fnv64(lits.join(",").as_bytes()) },
        }
    }

    /// `D` followed by each suffix: the token stream implied by behaviour
    fn run_suffix(&self, lit: &str, ctx: &mut CaseCtx) -> Verdict {
        let d = match parse_decimal(lit) {
            Some(d) => d,
            None => return Verdict::Discard("bad literal"),
        };
        let _ = d;
        let value: f64 = lit.parse().unwrap_or(0.0);
        let has_point = lit.contains('.');
        let integral = value.fract() == 0.0;
        let as_int = crate::strmodel::to_integer(value).unwrap_or(0);
        // (program, expectation)
        #[derive(Debug)]
        enum Exp {
            Prints(String),
            PrintsLines(Vec<String>),
            Runtime(&'static str),
            Compile,
        }
        let mut cases: Vec<(String, Exp)> = Vec::new();
        cases.push((format!("print({});", lit), Exp::Prints(crate::rv::num_display(value))));
        cases.push((format!("print({}.len);", lit), Exp::Runtime("AttributeError")));
        cases.push((format!("print({}.len());", lit), Exp::Runtime("AttributeError")));
        cases.push((format!("print({}.derives(Num));", lit), Exp::Prints("true".into())));
        cases.push((
            format!("print({}..3);", lit),
            if integral {
                Exp::Prints(format!("Range({}, 3)", as_int))
            } else {
                Exp::Runtime("ValueError")
            },
        ));
        cases.push((
            format!("print(3..{});", lit),
            if integral {
                Exp::Prints(format!("Range(3, {})", as_int))
            } else {
                Exp::Runtime("ValueError")
            },
        ));
        cases.push((
            format!("print({}.5);", lit),
            if has_point {
                Exp::Compile
            } else {
                let v: f64 = format!("{}.5", lit).parse().unwrap_or(0.0);
                Exp::Prints(crate::rv::num_display(v))
            },
        ));
        cases.push((format!("{}.", lit), Exp::Compile));
        cases.push((format!("{}.;", lit), Exp::Compile));
        cases.push((format!("{}..", lit), Exp::Compile));
        cases.push((format!("print({}.x);", lit), Exp::Runtime("AttributeError")));
        cases.push((format!("print(-{});", lit), Exp::Prints(crate::rv::num_display(-value))));
        // the same literal written negated and plain in one piece of code (one constant table), in
        // both orders, at top level and inside a function: each occurrence denotes its own text - also
        // for the spelling of zero with the same shape, where the two values are equal as numbers
        let zero_lit: String = lit.chars().map(|c| if c.is_ascii_digit() { '0' } else { c }).collect();
        for (l, v) in [(lit.to_string(), value), (zero_lit, 0.0f64)] {
            let (pos, neg) = (crate::rv::num_display(v), crate::rv::num_display(-v));
            cases.push((format!("print(-{l}); print({l}); print(-{l});", l = l), Exp::PrintsLines(vec![neg.clone(), pos.clone(), neg.clone()])));
            cases.push((format!("print({l}); print(-{l}); print({l});", l = l), Exp::PrintsLines(vec![pos.clone(), neg.clone(), pos.clone()])));
            cases.push((
                format!("fn f() {{ var a = -{l}; var b = {l}; return [a, b, -{l}, {l}]; }} print(f());", l = l),
                Exp::PrintsLines(vec![format!("[{}, {}, {}, {}]", neg, pos, neg, pos)]),
            ));
        }
        // member names that would continue a numeric literal in other notations (exponents, radix and
        // type suffixes): after a digit string the `.` starts a member access all the same
        for m in ["e5", "E2", "e", "E", "e5x", "exp", "e0", "f", "d", "L", "x10", "b1", "o7", "_1", "inf", "nan", "e308", "E999"] {
            cases.push((format!("print({}.{});", lit, m), Exp::Runtime("AttributeError")));
            cases.push((format!("print({}.{}());", lit, m), Exp::Runtime("AttributeError")));
        }
        for m in ["e-2", "e+1", "E-0", "e - 1"] {
            // `D.e-2` is `(D.e) - 2`: the member access fails before the subtraction
            cases.push((format!("print({}.{});", lit, m), Exp::Runtime("AttributeError")));
        }
        let mut fail = None;
        for (src, exp) in &cases {
            let o = crate::yrun::run_source(src, &RunCfg::default());
            let ok = match (exp, &o.end) {
                (Exp::Prints(t), End::Ok(_)) => o.out.len() == 1 && &o.out[0] == t,
                (Exp::PrintsLines(t), End::Ok(_)) => &o.out == t,
                (Exp::Runtime(k), End::Err(kind, m)) => crate::yrun::kind_name(*kind) == *k && !crate::diff::is_compile_error(m),
                (Exp::Compile, End::Err(_, m)) => crate::diff::is_compile_error(m),
                _ => false,
            };
            if !ok {
                fail = Some((
                    "number-followed-by-dot".to_string(),
                    format!("source {:?}: expected {:?}, yarel printed {:?} and ended {:?}", src, exp, o.out, o.end),
                ));
                break;
            }
        }
        ctx.label("suffix");
        match fail {
            Some((sig, detail)) => Verdict::Fail { sig, detail },
            None => Verdict::Pass { nontrivial: true, hash: fnv64(lit.as_bytes()) },
        }
    }
}

impl Property for C19 {
    fn id(&self) -> &'static str {
        "C19"
    }

    fn families(&self, tier: Tier) -> Vec<Family> {
        let q = tier == Tier::Quick;
        let scope = literal_scope_size();
        vec![
            Family { name: "doubles", kind: FamilyKind::Random { cases: if q { 16_000 } else { 200_000 }, max_len: 256 } },
            Family { name: "boundaries", kind: FamilyKind::Enumerated { count: (BOUNDARY_BITS.len() + 2098 + 660) as u64, exhaustive: true } },
            Family {
                name: "literals_enum",
                kind: FamilyKind::Enumerated { count: if q { 300 } else { scope / 400 + 1 }, exhaustive: !q },
            },
            Family { name: "literals_random", kind: FamilyKind::Random { cases: if q { 12_000 } else { 200_000 }, max_len: 200 } },
            Family { name: "suffix", kind: FamilyKind::Random { cases: if q { 6_000 } else { 100_000 }, max_len: 40 } },
        ]
    }

    fn rule(&self) -> String {
        "cases: (doubles) batches of up to 32 doubles from random bit patterns, subnormals, integers and millesimal fractions, handed to the program bit-exactly as globals through Vm::set_global; (boundaries, exhaustive) +-0, subnormal/normal limits, every power of two 2^-1074..2^1023 and of ten 1e-330..1e329 with both neighbours, 2^53 and 2^63 neighbours, infinities, NaNs; (literals_enum) every digit string d+ of <=6 digits and d+.d+ of <=5 digits (thorough: all 1 543 210; quick: 120 000 of them), (literals_random) digit strings up to 40 characters; (suffix) a literal followed by nothing, ';', '.len', '.len()', '.5', '..3', '.' identifier (including member names that look like exponents, radix prefixes and type suffixes: e5, E2, e-2, x10, f, L, inf, ...), '.' and '..' at end of input, and the literal (and the zero of the same spelling) written negated and plain in one piece of code, in both orders, at top level and inside a function. Oracle: in-program round trip through String.from/interpolation and to_num (NaN via x != x, sign of zero via 1/x), the converted value read back bit-exactly with Vm::global, and independently an exact big-integer decimal oracle (harness/src/decimal.rs): the printed text must denote x and a literal's value must be a nearest double of its text; integral values print without a fraction. Non-trivial: not an integer below 2^53 / a literal with a fraction or more than 15 digits; distinct by the batch's bit patterns or texts.".into()
    }

    fn assumptions(&self) -> Vec<String> {
        vec!["decimal exponents beyond +-5000 are not decided by the exact oracle (never produced by printing)".into()]
    }

    fn render(&self, family: &str, bytes: &[u8]) -> String {
        match family {
            "doubles" | "boundaries" => format!(
                "{:?}",
                doubles_for(family, bytes).iter().map(|x| format!("{:e} ({:#x})", x, x.to_bits())).collect::<Vec<_>>()
            ),
            "suffix" => literal_for("literals_random", bytes).first().cloned().unwrap_or_default(),
            _ => {
                let l = literal_for(family, bytes);
                format!("{} literals: {:?} …", l.len(), &l[..l.len().min(6)])
            }
        }
    }

    fn run(&self, ctx: &mut CaseCtx) -> Verdict {
        let family = ctx.family.to_string();
        let bytes = ctx.bytes.to_vec();
        match family.as_str() {
            "doubles" | "boundaries" => {
                let xs = doubles_for(&family, &bytes);
                if xs.is_empty() {
                    return Verdict::Discard("empty batch");
                }
                self.run_doubles(&xs, ctx)
            }
            "suffix" => match literal_for("literals_random", &bytes).first() {
                Some(l) => {
                    // keep the suffix literals short enough to be exact integers sometimes
                    let l = if l.len() > 12 && !l.contains('.') { l[..12].to_string() } else { l.clone() };
                    self.run_suffix(&l, ctx)
                }
                None => Verdict::Discard("no literal"),
            },
            _ => {
                let l = literal_for(&family, &bytes);
                self.run_literals(&l, ctx)
            }
        }
    }

    fn floors(&self, _tier: Tier) -> Vec<(&'static str, u64)> {
        vec![("doubles", 20_000), ("literals", 100_000), ("suffix", 1_000)]
    }
}
