fn main() {
    println!("yrunner: todo");
}
