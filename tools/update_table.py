#!/usr/bin/env python3
"""update_table.py <log>...  — merge the given trial logs (newest first), write seeded/TRIALS.log and replace the
table of DESIGN.md section 13.7 by one generated from it (tools/merge_trials.py, tools/seed_table.py)."""
import re, subprocess, sys
logs = sys.argv[1:]
print(subprocess.run(['python3', '/verif/tools/merge_trials.py', '/verif/seeded/TRIALS.log'] + logs, capture_output=True, text=True).stdout.strip())
table = subprocess.run(['python3', '/verif/tools/seed_table.py', '/verif/seeded/TRIALS.log'], capture_output=True, text=True).stdout
s = open('/verif/DESIGN.md').read()
i = s.index('| seed | round | caught by |')
m = re.search(r'\n\d+ of \d+ seeded changes caught\.\n', s[i:])
j = i + m.end()
s = s[:i] + table.rstrip('\n') + '\n' + s[j:]
open('/verif/DESIGN.md', 'w').write(s)
print(table.strip().split('\n')[-1])
