#!/usr/bin/env python3
"""ingest_seed.py <worktree> <seed-name> <round>: copy <worktree>/SEED into /verif/seeded/<seed-name>/ and write meta.json
(needs_to_manifest is the 'What it needs to manifest' section of notes.md). Confirmation is a separate step (confirm_seed.sh)."""
import json, os, re, shutil, sys
wt, name, rnd = sys.argv[1], sys.argv[2], int(sys.argv[3])
src = os.path.join(wt, "SEED")
dst = os.path.join("/verif/seeded", name)
if os.path.exists(dst):
    sys.exit("exists: " + dst)
shutil.copytree(src, dst)
notes = open(os.path.join(dst, "notes.md")).read() if os.path.exists(os.path.join(dst, "notes.md")) else ""
m = re.search(r"##\s*What it needs to manifest\s*\n(.*?)(?=\n##\s|\Z)", notes, re.S)
needs = m.group(1).strip() if m else ""
meta = {
    "property": name.split("-")[0],
    "round": rnd,
    "origin": "produced by an independent sub-agent that saw only the text of this property (title, statement, quantifier), two scratch worktrees of /repo, a list of titles of earlier ideas not to repeat, and nothing from /verif",
    "needs_to_manifest": needs,
    "confirmed": "pending",
    "detection": {"command": "tools/try_seed.sh seeded/%s/patch.diff <ID>" % name, "result": "see DESIGN.md 13.7", "missed_before_strengthening": None},
}
json.dump(meta, open(os.path.join(dst, "meta.json"), "w"), indent=1)
print("ingested", name, "title:", notes.split("\n")[0][:150])
