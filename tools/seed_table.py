#!/usr/bin/env python3
"""seed_table.py <seeds log> — markdown table of seeded changes and the check that catches each
(input: the log of tools/try_all_seeds.sh; metadata from seeded/*/meta.json)."""
import json, os, re, sys
log = sys.argv[1]
rows = {}
for line in open(log, errors='replace'):
    m = re.match(r'(C\d\d-[a-z])( \(via (C\d\d)\))? (C\d\d) (CAUGHT|MISSED|INCONCLUSIVE)\s*(.*)', line.rstrip('\n'))
    if not m:
        continue
    seed, _, via, chk, res, rest = m.groups()
    if res == 'CAUGHT' or seed not in rows:
        if seed in rows and rows[seed][1] == 'CAUGHT':
            continue
        rows[seed] = (chk, res, rest)
print('| seed | round | caught by | first signature | missed before strengthening |')
print('|---|---|---|---|---|')
for seed in sorted(rows):
    chk, res, rest = rows[seed]
    meta = {}
    try:
        meta = json.load(open('/verif/seeded/%s/meta.json' % seed))
    except Exception:
        pass
    rnd = meta.get('round', 1)
    mb = meta.get('detection', {}).get('missed_before_strengthening', False)
    mbs = 'unknown' if mb is None else ('yes' if mb else 'no')
    sig = rest.replace('|', '\\|')[:110]
    by = chk if res == 'CAUGHT' else ('— (%s)' % res.lower())
    print('| %s | %s | %s | `%s` | %s |' % (seed, rnd, by, sig, mbs))
caught = sum(1 for r in rows.values() if r[1] == 'CAUGHT')
print()
print('%d of %d seeded changes caught.' % (caught, len(rows)))
