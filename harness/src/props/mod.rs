pub mod c01;
pub mod c02;
pub mod c03;
pub mod c04;
pub mod c10;
pub mod c11;
pub mod c15;
pub mod c16;
pub mod c17;
pub mod c19;
pub mod diffprop;
pub mod refprops;

use crate::engine::Property;

pub fn all() -> Vec<Box<dyn Property>> {
    vec![
        Box::new(c01::C01),
        Box::new(c02::C02),
        Box::new(c03::C03::new()),
        Box::new(c04::C04),
        Box::new(refprops::c05()),
        Box::new(refprops::c06()),
        Box::new(refprops::c07()),
        Box::new(refprops::c08()),
        Box::new(refprops::c09()),
        Box::new(c10::C10),
        Box::new(c11::C11),
        Box::new(refprops::c12()),
        Box::new(refprops::c13()),
        Box::new(refprops::c14()),
        Box::new(c15::C15),
        Box::new(c16::C16),
        Box::new(c17::C17),
        Box::new(refprops::c18()),
        Box::new(c19::C19),
    ]
}
