//! Program generator: a decoder from a choice sequence to a closed, terminating program that
//! prints a trace of what it did. Profiles select forms; triggers switch known-defective shapes on.

use std::cell::{Cell, RefCell};
use std::rc::Rc;

use crate::ast::*;
use crate::rd::Rd;

#[derive(Clone, Copy, Debug, PartialEq, Eq)]
pub enum Kind {
    Any,
    Num,
    Str,
    Bool,
    Nil,
    Vec,
    Tuple,
    Map,
    Range,
    /// callable with this many arguments
    Fn(usize),
    Class(usize),
    Inst(usize),
    Fiber,
    Iter,
}

#[derive(Clone, Debug, Default)]
pub struct Triggers {
    /// break / continue leaving a try block (E2)
    pub e2: bool,
    /// return inside try that has no finally (E3)
    pub e3: bool,
    /// return / break from a catch block that has a finally (E4), throw from it (E5)
    pub e4: bool,
    pub e5: bool,
    /// return through nested finally blocks (E6)
    pub e6: bool,
    /// declarations and nested try / calls inside finally blocks (E8, E9)
    pub e8: bool,
    pub e9: bool,
    /// return from a finally block (E11 when an exception is in flight)
    pub e11: bool,
    /// super used inside a nested function (S1)
    pub s1: bool,
}

impl Triggers {
    pub fn all() -> Triggers {
        Triggers {
            e2: true,
            e3: true,
            e4: true,
            e5: true,
            e6: true,
            e8: true,
            e9: true,
            e11: true,
            s1: true,
        }
    }
}

#[derive(Clone, Debug)]
pub struct Profile {
    pub name: &'static str,
    pub size: i64,
    pub max_depth: usize,
    pub expr_depth: usize,
    /// statement weights
    pub w_print: u32,
    pub w_var: u32,
    pub w_assign: u32,
    pub w_if: u32,
    pub w_while: u32,
    pub w_for: u32,
    pub w_block: u32,
    pub w_fn: u32,
    pub w_class: u32,
    pub w_try: u32,
    pub w_throw: u32,
    /// throw statements may throw instances of user-defined error classes (declared by `program`)
    pub user_errors: bool,
    pub w_fiber: u32,
    pub w_call_stmt: u32,
    pub w_break: u32,
    pub w_return: u32,
    pub w_iterchain: u32,
    pub w_closure: u32,
    /// chance (out of 16) that an operand ignores the wanted kind
    pub illtyped: usize,
    /// chance (out of 16) that a risky expression statement is wrapped in try/catch
    pub guard: usize,
    pub lambdas: bool,
    /// wrap operands in calls of the tracing function t(k, v) (prints k, returns v)
    pub tracer: bool,
    /// self-recursive functions with a depth parameter
    pub recursion: bool,
    pub triggers: Triggers,
    pub redundant_parens: bool,
}

impl Profile {
    pub fn base(name: &'static str) -> Profile {
        Profile {
            name,
            size: 60,
            max_depth: 4,
            expr_depth: 3,
            w_print: 10,
            w_var: 8,
            w_assign: 6,
            w_if: 4,
            w_while: 2,
            w_for: 3,
            w_block: 2,
            w_fn: 3,
            w_class: 0,
            w_try: 0,
            w_throw: 0,
            user_errors: true,
            w_fiber: 0,
            w_call_stmt: 3,
            w_break: 2,
            w_return: 2,
            w_iterchain: 0,
            w_closure: 1,
            illtyped: 2,
            guard: 12,
            lambdas: true,
            tracer: true,
            recursion: true,
            triggers: Triggers::default(),
            redundant_parens: true,
        }
    }
}

#[derive(Clone, Debug)]
struct VarInfo {
    name: String,
    kind: Kind,
    assignable: bool,
}

#[derive(Clone, Debug)]
struct MethodInfo {
    name: String,
    arity: usize,
    is_static: bool,
}

#[derive(Clone, Debug)]
struct ClassInfo {
    name: String,
    ctor: Option<(String, usize)>,
    methods: Vec<MethodInfo>,
    fields: Vec<String>,
    superclass: Option<usize>,
}

#[derive(Clone, Copy, Debug, PartialEq)]
enum TryPos {
    /// inside a try block; (has_catch, has_finally)
    Body(bool, bool),
    Catch(bool),
    Finally,
}

struct FnCtx {
    kind: FnKind,
    loop_depth: usize,
    /// try nesting inside this function, innermost last; each entry also remembers the loop depth at entry
    tries: Vec<(TryPos, usize)>,
    lambda_count: usize,
    in_class: Option<usize>,
    has_super: bool,
}

pub struct Gen<'a> {
    pub rd: Rd<'a>,
    pub prof: Profile,
    scopes: Vec<Vec<VarInfo>>,
    fns: Vec<FnCtx>,
    classes: Vec<ClassInfo>,
    counter: usize,
    depth: usize,
    pub labels: Vec<&'static str>,
    /// number of distinct literal ranges used (kept <= 6 so range identity is never observable)
    ranges: Vec<(i64, i64)>,
    /// this program draws its literal ranges from a large pool, so that more than the 8 ranges the
    /// interpreter's range cache holds are alive at once (decided by the last byte of the case)
    many_ranges: bool,
    trace_id: usize,
    /// globals that functions may use before the program defines them (late binding)
    late_pending: Vec<String>,
    late_defined: Vec<String>,
    /// names currently hidden (being declared): late-bound uses must not mention them either
    hidden_names: Vec<String>,
    /// user-defined error classes (name, superclass) declared at the top of the program on demand
    pub user_errors: Vec<(String, String)>,
    /// a pending self-recursive call to place: (function, depth parameter, arity)
    rec_target: Option<(String, String, usize)>,
    /// false while generating the right side of a compound assignment (calls are fine there, but
    /// keep it simple) 
    tracer_ok: bool,
}

const STRS: &[&str] = &["", "a", "ab", "abc", "é", "x€y", "😀", "hello world", "A1", "  ", "0", "12", "a,b,c", "two\nlines", "aกb", "\u{7ff}\u{800}\u{ffff}"];
const NUMS: &[f64] = &[
    0.0, 1.0, 2.0, 3.0, 4.0, 7.0, 10.0, 0.5, 1.5, 2.25, 100.0, 255.0, 256.0, 65536.0, 4294967296.0,
    9007199254740993.0, 1e19, 0.1, 63.0, 64.0,
];
const FIELDS: &[&str] = &["p0", "p1", "p2", "p3"];
const METHODS: &[&str] = &["m0", "m1", "m2", "m3"];

impl<'a> Gen<'a> {
    pub fn new(data: &'a [u8], prof: Profile) -> Gen<'a> {
        let size = prof.size;
        Gen {
            rd: Rd::new(data, size),
            prof,
            scopes: vec![Vec::new()],
            fns: vec![FnCtx {
                kind: FnKind::Function,
                loop_depth: 0,
                tries: Vec::new(),
                lambda_count: 0,
                in_class: None,
                has_super: false,
            }],
            classes: Vec::new(),
            counter: 0,
            depth: 0,
            labels: Vec::new(),
            ranges: Vec::new(),
            many_ranges: data.last().map(|b| b % 6 == 0).unwrap_or(false),
            trace_id: 0,
            late_pending: Vec::new(),
            late_defined: Vec::new(),
            hidden_names: Vec::new(),
            user_errors: Vec::new(),
            rec_target: None,
            tracer_ok: true,
        }
    }

    fn fresh(&mut self, prefix: &str) -> String {
        self.counter += 1;
        format!("{}{}", prefix, self.counter)
    }

    fn label(&mut self, l: &'static str) {
        self.labels.push(l);
    }

    fn at_global(&self) -> bool {
        self.scopes.len() == 1 && self.fns.len() == 1
    }

    fn declare(&mut self, name: &str, kind: Kind, assignable: bool) {
        self.scopes.last_mut().unwrap().push(VarInfo {
            name: name.to_string(),
            kind,
            assignable,
        });
    }

    fn visible(&self) -> Vec<VarInfo> {
        // innermost declarations shadow outer ones
        let mut seen: Vec<String> = Vec::new();
        let mut out = Vec::new();
        for sc in self.scopes.iter().rev() {
            for v in sc.iter().rev() {
                if !seen.contains(&v.name) {
                    seen.push(v.name.clone());
                    out.push(v.clone());
                }
            }
        }
        out
    }

    /// the name of an assignable variable declared in an enclosing scope (not the current one)
    fn shadowable_name(&mut self) -> Option<String> {
        let current: Vec<String> = self.scopes.last().unwrap().iter().map(|v| v.name.clone()).collect();
        let outer: Vec<String> = self
            .visible()
            .into_iter()
            .filter(|v| v.assignable && !current.contains(&v.name) && !self.hidden_names.contains(&v.name))
            .map(|v| v.name)
            .collect();
        if outer.is_empty() {
            None
        } else {
            Some(outer[self.rd.below(outer.len())].clone())
        }
    }
    pub fn shadowable_name_pub(&mut self) -> Option<String> {
        self.shadowable_name()
    }

    fn vars_of(&self, want: Kind) -> Vec<VarInfo> {
        self.visible()
            .into_iter()
            .filter(|v| match (want, v.kind) {
                (Kind::Any, _) => true,
                (Kind::Fn(_), Kind::Fn(_)) => true,
                (Kind::Inst(_), Kind::Inst(_)) => true,
                (Kind::Class(_), Kind::Class(_)) => true,
                (a, b) => a == b,
            })
            .collect()
    }

    fn fcx(&mut self) -> &mut FnCtx {
        self.fns.last_mut().unwrap()
    }

    // ---------------------------------------------------------------- expressions

    fn lit_num(&mut self) -> Expr {
        let n = *self.rd.pick(NUMS);
        if self.rd.chance(1, 5) {
            Expr::num(-n)
        } else {
            Expr::Num(n)
        }
    }

    fn small_int(&mut self) -> Expr {
        let n = self.rd.below(6) as f64;
        Expr::Num(n)
    }

    fn literal_range(&mut self) -> Expr {
        // a small per-program pool of literal ranges
        let pool: [(i64, i64); 6] = [(0, 3), (1, 4), (0, 0), (3, 0), (-2, 2), (0, 5)];
        if self.many_ranges {
            // any of 63 ranges: a range that is still in use (a loop running over it, a variable
            // holding it) then regularly sees eight younger ones built in the meantime
            let a = self.rd.below(7) as i64 - 2;
            let b = self.rd.below(9) as i64 - 2;
            if !self.ranges.contains(&(a, b)) {
                self.ranges.push((a, b));
                if self.ranges.len() == 9 {
                    self.label("more_than_8_ranges");
                }
            }
            return Expr::range(Expr::num(a as f64), Expr::num(b as f64));
        }
        let r = if self.ranges.len() >= 6 {
            let i = self.rd.below(self.ranges.len());
            self.ranges[i]
        } else {
            let r = *self.rd.pick(&pool);
            if !self.ranges.contains(&r) {
                self.ranges.push(r);
            }
            r
        };
        Expr::range(Expr::num(r.0 as f64), Expr::num(r.1 as f64))
    }

    fn literal(&mut self, kind: Kind) -> Expr {
        match kind {
            Kind::Num => self.lit_num(),
            Kind::Str => Expr::str(self.rd.pick_str(STRS)),
            Kind::Bool => {
                if self.rd.flag() {
                    Expr::True
                } else {
                    Expr::False
                }
            }
            Kind::Nil => Expr::Nil,
            Kind::Vec => {
                let n = self.rd.below(4);
                let mut es = Vec::new();
                for _ in 0..n {
                    let k = self.scalar_kind();
                    es.push(self.literal(k));
                }
                Expr::VecLit(es)
            }
            Kind::Tuple => {
                let n = self.rd.below(4);
                let mut es = Vec::new();
                for _ in 0..n {
                    let k = self.scalar_kind();
                    es.push(self.literal(k));
                }
                Expr::TupleLit(es)
            }
            Kind::Map => {
                if self.rd.flag() {
                    Expr::MapLit(vec![], ln())
                } else {
                    let k = if self.rd.flag() { self.lit_num() } else { Expr::str(self.rd.pick_str(STRS)) };
                    let v = self.lit_num();
                    Expr::MapLit(vec![(k, v)], ln())
                }
            }
            Kind::Range => self.literal_range(),
            _ => {
                let k = self.scalar_kind();
                self.literal(k)
            }
        }
    }

    fn scalar_kind(&mut self) -> Kind {
        *self.rd.pick(&[Kind::Num, Kind::Num, Kind::Str, Kind::Bool, Kind::Nil])
    }

    fn any_kind(&mut self) -> Kind {
        *self.rd.pick(&[
            Kind::Num,
            Kind::Num,
            Kind::Str,
            Kind::Bool,
            Kind::Nil,
            Kind::Vec,
            Kind::Tuple,
            Kind::Range,
            Kind::Map,
        ])
    }

    fn maybe_paren(&mut self, e: Expr) -> Expr {
        // evaluation order and count become visible through the tracing function
        let e = if self.prof.tracer && self.tracer_ok && self.rd.chance(1, 12) {
            self.label("traced_operand");
            self.trace_id += 1;
            Expr::callv("t", vec![Expr::Num(self.trace_id as f64), e])
        } else {
            e
        };
        if self.prof.redundant_parens && self.rd.chance(1, 10) {
            Expr::paren(e)
        } else {
            e
        }
    }

    /// a variable reference of (roughly) the wanted kind, if one is visible
    fn var_ref(&mut self, want: Kind) -> Option<Expr> {
        if self.fns.len() > 1 && want == Kind::Num && self.rd.chance(1, 16) {
            // a global the program has not defined yet (or never will): looked up when the use executes
            self.label("late_global_use");
            let name = if !self.late_pending.is_empty() && self.rd.flag() {
                self.late_pending[self.rd.below(self.late_pending.len())].clone()
            } else if !self.late_defined.is_empty() && self.rd.flag() {
                self.late_defined[self.rd.below(self.late_defined.len())].clone()
            } else {
                let n = self.fresh("late");
                self.late_pending.push(n.clone());
                n
            };
            if !self.hidden_names.contains(&name) {
                return Some(Expr::var(&name));
            }
        }
        let vs = self.vars_of(want);
        if vs.is_empty() {
            return None;
        }
        let v = &vs[self.rd.below(vs.len())];
        Some(Expr::var(&v.name))
    }

    /// An expression that does not use operators below bitwise-or and contains no assignment
    /// (the only shape the language accepts on the right of a compound assignment).
    fn simple_expr(&mut self, want: Kind, depth: usize) -> Expr {
        if depth == 0 || !self.rd.spend(1) {
            if self.rd.flag() {
                if let Some(v) = self.var_ref(want) {
                    return v;
                }
            }
            return self.literal(want);
        }
        match want {
            Kind::Num => match self.rd.below(5) {
                0 => {
                    let op = *self.rd.pick(&BinOp::ARITH);
                    let a = self.simple_expr(Kind::Num, depth - 1);
                    let b = self.simple_expr(Kind::Num, depth - 1);
                    Expr::bin(op, a, b)
                }
                1 => {
                    let a = self.simple_expr(Kind::Num, depth - 1);
                    Expr::un(UnOp::Neg, a)
                }
                2 => {
                    let s = self.simple_expr(Kind::Str, depth - 1);
                    Expr::invoke(s, "len", vec![])
                }
                _ => self.simple_expr(Kind::Num, 0),
            },
            Kind::Str => {
                if self.rd.flag() {
                    let a = self.simple_expr(Kind::Str, depth - 1);
                    let b = self.simple_expr(Kind::Str, depth - 1);
                    Expr::bin(BinOp::Add, a, b)
                } else {
                    self.simple_expr(Kind::Str, 0)
                }
            }
            _ => self.simple_expr(want, 0),
        }
    }

    pub fn expr(&mut self, want: Kind, depth: usize) -> Expr {
        let want = if self.rd.below(16) < self.prof.illtyped {
            self.label("illtyped_operand");
            self.any_kind()
        } else {
            want
        };
        if depth == 0 || !self.rd.spend(1) {
            if self.rd.chance(3, 5) {
                if let Some(v) = self.var_ref(want) {
                    return v;
                }
            }
            return self.literal(want);
        }
        let d = depth - 1;
        let e = match want {
            Kind::Num if self.rd.chance(1, 14) => {
                // a built-in method that fails (raised by the native itself, not by an operator)
                self.label("native_failure");
                match self.rd.below(8) {
                    0 => Expr::invoke(Expr::VecLit(vec![]), "pop", vec![]),
                    1 => Expr::invoke(Expr::str("x3"), "to_num", vec![]),
                    2 => Expr::invoke(Expr::str("abc"), "find", vec![Expr::str(""), Expr::Num(0.0)]),
                    3 => Expr::invoke(Expr::str("abc"), "char_byte_index", vec![Expr::Num(9.0)]),
                    4 => Expr::invoke(Expr::MapLit(vec![], ln()), "get", vec![Expr::VecLit(vec![])]),
                    5 => Expr::invoke(Expr::var("String"), "from_utf8", vec![Expr::VecLit(vec![Expr::Num(255.0)])]),
                    6 => Expr::invoke(Expr::str("abc"), "len", vec![Expr::Num(1.0)]),
                    _ => Expr::invoke(Expr::var("Fiber"), "new", vec![Expr::Num(1.0)]),
                }
            }
            Kind::Num => match self.rd.below(12) {
                0..=3 => {
                    let op = *self.rd.pick(&BinOp::ARITH);
                    let a = self.expr(Kind::Num, d);
                    let b = self.expr(Kind::Num, d);
                    Expr::bin(op, a, b)
                }
                4 => {
                    let op = *self.rd.pick(&[UnOp::Neg, UnOp::BitNot]);
                    let a = self.expr(Kind::Num, d);
                    Expr::un(op, a)
                }
                5 => {
                    let s = self.expr(Kind::Str, d);
                    let m = self.rd.pick_str(&["len", "count_chars"]);
                    Expr::invoke(s, m, vec![])
                }
                6 => {
                    let v = self.expr(Kind::Vec, d);
                    if self.rd.flag() {
                        Expr::invoke(v, "len", vec![])
                    } else {
                        let i = self.small_int();
                        Expr::index(v, i)
                    }
                }
                7 => self.call_expr(Kind::Num, d),
                8 => {
                    // assignment as a value
                    self.assign_expr(d).unwrap_or_else(|| self.literal(Kind::Num))
                }
                9 => {
                    let c = self.expr(Kind::Bool, d);
                    let a = self.expr(Kind::Num, d);
                    let b = self.expr(Kind::Num, d);
                    if self.rd.flag() {
                        Expr::Or(Box::new(Expr::And(Box::new(c), Box::new(a))), Box::new(b))
                    } else {
                        Expr::And(Box::new(c), Box::new(a))
                    }
                }
                _ => self.expr(Kind::Num, 0),
            },
            Kind::Str if self.rd.chance(1, 10) && !self.vars_of(Kind::Vec).is_empty() => {
                // parts that mutate what an earlier part printed: formatting happens part by part
                self.label("interp_side_effect");
                let vs = self.vars_of(Kind::Vec);
                let v = vs[self.rd.below(vs.len())].name.clone();
                let effect = match self.rd.below(3) {
                    0 => Expr::invoke(Expr::var(&v), "push", vec![Expr::Num(9.0)]),
                    1 => Expr::invoke(Expr::var(&v), "pop", vec![]),
                    _ => Expr::assign(Target::Index(Expr::var(&v), Expr::Num(0.0)), Expr::str("w")),
                };
                Expr::Interp(vec![
                    Part::Ex(Expr::var(&v)),
                    Part::Lit("|".into()),
                    Part::Ex(effect),
                    Part::Lit("|".into()),
                    Part::Ex(Expr::var(&v)),
                ])
            }
            Kind::Str => match self.rd.below(9) {
                0 | 1 => {
                    let a = self.expr(Kind::Str, d);
                    let b = self.expr(Kind::Str, d);
                    Expr::bin(BinOp::Add, a, b)
                }
                2 | 3 => {
                    let n = 1 + self.rd.below(3);
                    let mut parts = Vec::new();
                    for _ in 0..n {
                        if self.rd.flag() {
                            parts.push(Part::Lit(self.rd.pick_str(STRS).to_string()));
                        }
                        let k = self.any_kind();
                        let k = if k == Kind::Map { Kind::Num } else { k };
                        parts.push(Part::Ex(self.expr(k, d)));
                    }
                    if self.rd.flag() {
                        parts.push(Part::Lit(self.rd.pick_str(STRS).to_string()));
                    }
                    Expr::Interp(parts)
                }
                4 => {
                    let s = self.expr(Kind::Str, d);
                    let i = if self.rd.flag() { self.small_int() } else { self.literal_range() };
                    Expr::index(s, i)
                }
                5 => {
                    let k = self.any_kind();
                    let k = if k == Kind::Map { Kind::Bool } else { k };
                    let x = self.expr(k, d);
                    Expr::invoke(Expr::var("String"), "from", vec![x])
                }
                6 => {
                    let s = self.expr(Kind::Str, d);
                    let a = Expr::str(self.rd.pick_str(&["a", "b", ",", "é", "l"]));
                    let b = Expr::str(self.rd.pick_str(STRS));
                    Expr::invoke(s, "replace", vec![a, b])
                }
                7 => self.call_expr(Kind::Str, d),
                _ => self.expr(Kind::Str, 0),
            },
            Kind::Bool => match self.rd.below(10) {
                0 | 1 => {
                    let op = *self.rd.pick(&[BinOp::Lt, BinOp::Le, BinOp::Gt, BinOp::Ge]);
                    let a = self.expr(Kind::Num, d);
                    let b = self.expr(Kind::Num, d);
                    Expr::bin(op, a, b)
                }
                2 | 3 => {
                    let op = *self.rd.pick(&[BinOp::Eq, BinOp::Ne]);
                    let k = self.any_kind();
                    let a = self.expr(k, d);
                    let k2 = if self.rd.chance(3, 4) { k } else { self.any_kind() };
                    let b = self.expr(k2, d);
                    Expr::bin(op, a, b)
                }
                4 => {
                    let k = self.any_kind();
                    let a = self.expr(k, d);
                    Expr::un(UnOp::Not, a)
                }
                5 => {
                    let a = self.expr(Kind::Bool, d);
                    let b = self.expr(Kind::Bool, d);
                    Expr::And(Box::new(a), Box::new(b))
                }
                6 => {
                    let a = self.expr(Kind::Bool, d);
                    let b = self.expr(Kind::Bool, d);
                    Expr::Or(Box::new(a), Box::new(b))
                }
                7 => {
                    let s = self.expr(Kind::Str, d);
                    let m = self.rd.pick_str(&["is_alpha", "is_digit", "is_hexdigit"]);
                    Expr::invoke(s, m, vec![])
                }
                8 => {
                    let s = self.expr(Kind::Str, d);
                    let p = Expr::str(self.rd.pick_str(STRS));
                    let m = self.rd.pick_str(&["starts_with", "ends_with"]);
                    Expr::invoke(s, m, vec![p])
                }
                _ => self.expr(Kind::Bool, 0),
            },
            Kind::Vec => match self.rd.below(8) {
                0 | 1 => {
                    let n = self.rd.below(4);
                    let mut es = Vec::new();
                    for _ in 0..n {
                        let k = self.any_kind();
                        let k = if k == Kind::Map { Kind::Num } else { k };
                        es.push(self.expr(k, d));
                    }
                    Expr::VecLit(es)
                }
                2 => {
                    let v = self.expr(Kind::Vec, d);
                    let r = self.literal_range();
                    Expr::index(v, r)
                }
                3 => {
                    let s = self.expr(Kind::Str, d);
                    let delim = Expr::str(self.rd.pick_str(&[",", "a", " ", "é"]));
                    Expr::invoke(s, "split", vec![delim])
                }
                4 => {
                    let s = self.expr(Kind::Str, d);
                    let m = self.rd.pick_str(&["to_bytes", "to_code_points"]);
                    Expr::invoke(s, m, vec![])
                }
                5 => {
                    let v = self.expr(Kind::Vec, d);
                    let x = self.expr(Kind::Num, d);
                    Expr::invoke(v, "push", vec![x])
                }
                6 if self.prof.w_iterchain > 0 => self.iter_chain(d, true),
                _ => self.expr(Kind::Vec, 0),
            },
            Kind::Tuple => {
                if self.rd.flag() {
                    let n = self.rd.below(4);
                    let mut es = Vec::new();
                    for _ in 0..n {
                        let k = self.scalar_kind();
                        es.push(self.expr(k, d));
                    }
                    Expr::TupleLit(es)
                } else {
                    self.expr(Kind::Tuple, 0)
                }
            }
            Kind::Range => {
                if self.rd.chance(1, 3) {
                    let mut side = |g: &mut Self| match g.rd.below(8) {
                        0 => Expr::Num(0.5),
                        1 => Expr::Nil,
                        2 => Expr::str("a"),
                        3 => g.expr(Kind::Num, 1),
                        _ => g.small_int(),
                    };
                    let a = side(self);
                    let b = side(self);
                    Expr::range(a, b)
                } else {
                    self.literal_range()
                }
            }
            Kind::Fn(n) => {
                if self.prof.lambdas && self.rd.chance(2, 3) {
                    self.lambda(n)
                } else {
                    match self.var_ref(Kind::Fn(n)) {
                        Some(v) => v,
                        None => self.lambda(n),
                    }
                }
            }
            _ => self.expr(want, 0),
        };
        self.maybe_paren(e)
    }

    fn callables(&self) -> Vec<(String, usize)> {
        self.visible()
            .into_iter()
            .filter_map(|v| match v.kind {
                Kind::Fn(n) => Some((v.name, n)),
                _ => None,
            })
            .collect()
    }

    fn call_expr(&mut self, want: Kind, d: usize) -> Expr {
        let cs = self.callables();
        // no calls of user functions from inside a finally block (recorded finding E9: a try
        // statement executed there clears the pending exception)
        if cs.is_empty() || (self.in_finally() && !self.prof.triggers.e9) {
            return self.expr(want, 0);
        }
        let (name, arity) = cs[self.rd.below(cs.len())].clone();
        if arity >= 100 {
            // a self-recursive function: a small literal depth first
            let arity = arity - 100;
            let mut args = vec![Expr::Num(self.rd.below(4) as f64)];
            for _ in 1..arity {
                args.push(self.expr(Kind::Num, d));
            }
            self.label("call_recursive");
            return Expr::callv(&name, args);
        }
        let arity = if self.rd.below(16) < self.prof.illtyped / 2 + 1 && self.rd.chance(1, 4) {
            self.label("wrong_arity");
            (arity + 1) % 3
        } else {
            arity
        };
        let mut args = Vec::new();
        for _ in 0..arity {
            let k = if self.rd.flag() { Kind::Num } else { self.scalar_kind() };
            args.push(self.expr(k, d));
        }
        self.label("call");
        Expr::callv(&name, args)
    }

    fn assign_expr(&mut self, d: usize) -> Option<Expr> {
        // element assignment (its value is nil) and field assignment / compound assignment
        if self.rd.chance(1, 8) {
            let vecs = self.vars_of(Kind::Vec);
            if !vecs.is_empty() {
                self.label("element_assign");
                let v = vecs[self.rd.below(vecs.len())].name.clone();
                let i = match self.rd.below(4) {
                    0 => Expr::num(-1.0),
                    1 => self.expr(Kind::Num, 1),
                    _ => self.small_int(),
                };
                let k = self.scalar_kind();
                let rhs = self.expr(k, d.min(2));
                return Some(Expr::assign(Target::Index(Expr::var(&v), i), rhs));
            }
        }
        if self.rd.chance(1, 8) {
            let insts = self.vars_of(Kind::Inst(0));
            if !insts.is_empty() {
                let o = insts[self.rd.below(insts.len())].name.clone();
                let f = self.rd.pick_str(FIELDS).to_string();
                if self.rd.flag() {
                    self.label("field_compound_assign");
                    let op = *self.rd.pick(&BinOp::ARITH);
                    let rhs = self.simple_expr(Kind::Num, 1);
                    return Some(Expr::compound(Target::Prop(Expr::var(&o), f), op, rhs));
                }
                self.label("field_assign");
                let rhs = self.expr(Kind::Num, d.min(2));
                return Some(Expr::assign(Target::Prop(Expr::var(&o), f), rhs));
            }
        }
        let vs: Vec<VarInfo> = self.visible().into_iter().filter(|v| v.assignable).collect();
        if vs.is_empty() {
            return None;
        }
        let v = vs[self.rd.below(vs.len())].clone();
        let kind = match v.kind {
            Kind::Fn(_) | Kind::Class(_) | Kind::Inst(_) | Kind::Fiber | Kind::Iter | Kind::Any | Kind::Map => {
                return None
            }
            k => k,
        };
        Some(match self.rd.below(3) {
            0 if matches!(kind, Kind::Num | Kind::Str) => {
                let op = if kind == Kind::Str { BinOp::Add } else { *self.rd.pick(&BinOp::ARITH) };
                let rhs = self.simple_expr(kind, d.min(2));
                self.label("compound_assign");
                Expr::compound(Target::Var(v.name.clone()), op, rhs)
            }
            _ => {
                let rhs = self.expr(kind, d);
                Expr::assign_var(&v.name, rhs)
            }
        })
    }

    fn lambda(&mut self, arity: usize) -> Expr {
        self.label("lambda");
        let count = self.fcx().lambda_count;
        self.fcx().lambda_count += 1;
        let name = format!("lambda-{}", count);
        let params: Vec<String> = (0..arity).map(|_| self.fresh("q")).collect();
        self.fns.push(FnCtx {
            kind: FnKind::Lambda,
            loop_depth: 0,
            tries: Vec::new(),
            lambda_count: 0,
            in_class: self.fns.last().unwrap().in_class,
            has_super: self.fns.last().unwrap().has_super,
        });
        self.scopes.push(Vec::new());
        for p in &params {
            let k = Kind::Num;
            self.declare(p, k, true);
        }
        let body = if self.rd.chance(2, 3) || self.depth >= self.prof.max_depth {
            let k = if self.rd.chance(2, 3) { Kind::Num } else { self.scalar_kind() };
            let d = self.prof.expr_depth.min(2);
            // an assignment to a captured variable is the most interesting lambda body
            let e = if self.rd.chance(1, 3) {
                self.assign_expr(d).unwrap_or_else(|| self.expr(k, d))
            } else {
                self.expr(k, d)
            };
            Body::Expr(Box::new(e))
        } else {
            self.depth += 1;
            let n = 1 + self.rd.below(3);
            let b = self.stmts(n);
            self.depth -= 1;
            Body::Block(b)
        };
        self.scopes.pop();
        self.fns.pop();
        Expr::Lambda(Rc::new(FnDef {
            name: RefCell::new(name),
            params,
            body,
            kind: FnKind::Lambda,
        }))
    }

    /// `iterable.iter().map(f).filter(p)...` ending in collect (a Vec) or reduce (a Num)
    fn iter_chain(&mut self, d: usize, collect: bool) -> Expr {
        self.label("iter_chain");
        if self.rd.chance(1, 12) {
            // a long source under a filter that rejects runs of 60-150 consecutive elements: however
            // the adapter skips them, it must not cost a call frame per rejected element
            self.label("long_rejected_run");
            let n = 70 + self.rd.below(120);
            let keep_from = n - 1 - self.rd.below(4);
            let x = "flx";
            let pred = Expr::Lambda(Rc::new(FnDef {
                name: RefCell::new(String::new()),
                params: vec![x.to_string()],
                body: Body::Expr(Box::new(Expr::bin(BinOp::Ge, Expr::var(x), Expr::Num(keep_from as f64)))),
                kind: FnKind::Lambda,
            }));
            // (bounds outside the pool of small literal ranges; the range is not compared with another)
            let src = Expr::range(Expr::Num(0.0), Expr::Num(n as f64));
            self.note_range(0, n as i64);
            let mut e = Expr::invoke(Expr::invoke(src, "iter", vec![]), "filter", vec![pred]);
            if self.rd.flag() {
                let f = self.lambda(1);
                e = Expr::invoke(e, "map", vec![f]);
            }
            return if collect {
                Expr::invoke(e, "collect", vec![])
            } else {
                let f = self.lambda(2);
                let init = self.lit_num();
                Expr::invoke(e, "reduce", vec![f, init])
            };
        }
        let src = match self.rd.below(6) {
            5 => {
                // elements that look like pieces of the iteration protocol itself: the sentinel's
                // class (an ordinary value), other classes, falsy values, and sometimes a sentinel
                // instance (which ends the iteration there, as for any iterator that returns one)
                self.label("protocol_like_elements");
                const PL: &[&str] = &["StopIter", "Error", "Iter", "Object", "nil", "false", "0", "\"\"", "TypeError", "Type"];
                let n = 2 + self.rd.below(4);
                let mut items: Vec<Expr> = Vec::new();
                for _ in 0..n {
                    let name = self.rd.pick_str(PL);
                    items.push(match name {
                        "nil" => Expr::Nil,
                        "false" => Expr::False,
                        "0" => Expr::Num(0.0),
                        "\"\"" => Expr::str(""),
                        c => Expr::var(c),
                    });
                }
                if self.rd.chance(1, 5) {
                    let at = self.rd.below(items.len() + 1);
                    items.insert(at, Expr::invoke(Expr::var("StopIter"), "new", vec![]));
                }
                if self.rd.flag() {
                    Expr::VecLit(items)
                } else {
                    Expr::TupleLit(items)
                }
            }
            0 => self.expr(Kind::Vec, d.min(1)),
            1 => self.literal_range(),
            2 => self.literal(Kind::Tuple),
            3 => Expr::str(self.rd.pick_str(STRS)),
            _ => {
                let vs = self.vars_of(Kind::Inst(0));
                let iters: Vec<VarInfo> = vs
                    .into_iter()
                    .filter(|v| matches!(v.kind, Kind::Inst(c) if self.classes.get(c).map(|k| k.name.starts_with("It")).unwrap_or(false)))
                    .collect();
                if iters.is_empty() {
                    self.literal_range()
                } else {
                    Expr::var(&iters[self.rd.below(iters.len())].name)
                }
            }
        };
        let mut e = Expr::invoke(src, "iter", vec![]);
        let n = self.rd.below(4);
        for _ in 0..n {
            let f = self.lambda(1);
            let m = if self.rd.flag() { "map" } else { "filter" };
            e = Expr::invoke(e, m, vec![f]);
        }
        if collect {
            Expr::invoke(e, "collect", vec![])
        } else {
            let f = self.lambda(2);
            // the seed is a value like any other: nil, false, an empty string or vector are seeds too
            // (the function is called once per element, the first time with the seed)
            let init = match self.rd.below(10) {
                0 | 1 => Expr::Nil,
                2 => Expr::False,
                3 => Expr::str(""),
                _ => self.lit_num(),
            };
            Expr::invoke(e, "reduce", vec![f, init])
        }
    }

    // ---------------------------------------------------------------- statements

    pub fn stmts(&mut self, n: usize) -> Vec<Stmt> {
        let mut v = Vec::new();
        for _ in 0..n {
            if self.rd.budget <= 0 {
                break;
            }
            self.stmt_into(&mut v);
        }
        if v.is_empty() {
            let e = self.expr(Kind::Num, 1);
            v.push(Stmt::print(e));
        }
        v
    }

    fn printable(&mut self) -> Expr {
        let d = self.prof.expr_depth;
        match self.rd.below(10) {
            0..=3 => self.expr(Kind::Num, d),
            4 | 5 => self.expr(Kind::Str, d),
            6 => self.expr(Kind::Bool, d),
            7 => self.expr(Kind::Vec, d),
            8 => {
                // any visible variable that is not a map
                let vs: Vec<VarInfo> = self
                    .visible()
                    .into_iter()
                    .filter(|v| !matches!(v.kind, Kind::Map | Kind::Any))
                    .collect();
                if vs.is_empty() {
                    self.expr(Kind::Num, d)
                } else {
                    Expr::var(&vs[self.rd.below(vs.len())].name)
                }
            }
            _ => {
                let k = *self.rd.pick(&[Kind::Tuple, Kind::Range, Kind::Nil]);
                self.expr(k, d)
            }
        }
    }

    /// Decide whether the next statement is wrapped in try/catch (so the program continues after an
    /// error); must be called before the statement is generated so that the generator knows it is
    /// inside a try block.
    fn guard_begin(&mut self) -> bool {
        if self.in_finally() && !self.prof.triggers.e9 {
            return false;
        }
        if self.rd.below(16) < self.prof.guard {
            let ld = self.fns.last().unwrap().loop_depth;
            self.fcx().tries.push((TryPos::Body(true, false), ld));
            true
        } else {
            false
        }
    }

    fn guard_end(&mut self, guarded: bool, s: Stmt) -> Stmt {
        if !guarded {
            return s;
        }
        self.fcx().tries.pop();
        let e = self.fresh("e");
        Stmt::new(StmtKind::Try(
            vec![s],
            Some((e.clone(), vec![Stmt::print(Expr::callv("type", vec![Expr::var(&e)]))])),
            None,
        ))
    }

    fn in_finally(&self) -> bool {
        self.fns.last().unwrap().tries.iter().any(|(p, _)| *p == TryPos::Finally)
    }

    fn stmt_into(&mut self, out: &mut Vec<Stmt>) {
        if !self.rd.spend(2) {
            return;
        }
        if let Some((name, dp, arity)) = self.rec_target.clone() {
            // only directly inside the function being defined (not in nested lambdas), not in finally
            if self.fns.last().map(|f| f.kind == FnKind::Function).unwrap_or(false)
                && !self.in_finally()
                && self.visible().iter().any(|v| v.name == dp)
                && self.rd.chance(1, 3)
            {
                self.rec_target = None;
                let call = self.rec_call(&name, &dp, arity);
                out.push(call);
                return;
            }
        }
        let p = self.prof.clone();
        let deep = self.depth >= p.max_depth;
        let in_fin = self.in_finally();
        let restrict = in_fin && !p.triggers.e8;
        let in_loop = self.fns.last().unwrap().loop_depth > 0;
        let in_fn = self.fns.len() > 1;
        let weights = [
            p.w_print,
            if restrict { 0 } else { p.w_var },
            p.w_assign,
            if deep { 0 } else { p.w_if },
            if deep || restrict { 0 } else { p.w_while },
            if deep || restrict { 0 } else { p.w_for },
            if deep || restrict { 0 } else { p.w_block },
            if deep || restrict { 0 } else { p.w_fn },
            if deep || restrict || self.fns.len() > 2 { 0 } else { p.w_class },
            if deep || (in_fin && !p.triggers.e9) { 0 } else { p.w_try },
            p.w_throw,
            if deep || restrict { 0 } else { p.w_fiber },
            if in_fin && !p.triggers.e9 { 0 } else { p.w_call_stmt },
            if in_loop { p.w_break } else { 0 },
            if in_fn { p.w_return } else { 0 },
            if restrict { 0 } else { p.w_iterchain },
            if restrict || deep { 0 } else { p.w_closure },
        ];
        match self.rd.weighted(&weights) {
            0 => {
                let gd = self.guard_begin();
                let e = self.printable();
                let s = self.guard_end(gd, Stmt::print(e));
                out.push(s);
            }
            1 => self.var_stmt(out),
            2 if !in_fin && self.rd.chance(1, 12) => {
                // assignment to a global that was never declared: a NameError, and the name must
                // still be undefined afterwards
                self.label("assign_undeclared_global");
                let ghost = self.fresh("ghost");
                let (e1, e2) = (self.fresh("e"), self.fresh("e"));
                let value = self.expr(Kind::Num, 1);
                out.push(Stmt::new(StmtKind::Try(
                    vec![Stmt::expr(Expr::assign_var(&ghost, value)), Stmt::print(Expr::str("assigned"))],
                    Some((e1.clone(), vec![Stmt::print(Expr::callv("type", vec![Expr::var(&e1)]))])),
                    None,
                )));
                out.push(Stmt::new(StmtKind::Try(
                    vec![Stmt::print(Expr::var(&ghost))],
                    Some((e2.clone(), vec![Stmt::print(Expr::callv("type", vec![Expr::var(&e2)]))])),
                    None,
                )));
            }
            2 => {
                let d = p.expr_depth;
                let gd = self.guard_begin();
                if let Some(e) = self.assign_expr(d) {
                    let s = self.guard_end(gd, Stmt::expr(e));
                    out.push(s);
                } else {
                    if gd {
                        self.fcx().tries.pop();
                    }
                    if restrict {
                        let e = self.printable();
                        out.push(Stmt::print(e));
                    } else {
                        self.var_stmt(out);
                    }
                }
            }
            3 => self.if_stmt(out),
            4 => self.while_stmt(out),
            5 => self.for_stmt(out),
            6 => {
                self.label("block");
                self.scopes.push(Vec::new());
                self.depth += 1;
                let n = 1 + self.rd.below(4);
                let b = self.stmts(n);
                self.depth -= 1;
                self.scopes.pop();
                out.push(Stmt::new(StmtKind::Block(b)));
            }
            7 => self.fn_stmt(out),
            8 => crate::gen2::class_stmt(self, out),
            9 => crate::gen2::try_stmt(self, out),
            10 => crate::gen2::throw_stmt(self, out),
            11 => crate::gen2::fiber_stmts(self, out),
            12 => {
                let d = p.expr_depth;
                let gd = self.guard_begin();
                let e = self.call_expr(Kind::Num, d);
                let s = if self.rd.flag() { Stmt::print(e) } else { Stmt::expr(e) };
                let s = self.guard_end(gd, s);
                out.push(s);
            }
            13 => self.break_stmt(out),
            14 => self.return_stmt(out),
            16 => self.closure_template(out),
            _ if self.rd.chance(1, 2) => crate::gen2::iter_template(self, out),
            _ => {
                let d = p.expr_depth;
                let collect = self.rd.flag();
                let gd = self.guard_begin();
                let e = self.iter_chain(d, collect);
                let s = self.guard_end(gd, Stmt::print(e));
                out.push(s);
            }
        }
    }

    fn var_stmt(&mut self, out: &mut Vec<Stmt>) {
        let d = self.prof.expr_depth;
        let kind = match self.rd.below(10) {
            0..=3 => Kind::Num,
            4 | 5 => Kind::Str,
            6 => Kind::Vec,
            7 => Kind::Bool,
            8 if self.prof.lambdas => Kind::Fn(self.rd.below(3)),
            _ => *self.rd.pick(&[Kind::Tuple, Kind::Nil, Kind::Range, Kind::Map]),
        };
        // shadow an existing name sometimes (only across scopes: redeclaring a local in the same
        // scope is a compile error)
        let name = if !self.at_global() && self.rd.chance(1, 5) {
            let current: Vec<String> = self.scopes.last().unwrap().iter().map(|v| v.name.clone()).collect();
            let outer: Vec<VarInfo> = self
                .visible()
                .into_iter()
                .filter(|v| !current.contains(&v.name) && v.assignable)
                .collect();
            if outer.is_empty() {
                self.fresh("v")
            } else {
                self.label("shadow");
                outer[self.rd.below(outer.len())].name.clone()
            }
        } else if self.at_global() && self.rd.chance(1, 8) {
            // globals may be redefined
            let gs: Vec<VarInfo> = self.scopes[0].iter().filter(|v| v.assignable).cloned().collect();
            if gs.is_empty() {
                self.fresh("g")
            } else {
                self.label("redefine_global");
                gs[self.rd.below(gs.len())].name.clone()
            }
        } else if self.at_global() && !self.late_pending.is_empty() && self.rd.chance(1, 2) {
            self.label("late_global_defined");
            let n = self.late_pending.remove(0);
            self.late_defined.push(n.clone());
            n
        } else if self.at_global() {
            self.fresh("g")
        } else {
            self.fresh("v")
        };
        // the initialiser must not mention the variable being declared (compile error for locals)
        let hidden = self.hide(&name);
        let init = if self.rd.chance(1, 12) {
            None
        } else {
            Some(self.expr(kind, d))
        };
        self.unhide(hidden);
        let kind = if init.is_none() { Kind::Nil } else { kind };
        out.push(Stmt::var(&name, init));
        self.declare(&name, kind, true);
        self.label("var");
    }

    /// temporarily removes every visible declaration of `name` (so generated code cannot mention it)
    fn hide(&mut self, name: &str) -> Vec<(usize, usize, VarInfo)> {
        self.hidden_names.push(name.to_string());
        let mut removed = Vec::new();
        for (si, sc) in self.scopes.iter_mut().enumerate() {
            let mut i = 0;
            while i < sc.len() {
                if sc[i].name == name {
                    removed.push((si, i, sc.remove(i)));
                } else {
                    i += 1;
                }
            }
        }
        removed
    }

    fn unhide(&mut self, removed: Vec<(usize, usize, VarInfo)>) {
        self.hidden_names.pop();
        for (si, i, v) in removed.into_iter().rev() {
            let sc = &mut self.scopes[si];
            let i = i.min(sc.len());
            sc.insert(i, v);
        }
    }

    fn body(&mut self, max: usize) -> Vec<Stmt> {
        self.scopes.push(Vec::new());
        self.depth += 1;
        let n = 1 + self.rd.below(max);
        let b = self.stmts(n);
        self.depth -= 1;
        self.scopes.pop();
        b
    }

    fn if_stmt(&mut self, out: &mut Vec<Stmt>) {
        self.label("if");
        let d = self.prof.expr_depth;
        let k = if self.rd.chance(3, 4) { Kind::Bool } else { self.any_kind() };
        let c = self.expr(k, d);
        let then = self.body(3);
        let els = match self.rd.below(4) {
            0 => None,
            1 => {
                let c2 = self.expr(Kind::Bool, d);
                let t2 = self.body(2);
                let e2 = if self.rd.flag() {
                    Some(Box::new(Stmt::new(StmtKind::Block(self.body(2)))))
                } else {
                    None
                };
                Some(Box::new(Stmt::new(StmtKind::If(c2, t2, e2))))
            }
            _ => Some(Box::new(Stmt::new(StmtKind::Block(self.body(3))))),
        };
        out.push(Stmt::new(StmtKind::If(c, then, els)));
    }

    fn while_stmt(&mut self, out: &mut Vec<Stmt>) {
        self.label("while");
        let d = self.prof.expr_depth;
        let i = self.fresh("i");
        let n = 1 + self.rd.below(4);
        // counter declared just before the loop; the increment is the first statement of the body
        // so that `continue` cannot skip it
        let decl = Stmt::var(&i, Some(Expr::Num(0.0)));
        self.declare(&i, Kind::Num, false);
        let mut cond = Expr::bin(BinOp::Lt, Expr::var(&i), Expr::Num(n as f64));
        if self.rd.chance(1, 3) {
            let extra = self.expr(Kind::Bool, d.min(2));
            cond = Expr::And(Box::new(cond), Box::new(extra));
        }
        self.fcx().loop_depth += 1;
        self.scopes.push(Vec::new());
        self.depth += 1;
        let mut body = vec![Stmt::expr(Expr::compound(Target::Var(i.clone()), BinOp::Add, Expr::Num(1.0)))];
        let k = 1 + self.rd.below(4);
        body.extend(self.stmts(k));
        self.depth -= 1;
        self.scopes.pop();
        self.fcx().loop_depth -= 1;
        out.push(decl);
        out.push(Stmt::new(StmtKind::While(cond, body)));
    }

    fn for_stmt(&mut self, out: &mut Vec<Stmt>) {
        self.label("for");
        let gd = self.guard_begin();
        let d = self.prof.expr_depth;
        // the loop variable sometimes takes the name of a variable of an enclosing scope or of a
        // global used earlier: inside the loop (closures in its body included) the name means the loop
        // variable, afterwards the outer variable again, untouched
        let v = match self.shadowable_name() {
            Some(n) if self.rd.chance(1, 6) => {
                self.label("loop_var_shadows");
                n
            }
            _ => self.fresh("x"),
        };
        let hidden = self.hide(&v);
        let (it, vk) = match self.rd.below(8) {
            0 | 1 => (self.literal_range(), Kind::Num),
            2 => (self.expr(Kind::Vec, d.min(2)), Kind::Any),
            3 => (Expr::str(self.rd.pick_str(STRS)), Kind::Str),
            4 => (self.literal(Kind::Tuple), Kind::Any),
            5 if self.prof.w_iterchain > 0 => {
                let c = self.iter_chain(d, true);
                (c, Kind::Any)
            }
            6 => {
                // sometimes something that is not iterable
                let k = self.any_kind();
                (self.expr(k, 1), Kind::Any)
            }
            _ => (self.literal_range(), Kind::Num),
        };
        self.unhide(hidden);
        self.fcx().loop_depth += 1;
        self.scopes.push(Vec::new());
        self.declare(&v, vk, true);
        self.scopes.push(Vec::new());
        self.depth += 1;
        let k = 1 + self.rd.below(4);
        let body = self.stmts(k);
        self.depth -= 1;
        self.scopes.pop();
        self.scopes.pop();
        self.fcx().loop_depth -= 1;
        let s = Stmt::new(StmtKind::For(v, it, body));
        let s = self.guard_end(gd, s);
        out.push(s);
    }

    /// may a break/continue be emitted here? (not across a try block unless the trigger is on)
    fn break_allowed(&self) -> bool {
        let f = self.fns.last().unwrap();
        if f.loop_depth == 0 {
            return false;
        }
        for (pos, loop_depth_at_entry) in f.tries.iter().rev() {
            if *loop_depth_at_entry < f.loop_depth {
                // the loop is inside this try: break does not leave it
                continue;
            }
            match pos {
                TryPos::Body(..) => {
                    if !self.prof.triggers.e2 {
                        return false;
                    }
                }
                TryPos::Catch(has_finally) => {
                    if *has_finally && !self.prof.triggers.e4 {
                        return false;
                    }
                }
                TryPos::Finally => return false,
            }
        }
        true
    }

    fn break_stmt(&mut self, out: &mut Vec<Stmt>) {
        if !self.break_allowed() {
            let e = self.printable();
            out.push(Stmt::print(e));
            return;
        }
        let d = self.prof.expr_depth;
        let c = self.expr(Kind::Bool, d.min(2));
        let which = if self.rd.flag() {
            self.label("break");
            StmtKind::Break
        } else {
            self.label("continue");
            StmtKind::Continue
        };
        // conditional so that the rest of the body is not dead code
        if self.rd.chance(3, 4) {
            out.push(Stmt::new(StmtKind::If(c, vec![Stmt::new(which)], None)));
        } else {
            out.push(Stmt::new(which));
        }
    }

    fn return_allowed(&self) -> bool {
        let f = self.fns.last().unwrap();
        let t = &self.prof.triggers;
        let mut finally_bodies = 0;
        for (pos, _) in f.tries.iter().rev() {
            match pos {
                TryPos::Body(_, has_finally) => {
                    if !*has_finally && !t.e3 {
                        return false;
                    }
                    if *has_finally {
                        finally_bodies += 1;
                    }
                }
                TryPos::Catch(has_finally) => {
                    if *has_finally && !t.e4 {
                        return false;
                    }
                }
                TryPos::Finally => {
                    if !t.e11 {
                        return false;
                    }
                }
            }
        }
        if finally_bodies > 1 && !t.e6 {
            return false;
        }
        true
    }

    fn return_stmt(&mut self, out: &mut Vec<Stmt>) {
        if !self.return_allowed() {
            let e = self.printable();
            out.push(Stmt::print(e));
            return;
        }
        self.label("return");
        let d = self.prof.expr_depth;
        let kind = self.fns.last().unwrap().kind;
        let value = if kind == FnKind::Init {
            None
        } else if self.rd.chance(1, 6) {
            None
        } else {
            Some(self.expr(Kind::Num, d))
        };
        let r = Stmt::new(StmtKind::Return(value));
        if self.rd.chance(2, 3) {
            let c = self.expr(Kind::Bool, d.min(2));
            out.push(Stmt::new(StmtKind::If(c, vec![r], None)));
        } else {
            out.push(r);
        }
    }

    pub fn fn_body(&mut self, kind: FnKind, params: &[String], in_class: Option<usize>, has_super: bool, max: usize) -> Vec<Stmt> {
        self.fns.push(FnCtx {
            kind,
            loop_depth: 0,
            tries: Vec::new(),
            lambda_count: 0,
            in_class,
            has_super,
        });
        self.scopes.push(Vec::new());
        for (i, p) in params.iter().enumerate() {
            let is_depth = i == 0 && self.rec_target.as_ref().map(|r| &r.1 == p).unwrap_or(false);
            self.declare(p, Kind::Num, !is_depth);
        }
        self.depth += 1;
        let n = 1 + self.rd.below(max);
        let mut b = self.stmts(n);
        if kind != FnKind::Init && self.rd.chance(3, 4) && self.return_allowed() {
            let d = self.prof.expr_depth;
            let e = self.expr(Kind::Num, d);
            b.push(Stmt::new(StmtKind::Return(Some(e))));
        }
        self.depth -= 1;
        self.scopes.pop();
        self.fns.pop();
        b
    }

    fn fn_stmt(&mut self, out: &mut Vec<Stmt>) {
        self.label("fn");
        let name = self.fresh("f");
        let arity = self.rd.below(3);
        let params: Vec<String> = (0..arity).map(|_| self.fresh("a")).collect();
        // the function is visible inside its own body; calling it there could recurse forever, so
        // it is declared for callers only after the body has been generated
        let (in_class, has_super) = {
            let f = self.fns.last().unwrap();
            (f.in_class, f.has_super)
        };
        // a self-recursive function carries a depth parameter (first parameter) and calls itself with
        // depth - 1 from a generated position (possibly inside a try block or a loop)
        let recursive = self.prof.recursion && arity >= 1 && self.rd.chance(1, 3);
        if recursive {
            self.label("recursive_fn");
            self.rec_target = Some((name.clone(), params[0].clone(), arity));
        }
        let mut body = self.fn_body(FnKind::Function, &params, in_class, has_super, 4);
        if recursive {
            let used = self.rec_target.is_none();
            self.rec_target = None;
            if !used {
                // the generator did not place the call: put it first
                let call = self.rec_call(&name, &params[0], arity);
                body.insert(0, call);
            }
        }
        out.push(Stmt::new(StmtKind::Fn(Rc::new(FnDef {
            name: RefCell::new(name.clone()),
            params,
            body: Body::Block(body),
            kind: FnKind::Function,
        }))));
        self.declare(&name, if recursive { Kind::Fn(100 + arity) } else { Kind::Fn(arity) }, false);
    }

    fn rec_call(&mut self, name: &str, depth_param: &str, arity: usize) -> Stmt {
        let mut args = vec![Expr::bin(BinOp::Sub, Expr::var(depth_param), Expr::Num(1.0))];
        for _ in 1..arity {
            args.push(Expr::Num(self.rd.below(5) as f64));
        }
        let call = Expr::callv(name, args);
        let inner = if self.rd.flag() { Stmt::print(call) } else { Stmt::expr(call) };
        Stmt::new(StmtKind::If(
            Expr::bin(BinOp::Gt, Expr::var(depth_param), Expr::Num(0.0)),
            vec![inner],
            None,
        ))
    }

    /// Closure idioms: several closures over one variable, capture through several levels, capture
    /// of loop-body variables, independent instances of the same closure factory.
    fn closure_template(&mut self, out: &mut Vec<Stmt>) {
        self.label("closure_template");
        let d = self.prof.expr_depth.min(2);
        let ret = |e: Expr| Stmt::new(StmtKind::Return(Some(e)));
        let fdef = |name: &str, params: Vec<String>, body: Vec<Stmt>| {
            Stmt::new(StmtKind::Fn(Rc::new(FnDef {
                name: RefCell::new(name.to_string()),
                params,
                body: Body::Block(body),
                kind: FnKind::Function,
            })))
        };
        match self.rd.below(13) {
            11 | 12 => {
                // a return waits while the finally block runs: the function's variables (a local and
                // a parameter, both captured before) are still the ones the closures share - written
                // directly in the finally block and through a closure called from it, read both ways
                // there and through the returned closure afterwards
                self.label("finally_writes_captured_with_return_pending");
                let f = self.fresh("fw");
                let (l1, l2) = (self.next_lambda_name(), self.next_lambda_name());
                let both = || Expr::VecLit(vec![Expr::var("x"), Expr::var("p")]);
                let get = Expr::Lambda(Rc::new(FnDef { name: RefCell::new(l1), params: vec![], body: Body::Expr(Box::new(both())), kind: FnKind::Lambda }));
                let bump = Expr::Lambda(Rc::new(FnDef {
                    name: RefCell::new(l2),
                    params: vec![],
                    body: Body::Block(vec![
                        Stmt::expr(Expr::assign_var("x", Expr::bin(BinOp::Add, Expr::var("x"), Expr::Num(100.0)))),
                        Stmt::expr(Expr::assign_var("p", Expr::bin(BinOp::Add, Expr::var("p"), Expr::Num(1000.0)))),
                    ]),
                    kind: FnKind::Lambda,
                }));
                let early = if self.rd.flag() {
                    ret(Expr::var("get"))
                } else {
                    Stmt::new(StmtKind::If(Expr::bin(BinOp::Gt, Expr::var("p"), Expr::Num(0.0)), vec![ret(Expr::var("get"))], None))
                };
                let fin = vec![
                    Stmt::expr(Expr::assign_var("x", Expr::bin(BinOp::Add, Expr::var("x"), Expr::Num(10.0)))),
                    Stmt::expr(Expr::assign_var("p", Expr::bin(BinOp::Add, Expr::var("p"), Expr::Num(20.0)))),
                    Stmt::expr(Expr::callv("bump", vec![])),
                    Stmt::print(both()),
                    Stmt::print(Expr::callv("get", vec![])),
                ];
                let body = vec![
                    Stmt::var("x", Some(Expr::Num(1.0))),
                    Stmt::var("get", Some(get)),
                    Stmt::var("bump", Some(bump)),
                    Stmt::new(StmtKind::Try(vec![early], None, Some(fin))),
                    ret(Expr::Nil),
                ];
                out.push(fdef(&f, vec!["p".into()], body));
                self.declare(&f, Kind::Fn(1), false);
                let k = self.fresh("kept");
                out.push(Stmt::var(&k, Some(Expr::callv(&f, vec![Expr::Num(5.0)]))));
                self.declare(&k, Kind::Any, false);
                out.push(Stmt::print(Expr::call(Expr::var(&k), vec![])));
            }
            9 | 10 => {
                // a function's own name inside its body is an ordinary variable: rebinding it changes
                // what the body sees, and the body may assign to it
                self.label("function_name_rebound");
                let local = !self.at_global() || self.rd.flag();
                let (fa, fb) = (self.fresh("fa"), self.fresh("fb"));
                let l1 = self.next_lambda_name();
                let mut stmts = vec![
                    fdef(&fa, vec!["n".into()], vec![ret(Expr::VecLit(vec![Expr::var("n"), Expr::var(&fa)]))]),
                    Stmt::var("kept", Some(Expr::var(&fa))),
                    Stmt::expr(Expr::assign_var(&fa, Expr::Lambda(Rc::new(FnDef {
                        name: RefCell::new(l1),
                        params: vec!["n".into()],
                        body: Body::Expr(Box::new(Expr::str("rebound"))),
                        kind: FnKind::Lambda,
                    })))),
                    // the old closure hands out whatever the name means now
                    Stmt::print(Expr::call(Expr::index(Expr::callv("kept", vec![Expr::Num(1.0)]), Expr::Num(1.0)), vec![Expr::Num(2.0)])),
                    Stmt::print(Expr::index(Expr::callv("kept", vec![Expr::Num(3.0)]), Expr::Num(0.0))),
                    fdef(&fb, vec![], vec![Stmt::expr(Expr::assign_var(&fb, Expr::Num(7.0))), ret(Expr::var(&fb))]),
                    Stmt::var("kept2", Some(Expr::var(&fb))),
                    Stmt::print(Expr::callv("kept2", vec![])),
                    Stmt::print(Expr::var(&fb)),
                ];
                if local {
                    // the same with local functions (the name is a captured variable)
                    let w = self.fresh("wrap");
                    stmts.push(ret(Expr::var("kept")));
                    out.push(fdef(&w, vec![], stmts));
                    self.declare(&w, Kind::Fn(0), false);
                    out.push(Stmt::print(Expr::index(Expr::call(Expr::callv(&w, vec![]), vec![Expr::Num(4.0)]), Expr::Num(0.0))));
                } else {
                    // at module level the names are globals; distinct names per instance
                    let (k1, k2) = (self.fresh("g"), self.fresh("g"));
                    for s in stmts.iter_mut() {
                        rename_var_decl(s, "kept", &k1);
                        rename_var_decl(s, "kept2", &k2);
                    }
                    let text_k1 = k1.clone();
                    let text_k2 = k2.clone();
                    // rebuild the statements that mention the kept names
                    stmts[3] = Stmt::print(Expr::call(Expr::index(Expr::callv(&text_k1, vec![Expr::Num(1.0)]), Expr::Num(1.0)), vec![Expr::Num(2.0)]));
                    stmts[4] = Stmt::print(Expr::index(Expr::callv(&text_k1, vec![Expr::Num(3.0)]), Expr::Num(0.0)));
                    stmts[7] = Stmt::print(Expr::callv(&text_k2, vec![]));
                    out.extend(stmts);
                }
            }
            7 | 8 => {
                // captured variables in neighbouring slots of nested scopes: the scopes end
                // innermost first, each enclosing variable is then written by its declaring scope
                // and through a closure, and read back both ways
                self.label("closure_adjacent_scopes");
                let f = self.fresh("adj");
                let n = 2 + self.rd.below(3);
                let as_loop = self.rd.chance(1, 3);
                let vars: Vec<String> = (0..n).map(|i| format!("w{}", i)).collect();
                let l1 = self.next_lambda_name();
                let mut inner: Vec<Stmt> = Vec::new();
                // innermost: the closures
                let reader = Expr::Lambda(Rc::new(FnDef {
                    name: RefCell::new(l1),
                    params: vec![],
                    body: Body::Expr(Box::new(Expr::VecLit(vars.iter().map(|v| Expr::var(v)).collect()))),
                    kind: FnKind::Lambda,
                }));
                inner.push(Stmt::expr(Expr::invoke(Expr::var("fs"), "push", vec![reader])));
                for v in &vars {
                    let ln = self.next_lambda_name();
                    inner.push(Stmt::expr(Expr::invoke(Expr::var("ss"), "push", vec![Expr::Lambda(Rc::new(FnDef {
                        name: RefCell::new(ln),
                        params: vec!["q".into()],
                        body: Body::Expr(Box::new(Expr::assign_var(v, Expr::bin(BinOp::Add, Expr::var(v), Expr::var("q"))))),
                        kind: FnKind::Lambda,
                    }))])));
                }
                let after = |i: usize| -> Vec<Stmt> {
                    // runs in the scope that declares vars[i], after the scope of vars[i + 1] ended
                    let v = &vars[i];
                    vec![
                        Stmt::expr(Expr::assign_var(v, Expr::bin(BinOp::Add, Expr::var(v), Expr::Num(100.0)))),
                        Stmt::print(Expr::call(Expr::index(Expr::var("fs"), Expr::Num(0.0)), vec![])),
                        Stmt::expr(Expr::call(Expr::index(Expr::var("ss"), Expr::Num(i as f64)), vec![Expr::Num(1.0)])),
                        Stmt::print(Expr::var(v)),
                        Stmt::print(Expr::call(Expr::index(Expr::var("fs"), Expr::Num(0.0)), vec![])),
                    ]
                };
                // build from the inside out
                let mut body_i = {
                    let mut b = vec![Stmt::var(&vars[n - 1], Some(Expr::Num((n - 1) as f64)))];
                    b.extend(inner);
                    b
                };
                for i in (0..n - 1).rev() {
                    let nested = if as_loop && i == n - 2 {
                        // the innermost scope is a loop body run once
                        vec![
                            Stmt::var("once", Some(Expr::True)),
                            Stmt::new(StmtKind::While(Expr::var("once"), {
                                let mut b = vec![Stmt::expr(Expr::assign_var("once", Expr::False))];
                                b.extend(body_i);
                                b
                            })),
                        ]
                    } else {
                        vec![Stmt::new(StmtKind::Block(body_i))]
                    };
                    let init = if i == 0 { Expr::var("p") } else { Expr::Num(i as f64) };
                    let mut b = vec![Stmt::var(&vars[i], Some(init))];
                    b.extend(nested);
                    b.extend(after(i));
                    body_i = b;
                }
                let mut body = vec![Stmt::var("fs", Some(Expr::VecLit(vec![]))), Stmt::var("ss", Some(Expr::VecLit(vec![])))];
                body.extend(body_i);
                body.push(ret(Expr::index(Expr::var("fs"), Expr::Num(0.0))));
                out.push(fdef(&f, vec!["p".into()], body));
                self.declare(&f, Kind::Fn(1), false);
                let x = self.expr(Kind::Num, d);
                out.push(Stmt::print(Expr::call(Expr::callv(&f, vec![x]), vec![])));
            }
            5 | 6 => {
                // a closure over a variable declared inside a try block (or in a callee of it) that
                // escapes through an outer variable; the block is left by an exception, then the
                // closure is used from the handler, after the statement, and after the function
                self.label("closure_over_try_local");
                let f = self.fresh("h");
                let keep = "keep";
                let thrower: Stmt = match self.rd.below(4) {
                    0 => Stmt::new(StmtKind::Throw(Expr::str("thrown"))),
                    1 => Stmt::expr(Expr::bin(BinOp::Add, Expr::Nil, Expr::Num(1.0))),
                    2 => Stmt::expr(Expr::invoke(Expr::VecLit(vec![]), "pop", vec![])),
                    _ => Stmt::new(StmtKind::If(Expr::var("p"), vec![Stmt::new(StmtKind::Throw(Expr::var("p")))], None)),
                };
                // sometimes the block is left by a return instead (through the finally block): the
                // captured variables must survive the finally block's own use of the stack
                let returns = self.rd.chance(1, 3);
                let thrower = if returns {
                    self.label("closure_over_try_local_return");
                    Stmt::new(StmtKind::Return(Some(Expr::var(keep))))
                } else {
                    thrower
                };
                let l1 = self.next_lambda_name();
                let l2 = self.next_lambda_name();
                let mut try_body = vec![
                    Stmt::var("a", Some(Expr::str("A"))),
                    Stmt::var("b", Some(Expr::var("p"))),
                ];
                if self.rd.flag() {
                    // an inner block: two scopes are discarded at once
                    try_body.push(Stmt::new(StmtKind::Block(vec![
                        Stmt::var("c", Some(Expr::str("C"))),
                        Stmt::expr(Expr::assign_var(keep, Expr::Lambda(Rc::new(FnDef {
                            name: RefCell::new(l1),
                            params: vec![],
                            body: Body::Expr(Box::new(Expr::VecLit(vec![Expr::var("a"), Expr::var("b"), Expr::var("c")]))),
                            kind: FnKind::Lambda,
                        })))),
                        thrower,
                    ])));
                } else {
                    try_body.push(Stmt::expr(Expr::assign_var(keep, Expr::Lambda(Rc::new(FnDef {
                        name: RefCell::new(l1),
                        params: vec![],
                        body: Body::Expr(Box::new(Expr::VecLit(vec![Expr::var("a"), Expr::var("b")]))),
                        kind: FnKind::Lambda,
                    })))));
                    try_body.push(thrower);
                }
                try_body.push(Stmt::print(Expr::str("not thrown")));
                let handler = vec![
                    Stmt::var("d", Some(Expr::str("D"))),
                    Stmt::var("e2", Some(Expr::str("E"))),
                    Stmt::print(Expr::callv(keep, vec![])),
                ];
                let with_finally = returns || self.rd.chance(1, 3);
                let fin_body = if returns {
                    // temporaries and calls inside the finally block reuse the slots above the handler
                    vec![
                        // (entered through the return, not by an exception: declarations are fine here)
                        Stmt::var("fx", Some(Expr::str("FX"))),
                        Stmt::var("fy", Some(Expr::VecLit(vec![Expr::str("FY")]))),
                        Stmt::print(Expr::VecLit(vec![Expr::var("fx"), Expr::var("fy")])),
                        Stmt::print(Expr::VecLit(vec![Expr::str("fin"), Expr::str("F1"), Expr::str("F2"), Expr::str("F3")])),
                        Stmt::print(Expr::callv(keep, vec![])),
                        Stmt::print(Expr::invoke(Expr::VecLit(vec![Expr::Num(1.0), Expr::Num(2.0), Expr::Num(3.0)]), "len", vec![])),
                    ]
                } else {
                    vec![Stmt::print(Expr::callv(keep, vec![]))]
                };
                let body = vec![
                    Stmt::var(keep, Some(Expr::Lambda(Rc::new(FnDef {
                        name: RefCell::new(l2),
                        params: vec![],
                        body: Body::Expr(Box::new(Expr::str("no closure"))),
                        kind: FnKind::Lambda,
                    })))),
                    Stmt::new(StmtKind::Try(
                        try_body,
                        Some(("ex".into(), handler)),
                        if with_finally { Some(fin_body) } else { None },
                    )),
                    Stmt::var("z", Some(Expr::str("Z"))),
                    Stmt::print(Expr::callv(keep, vec![])),
                    ret(Expr::var(keep)),
                ];
                out.push(fdef(&f, vec!["p".into()], body));
                self.declare(&f, Kind::Fn(1), false);
                let arg = if self.rd.flag() { Expr::str("P") } else { Expr::False };
                out.push(Stmt::print(Expr::call(Expr::callv(&f, vec![arg]), vec![])));
            }
            0 => {
                // two closures over one variable of the current scope
                let v = if self.at_global() { self.fresh("g") } else { self.fresh("v") };
                let init = self.expr(Kind::Num, d);
                out.push(Stmt::var(&v, Some(init)));
                self.declare(&v, Kind::Num, true);
                let inc = self.fresh("inc");
                let get = self.fresh("get");
                let dd = self.fresh("q");
                let body = if self.rd.flag() {
                    Body::Expr(Box::new(Expr::assign_var(&v, Expr::bin(BinOp::Add, Expr::var(&v), Expr::var(&dd)))))
                } else {
                    Body::Block(vec![Stmt::expr(Expr::compound(Target::Var(v.clone()), BinOp::Add, Expr::var(&dd)))])
                };
                let n1 = self.next_lambda_name();
                out.push(Stmt::var(&inc, Some(Expr::Lambda(Rc::new(FnDef {
                    name: RefCell::new(n1),
                    params: vec![dd],
                    body,
                    kind: FnKind::Lambda,
                })))));
                let n2 = self.next_lambda_name();
                out.push(Stmt::var(&get, Some(Expr::Lambda(Rc::new(FnDef {
                    name: RefCell::new(n2),
                    params: vec![],
                    body: Body::Expr(Box::new(Expr::var(&v))),
                    kind: FnKind::Lambda,
                })))));
                self.declare(&inc, Kind::Fn(1), false);
                self.declare(&get, Kind::Fn(0), false);
                let a = self.expr(Kind::Num, d);
                out.push(Stmt::expr(Expr::callv(&inc, vec![a])));
                out.push(Stmt::print(Expr::callv(&get, vec![])));
                out.push(Stmt::print(Expr::var(&v)));
            }
            1 => {
                // factory returning (incr, read) over a fresh variable: instances are independent
                let mk = self.fresh("mk");
                let a = self.fresh("a");
                let n = self.fresh("n");
                out.push(fdef(
                    &mk,
                    vec![a.clone()],
                    vec![
                        Stmt::var(&n, Some(Expr::var(&a))),
                        fdef("incr", vec![], vec![
                            Stmt::expr(Expr::assign_var(&n, Expr::bin(BinOp::Add, Expr::var(&n), Expr::Num(1.0)))),
                            ret(Expr::var(&n)),
                        ]),
                        fdef("read", vec![], vec![ret(Expr::bin(BinOp::Add, Expr::var(&n), Expr::var(&a)))]),
                        ret(Expr::TupleLit(vec![Expr::var("incr"), Expr::var("read")])),
                    ],
                ));
                self.declare(&mk, Kind::Fn(1), false);
                let p = self.fresh("p");
                let q = self.fresh("p");
                let x = self.expr(Kind::Num, d);
                out.push(Stmt::var(&p, Some(Expr::callv(&mk, vec![x]))));
                out.push(Stmt::var(&q, Some(Expr::callv(&mk, vec![Expr::Num(7.0)]))));
                self.declare(&p, Kind::Tuple, false);
                self.declare(&q, Kind::Tuple, false);
                let call = |t: &str, i: f64| Expr::call(Expr::index(Expr::var(t), Expr::Num(i)), vec![]);
                out.push(Stmt::print(call(&p, 0.0)));
                out.push(Stmt::print(call(&q, 0.0)));
                out.push(Stmt::print(call(&p, 0.0)));
                out.push(Stmt::print(call(&p, 1.0)));
                out.push(Stmt::print(call(&q, 1.0)));
            }
            2 => {
                // closures capturing a loop-body variable (fresh per iteration) and the loop variable
                let fs = if self.at_global() { self.fresh("g") } else { self.fresh("v") };
                let x = self.fresh("x");
                let y = self.fresh("y");
                out.push(Stmt::var(&fs, Some(Expr::VecLit(vec![]))));
                self.declare(&fs, Kind::Vec, false);
                let l1 = self.next_lambda_name();
                let l2 = self.next_lambda_name();
                let mut body = vec![
                    Stmt::var(&y, Some(Expr::bin(BinOp::Mul, Expr::var(&x), Expr::Num(2.0)))),
                    Stmt::expr(Expr::invoke(Expr::var(&fs), "push", vec![Expr::Lambda(Rc::new(FnDef {
                        name: RefCell::new(l1),
                        params: vec![],
                        body: Body::Expr(Box::new(Expr::var(&y))),
                        kind: FnKind::Lambda,
                    }))])),
                ];
                if self.rd.flag() {
                    body.push(Stmt::expr(Expr::invoke(Expr::var(&fs), "push", vec![Expr::Lambda(Rc::new(FnDef {
                        name: RefCell::new(l2),
                        params: vec![],
                        body: Body::Expr(Box::new(Expr::assign_var(&y, Expr::bin(BinOp::Add, Expr::var(&y), Expr::Num(1.0))))),
                        kind: FnKind::Lambda,
                    }))])));
                }
                match self.rd.below(3) {
                    0 => body.push(Stmt::new(StmtKind::If(
                        Expr::bin(BinOp::Eq, Expr::var(&x), Expr::Num(1.0)),
                        vec![Stmt::new(StmtKind::Break)],
                        None,
                    ))),
                    1 => body.insert(1, Stmt::new(StmtKind::If(
                        Expr::bin(BinOp::Eq, Expr::var(&x), Expr::Num(1.0)),
                        vec![Stmt::new(StmtKind::Continue)],
                        None,
                    ))),
                    _ => {}
                }
                out.push(Stmt::new(StmtKind::For(x, Expr::range(Expr::Num(0.0), Expr::Num(3.0)), body)));
                if !self.ranges.contains(&(0, 3)) {
                    self.ranges.push((0, 3));
                }
                let z = self.fresh("z");
                out.push(Stmt::new(StmtKind::For(
                    z.clone(),
                    Expr::var(&fs),
                    vec![Stmt::print(Expr::callv(&z, vec![]))],
                )));
                out.push(Stmt::new(StmtKind::For(
                    z.clone(),
                    Expr::var(&fs),
                    vec![Stmt::print(Expr::callv(&z, vec![]))],
                )));
            }
            3 => {
                // capture through two function levels, capture order different from declaration order
                let o = self.fresh("outer");
                let (a, b, c) = (self.fresh("a"), self.fresh("b"), self.fresh("c"));
                out.push(fdef(
                    &o,
                    vec![c.clone()],
                    vec![
                        Stmt::var(&a, Some(Expr::Num(1.0))),
                        Stmt::var(&b, Some(Expr::Num(2.0))),
                        fdef("mid", vec![], vec![
                            fdef("inner", vec![], vec![
                                Stmt::expr(Expr::assign_var(&b, Expr::bin(BinOp::Add, Expr::var(&b), Expr::var(&c)))),
                                Stmt::expr(Expr::assign_var(&a, Expr::bin(BinOp::Add, Expr::var(&a), Expr::var(&b)))),
                                ret(Expr::VecLit(vec![Expr::var(&a), Expr::var(&b), Expr::var(&c)])),
                            ]),
                            ret(Expr::var("inner")),
                        ]),
                        Stmt::var("h", Some(Expr::callv("mid", vec![]))),
                        Stmt::print(Expr::callv("h", vec![])),
                        Stmt::expr(Expr::assign_var(&a, Expr::Num(100.0))),
                        ret(Expr::var("h")),
                    ],
                ));
                self.declare(&o, Kind::Fn(1), false);
                let h = self.fresh("h");
                let x = self.expr(Kind::Num, d);
                out.push(Stmt::var(&h, Some(Expr::callv(&o, vec![x]))));
                self.declare(&h, Kind::Fn(0), false);
                out.push(Stmt::print(Expr::callv(&h, vec![])));
                out.push(Stmt::print(Expr::callv(&h, vec![])));
            }
            _ => {
                // a closure over a block-local variable escapes the block through an outer variable
                let keep = if self.at_global() { self.fresh("g") } else { self.fresh("v") };
                let t = self.fresh("t");
                let u = self.fresh("u");
                out.push(Stmt::var(&keep, None));
                self.declare(&keep, Kind::Nil, false);
                let l1 = self.next_lambda_name();
                let init = self.expr(Kind::Num, d);
                out.push(Stmt::new(StmtKind::Block(vec![
                    Stmt::var(&u, Some(Expr::Num(0.0))),
                    Stmt::var(&t, Some(init)),
                    Stmt::expr(Expr::assign_var(&keep, Expr::Lambda(Rc::new(FnDef {
                        name: RefCell::new(l1),
                        params: vec![],
                        body: Body::Block(vec![
                            Stmt::expr(Expr::compound(Target::Var(t.clone()), BinOp::Add, Expr::Num(1.0))),
                            Stmt::new(StmtKind::Return(Some(Expr::bin(BinOp::Add, Expr::var(&t), Expr::var(&u))))),
                        ]),
                        kind: FnKind::Lambda,
                    })))),
                    Stmt::print(Expr::callv(&keep, vec![])),
                ])));
                // slot reuse after the closed variable
                let w = if self.at_global() { self.fresh("g") } else { self.fresh("v") };
                out.push(Stmt::new(StmtKind::Block(vec![
                    Stmt::var(&w, Some(Expr::str("reused"))),
                    Stmt::print(Expr::var(&w)),
                ])));
                out.push(Stmt::print(Expr::callv(&keep, vec![])));
            }
        }
    }

    // accessors for gen2
    pub fn return_allowed_pub(&self) -> bool {
        self.fns.len() > 1 && self.return_allowed()
    }
    pub fn prof(&self) -> &Profile {
        &self.prof
    }
    pub fn push_try(&mut self, pos: TryPosPub) {
        let ld = self.fns.last().unwrap().loop_depth;
        let p = match pos {
            TryPosPub::Body(c, f) => TryPos::Body(c, f),
            TryPosPub::Catch(f) => TryPos::Catch(f),
            TryPosPub::Finally => TryPos::Finally,
        };
        self.fcx().tries.push((p, ld));
    }
    pub fn pop_try(&mut self) {
        self.fcx().tries.pop();
    }
    pub fn push_scope(&mut self) {
        self.scopes.push(Vec::new());
    }
    pub fn pop_scope(&mut self) {
        self.scopes.pop();
    }
    pub fn enter(&mut self) {
        self.depth += 1;
    }
    pub fn leave(&mut self) {
        self.depth -= 1;
    }
    pub fn declare_pub(&mut self, name: &str, kind: Kind, assignable: bool) {
        self.declare(name, kind, assignable);
    }
    pub fn fresh_pub(&mut self, p: &str) -> String {
        self.fresh(p)
    }
    pub fn label_pub(&mut self, l: &'static str) {
        self.label(l);
    }
    pub fn classes_len(&self) -> usize {
        self.classes.len()
    }
    pub fn class_info(&self, i: usize) -> (String, Option<(String, usize)>, Vec<(String, usize, bool)>, Vec<String>, Option<usize>) {
        let c = &self.classes[i];
        (
            c.name.clone(),
            c.ctor.clone(),
            c.methods.iter().map(|m| (m.name.clone(), m.arity, m.is_static)).collect(),
            c.fields.clone(),
            c.superclass,
        )
    }
    pub fn add_class(&mut self, name: String, ctor: Option<(String, usize)>, methods: Vec<(String, usize, bool)>, fields: Vec<String>, superclass: Option<usize>) -> usize {
        self.classes.push(ClassInfo {
            name,
            ctor,
            methods: methods
                .into_iter()
                .map(|(name, arity, is_static)| MethodInfo { name, arity, is_static })
                .collect(),
            fields,
            superclass,
        });
        self.classes.len() - 1
    }
    pub fn vars_of_pub(&self, k: Kind) -> Vec<(String, Kind)> {
        self.vars_of(k).into_iter().map(|v| (v.name, v.kind)).collect()
    }
    pub fn at_global_pub(&self) -> bool {
        self.at_global()
    }
    pub fn cur_fn_kind(&self) -> FnKind {
        self.fns.last().unwrap().kind
    }
    pub fn cur_has_super(&self) -> bool {
        self.fns.last().unwrap().has_super
    }
    pub fn fn_depth(&self) -> usize {
        self.fns.len()
    }
    pub fn printable_pub(&mut self) -> Expr {
        self.printable()
    }
    pub fn in_finally_pub(&self) -> bool {
        self.in_finally()
    }
    pub fn guard_begin_pub(&mut self) -> bool {
        self.guard_begin()
    }
    pub fn guard_end_pub(&mut self, gd: bool, s: Stmt) -> Stmt {
        self.guard_end(gd, s)
    }
    pub fn field_names() -> &'static [&'static str] {
        FIELDS
    }
    pub fn method_names() -> &'static [&'static str] {
        METHODS
    }
    pub fn lambda_pub(&mut self, arity: usize) -> Expr {
        self.lambda(arity)
    }
    pub fn update_class(&mut self, ci: usize, ctor: Option<(String, usize)>, methods: Vec<(String, usize, bool)>, fields: Vec<String>) {
        let c = &mut self.classes[ci];
        c.ctor = ctor;
        c.methods = methods
            .into_iter()
            .map(|(name, arity, is_static)| MethodInfo { name, arity, is_static })
            .collect();
        c.fields = fields;
    }
    pub fn throw_allowed(&mut self) -> bool {
        let e5 = self.prof.triggers.e5;
        let tries = self.fns.last().unwrap().tries.clone();
        for (pos, _) in tries.iter().rev() {
            match pos {
                TryPos::Catch(true) if !e5 => return false,
                TryPos::Finally => return false,
                _ => {}
            }
        }
        if tries.is_empty() {
            return self.rd.chance(1, 3);
        }
        true
    }
    pub fn fiber_enter(&mut self, params: &[String]) {
        let (in_class, has_super) = {
            let f = self.fns.last().unwrap();
            (f.in_class, f.has_super)
        };
        self.fns.push(FnCtx {
            kind: FnKind::Lambda,
            loop_depth: 0,
            tries: Vec::new(),
            lambda_count: 0,
            in_class,
            has_super,
        });
        self.scopes.push(Vec::new());
        for p in params {
            self.declare(p, Kind::Any, true);
        }
        self.depth += 1;
    }
    pub fn fiber_leave(&mut self) {
        self.depth -= 1;
        self.scopes.pop();
        self.fns.pop();
    }
    pub fn next_lambda_name(&mut self) -> String {
        let c = self.fcx().lambda_count;
        self.fcx().lambda_count += 1;
        format!("lambda-{}", c)
    }
    /// after an interpreter reset: no global survives
    pub fn forget_globals(&mut self) {
        self.scopes[0].clear();
        self.classes.clear();
        self.ranges.clear();
    }
    pub fn note_range(&mut self, a: i64, b: i64) {
        if !self.ranges.contains(&(a, b)) {
            self.ranges.push((a, b));
        }
    }
    pub fn literal_range_pub(&mut self) -> Expr {
        self.literal_range()
    }
    pub fn expr_pub(&mut self, k: Kind, d: usize) -> Expr {
        self.expr(k, d)
    }
    pub fn loop_enter(&mut self) {
        self.fcx().loop_depth += 1;
    }
    pub fn loop_leave(&mut self) {
        self.fcx().loop_depth -= 1;
    }
}

#[derive(Clone, Copy)]
pub enum TryPosPub {
    Body(bool, bool),
    Catch(bool),
    Finally,
}

/// Decodes a whole program for the given profile.
pub fn program(data: &[u8], prof: Profile) -> (Program, Vec<&'static str>) {
    let mut g = Gen::new(data, prof);
    let n = 3 + g.rd.below(12);
    let mut main = g.stmts(n);
    if g.trace_id > 0 {
        main.insert(
            0,
            Stmt::new(StmtKind::Fn(Rc::new(FnDef {
                name: RefCell::new("t".to_string()),
                params: vec!["k".to_string(), "v".to_string()],
                body: Body::Block(vec![
                    Stmt::print(Expr::var("k")),
                    Stmt::new(StmtKind::Return(Some(Expr::var("v")))),
                ]),
                kind: FnKind::Function,
            }))),
        );
    }
    // user-defined error classes used by throw statements: declared first, in creation order
    for (k, (name, sup)) in g.user_errors.clone().into_iter().enumerate() {
        main.insert(
            k,
            Stmt::new(StmtKind::Class(Rc::new(ClassDef {
                name,
                superclass: Some(sup),
                default_ctor: None,
                methods: vec![Rc::new(FnDef {
                    name: RefCell::new("new".to_string()),
                    params: vec!["context".to_string()],
                    body: Body::Block(vec![Stmt::expr(Expr::assign(
                        Target::Prop(Expr::SelfE, "context".to_string()),
                        Expr::var("context"),
                    ))]),
                    kind: FnKind::Init,
                })],
                attr_line: Cell::new(0),
            }))),
        );
    }
    if g.many_ranges {
        // a range written between two literals at the very start, eleven more in a function that
        // follows it in the same source text, and the first one used at the very end: whatever the
        // compiler or the interpreter keeps per literal range must survive everything in between
        // (all of it is compiled before the first statement runs)
        g.labels.push("literal_range_held_across_program");
        let a = 100.0 + (data.len() % 7) as f64;
        let first = Expr::range(Expr::Num(a), Expr::Num(a + 3.0));
        let others: Vec<Expr> = (0..11).map(|k| Expr::range(Expr::Num(200.0 + k as f64), Expr::Num(210.0 + 2.0 * k as f64))).collect();
        main.insert(0, Stmt::var("mr_first", Some(first)));
        main.insert(
            1,
            Stmt::new(StmtKind::Fn(Rc::new(FnDef {
                name: RefCell::new("mr_others".to_string()),
                params: vec![],
                body: Body::Block(vec![Stmt::new(StmtKind::Return(Some(Expr::VecLit(others))))]),
                kind: FnKind::Function,
            }))),
        );
        if data.len() % 2 == 0 {
            main.insert(2, Stmt::print(Expr::invoke(Expr::callv("mr_others", vec![]), "len", vec![])));
        }
        main.push(Stmt::print(Expr::var("mr_first")));
        main.push(Stmt::print(Expr::invoke(Expr::invoke(Expr::var("mr_first"), "iter", vec![]), "collect", vec![])));
    }
    let labels = std::mem::take(&mut g.labels);
    (
        Program {
            main,
            modules: Vec::new(),
        },
        labels,
    )
}

/// rename the variable a `var` statement declares (helper for templates built with fixed names)
fn rename_var_decl(s: &mut Stmt, from: &str, to: &str) {
    if let StmtKind::Var(name, _) = &mut s.kind {
        if name == from {
            *name = to.to_string();
        }
    }
}

#[allow(dead_code)]
fn unused(_: Cell<u8>) {}
