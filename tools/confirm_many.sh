#!/bin/bash
# confirm_many.sh <confirm-worktree> <log> <seed-name>...   confirm seeded changes one after another in one scratch worktree
WT="$1"; LOG="$2"; shift 2
for s in "$@"; do
  r=$(CONFIRM_WT="$WT" /verif/tools/confirm_seed.sh /verif/seeded/$s 2>&1 | grep '^RESULT' | head -1)
  echo "$s ${r:-RESULT none}" >> "$LOG"
done
