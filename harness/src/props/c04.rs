//! C04 — accepted programs compile to code the interpreter can run blindly; programs over an
//! encoding limit are rejected, not truncated.

use std::panic;

use yarel::error::ErrorKind;

use crate::engine::*;
use crate::gen;
use crate::profiles;
use crate::props::c03::{scripts, sig_of_panic};
use crate::rd::{fnv64, Rd};
use crate::verifier::{self, Report};
use crate::yrun::{self, End, RunCfg, Session};

pub struct C04;

#[derive(Debug, Clone)]
pub enum Expect {
    /// must be rejected with a compile error
    Reject,
    /// must compile, verify, and print exactly these lines
    Prints(Vec<String>),
    /// where exactly the limit falls is not known by construction: either rejected with a compile
    /// error, or accepted, verified and printing exactly these lines
    RejectOrPrints(Vec<String>),
}

pub struct Limit {
    pub name: String,
    pub source: String,
    pub expect: Expect,
}

fn filler(bytes: usize) -> String {
    // `nil;` compiles to 2 bytes (Nil, Pop), `!nil;` to 3 (Nil, LogicalNot, Pop)
    let mut s = String::with_capacity(bytes * 3);
    let mut left = bytes;
    if left % 2 == 1 {
        s.push_str("!nil;");
        left -= 3;
    }
    for _ in 0..left / 2 {
        s.push_str("nil;");
    }
    s
}

fn list(n: usize, item: &str) -> String {
    let mut s = String::with_capacity(n * (item.len() + 1));
    for i in 0..n {
        if i > 0 {
            s.push(',');
        }
        s.push_str(item);
    }
    s
}

fn names(prefix: &str, n: usize) -> Vec<String> {
    (0..n).map(|i| format!("{}{}", prefix, i)).collect()
}

/// The limit family: one parameterised program per encoding limit at limit-1, limit, limit+1.
pub fn limits() -> Vec<Limit> {
    let mut v = Vec::new();
    let p = |l: &[&str]| Expect::Prints(l.iter().map(|s| s.to_string()).collect());
    // print("body"); is 9 bytes: GetGlobal(3) Constant(3) Call(2) Pop(1)
    // if false { B } : then-jump distance = Pop(1) + B + Jump(3)
    for d in [65534usize, 65535, 65536, 65537] {
        let body = d - 4;
        v.push(Limit {
            name: format!("if_then_jump_{}", d),
            source: format!("if false {{ print(\"body\"); {} }}\nprint(\"after\");", filler(body - 9)),
            expect: if d <= 65535 { p(&["after"]) } else { Expect::Reject },
        });
        // if true {} else { B } : else-jump distance = Pop(1) + B
        let body = d - 1;
        v.push(Limit {
            name: format!("if_else_jump_{}", d),
            source: format!("if true {{ print(\"then\"); }} else {{ print(\"body\"); {} }}\nprint(\"after\");", filler(body - 9)),
            expect: if d <= 65535 { p(&["then", "after"]) } else { Expect::Reject },
        });
        // while exit jump = Pop(1) + B + Loop(3); loop offset = cond(1) + 3 + 1 + B + 3
        let body = d - 4;
        v.push(Limit {
            name: format!("while_exit_jump_{}", d),
            source: format!("while false {{ print(\"body\"); {} }}\nprint(\"after\");", filler(body - 9)),
            expect: if d + 4 <= 65535 { p(&["after"]) } else { Expect::Reject },
        });
        // backward distance: var i = 0 (global). cond `i < 2`: GetGlobal(3) Constant(3) Less(1) = 7;
        // offset = 7 + JumpIfFalse(3) + Pop(1) + B + Loop(3)
        let body = d - 14;
        // body starts with i = i + 1; : GetGlobal 3, Constant 3, Add 1, SetGlobal 3, Pop 1 = 11
        v.push(Limit {
            name: format!("loop_back_jump_{}", d),
            source: format!("var i = 0;\nwhile i < 2 {{ i = i + 1; {} }}\nprint(i);", filler(body - 11)),
            expect: if d <= 65535 { p(&["2"]) } else { Expect::Reject },
        });
        // false && X : distance = Pop(1) + X, X = 1+1+...: 3 + 4k bytes
        if (d - 4) % 4 == 0 {
            let k = (d - 4) / 4;
            let mut x = String::from("1");
            for _ in 0..k {
                x.push_str("+1");
            }
            v.push(Limit {
                name: format!("and_jump_{}", d),
                source: format!("print(false && {});", x),
                expect: if d <= 65535 { p(&["false"]) } else { Expect::Reject },
            });
            v.push(Limit {
                name: format!("or_jump_{}", d),
                source: format!("print(true || {});", x),
                expect: if d <= 65535 { p(&["true"]) } else { Expect::Reject },
            });
        }
        // try { B } catch e {} : try size = B + PopExcHandler(1) + Jump(3)
        let body = d - 4;
        v.push(Limit {
            name: format!("try_size_{}", d),
            source: format!("try {{ {} throw \"x\"; }} catch e {{ print(e); }}\nprint(\"after\");", filler(body - 4)),
            expect: if d <= 65535 { p(&["x", "after"]) } else { Expect::Reject },
        });
    }
    // break out of a large body: comfortably inside and clearly outside the limit
    for (rest, ok) in [(60000usize, true), (70000, false)] {
        v.push(Limit {
            name: format!("break_jump_{}", rest),
            source: format!("var i = 0;\nwhile i < 3 {{ i = i + 1; if i == 2 {{ break; }} {} }}\nprint(i);", filler(rest)),
            expect: if ok { p(&["2"]) } else { Expect::Reject },
        });
    }
    // operand counts
    for n in [254usize, 255, 256, 257] {
        let ok = n <= 255;
        v.push(Limit {
            name: format!("call_args_{}", n),
            source: format!("fn f({}) {{ return a{}; }}\nprint(f({}));", names("a", n.min(255)).join(","), n.min(255) - 1, list(n, "7")),
            expect: if ok { p(&["7"]) } else { Expect::Reject },
        });
        v.push(Limit {
            name: format!("params_{}", n),
            source: format!("fn f({}) {{ return a{}; }}\nprint(\"ok\");", names("a", n).join(","), n - 1),
            expect: if ok { p(&["ok"]) } else { Expect::Reject },
        });
        v.push(Limit {
            name: format!("lambda_params_{}", n),
            source: format!("var f = |{}| a{};\nprint(\"ok\");", names("a", n).join(","), n - 1),
            expect: if ok { p(&["ok"]) } else { Expect::Reject },
        });
        v.push(Limit {
            name: format!("vec_elems_{}", n),
            source: format!("var v = [{}];\nprint(v.len());", list(n, "1")),
            expect: if ok { p(&[&n.to_string()]) } else { Expect::Reject },
        });
        v.push(Limit {
            name: format!("tuple_elems_{}", n),
            source: format!("var v = ({});\nprint(v.len());", list(n, "1")),
            expect: if ok { p(&[&n.to_string()]) } else { Expect::Reject },
        });
        v.push(Limit {
            name: format!("map_entries_{}", n),
            source: format!(
                "var m = {{{}}};\nprint(m.len());",
                (0..n).map(|i| format!("{}:1", i)).collect::<Vec<_>>().join(",")
            ),
            expect: if ok { p(&[&n.to_string()]) } else { Expect::Reject },
        });
        v.push(Limit {
            name: format!("method_args_{}", n),
            source: format!("print([].len({}));", list(n, "1")),
            expect: if ok { Expect::Prints(vec![]) } else { Expect::Reject },
        });
        // interpolation parts: "${1}${1}..." (n expressions)
        let mut s = String::from("\"");
        for _ in 0..n {
            s.push_str("${1}");
        }
        s.push('"');
        v.push(Limit {
            name: format!("interpolation_parts_{}", n),
            source: format!("print({}.len());", s),
            expect: if ok { p(&[&n.to_string()]) } else { Expect::Reject },
        });
        // the same count reached through literal parts: literal first, expression first, adjacent
        // expressions then alternation, and a trailing literal as the last part
        let shapes: [(&str, Box<dyn Fn(usize) -> String>); 4] = [
            ("lit_first", Box::new(|n| (0..n).map(|k| if k % 2 == 0 { "-" } else { "${1}" }).collect())),
            ("expr_first", Box::new(|n| (0..n).map(|k| if k % 2 == 0 { "${1}" } else { "-" }).collect())),
            ("adjacent_then_alternating", Box::new(|n| {
                let mut t = String::from("${1}${1}${1}");
                t.extend((3..n).map(|k| if k % 2 == 1 { "-" } else { "${1}" }));
                t
            })),
            ("trailing_literal", Box::new(|n| {
                let mut t: String = (0..n - 1).map(|_| "${1}").collect();
                t.push('-');
                t
            })),
        ];
        for (sname, f) in shapes.iter() {
            v.push(Limit {
                name: format!("interpolation_parts_{}_{}", sname, n),
                source: format!("fn f() {{ var x = 7; var s = \"{}\"; var after = \"after\"; print(s.len()); print(after); }}\nf();", f(n)),
                expect: if ok { p(&[&n.to_string(), "after"]) } else { Expect::Reject },
            });
        }
        // locals: slot 0 plus n variables
        v.push(Limit {
            name: format!("locals_{}", n),
            source: format!(
                "fn f() {{ {} return v{}; }}\nprint(f());",
                (0..n).map(|i| format!("var v{} = {};", i, i)).collect::<String>(),
                n - 1
            ),
            expect: if n <= 255 { p(&[&(n - 1).to_string()]) } else { Expect::Reject },
        });
        // captured variables: 150 locals in an outer function, n - 150 in a nested one, all used by a lambda
        let outer = 150;
        let inner = n + 1 - outer; // n+1 upvalues: limit is 256
        let sum: String = (0..outer)
            .map(|i| format!("a{}", i))
            .chain((0..inner).map(|i| format!("b{}", i)))
            .collect::<Vec<_>>()
            .join("+");
        v.push(Limit {
            name: format!("upvalues_{}", n + 1),
            source: format!(
                "fn outer() {{ {} fn mid() {{ {} return || {}; }} return mid(); }}\nprint(outer()());",
                (0..outer).map(|i| format!("var a{} = 1;", i)).collect::<String>(),
                (0..inner).map(|i| format!("var b{} = 1;", i)).collect::<String>(),
                sum
            ),
            expect: if n + 1 <= 256 { p(&[&(n + 1).to_string()]) } else { Expect::Reject },
        });
        // the same total reached only in an intermediate function: two sibling closures capture
        // disjoint sets of variables of two enclosing functions, so no single closure is over the
        // limit but the function between them has to pass all n+1 through
        let k1 = 130;
        let k2 = n + 1 - k1;
        let suma: String = (0..k1).map(|i| format!("a{}", i)).collect::<Vec<_>>().join("+");
        let sumb: String = (0..k2).map(|i| format!("b{}", i)).collect::<Vec<_>>().join("+");
        v.push(Limit {
            name: format!("upvalues_through_intermediate_{}", n + 1),
            source: format!(
                "fn o1() {{ {} fn o2() {{ {} fn mid() {{ fn in1() {{ return {}; }} fn in2() {{ return {}; }} return in1() + in2(); }} return mid(); }} return o2(); }}\nprint(o1());",
                (0..k1).map(|i| format!("var a{} = 1;", i)).collect::<String>(),
                (0..k2).map(|i| format!("var b{} = 1;", i)).collect::<String>(),
                suma,
                sumb
            ),
            expect: if n + 1 <= 256 { p(&[&(n + 1).to_string()]) } else { Expect::Reject },
        });
    }
    // the variable that crosses the 256-slot limit is not declared by `var`: a catch variable, a loop
    // variable (with the loop's hidden slots), a local class, a local function, a variable of a nested
    // block. How many hidden slots each form needs is the compiler's business, so the number of plain
    // variables in front sweeps across the boundary and every instance must be rejected or run
    // correctly: the new variable, one declared after it and the last plain one are all read back.
    let forms: [(&str, &str, &[&str]); 9] = [
        ("catch_variable_last", "try { throw \"thrown\"; } catch e { print(e); print(LAST); } try { throw \"again\"; } catch e { print(e); }", &["thrown", "SKIP", "again"]),
        ("for_variable_last", "for i in 5..6 { print(i); print(LAST); } for i in 7..8 { print(i); }", &["5", "SKIP", "7"]),
        ("local_class_last", "#[constructor(new)] class K { fn m(self) { return \"m\"; } } print(K.new().m()); print(LAST);", &["m"]),
        ("local_function_last", "fn g() { return \"g\"; } print(g()); print(LAST);", &["g"]),
        ("catch_variable", "try { throw \"thrown\"; } catch e { var w = \"w\"; print(e); print(w); print(LAST); }", &["thrown", "w"]),
        ("for_variable", "for i in 5..6 { var w = \"w\"; print(i); print(w); print(LAST); }", &["5", "w"]),
        ("local_class", "#[constructor(new)] class K { fn m(self) { return \"m\"; } } var w = \"w\"; print(K.new().m()); print(w); print(LAST);", &["m", "w"]),
        ("local_function", "fn g() { return \"g\"; } var w = \"w\"; print(g()); print(w); print(LAST);", &["g", "w"]),
        ("block_variable", "{ var z = \"z\"; { var w = \"w\"; print(z); print(w); print(LAST); } }", &["z", "w"]),
    ];
    for (form, tail, first) in forms.iter() {
        for n in 250usize..=257 {
            let decls: String = (0..n).map(|i| format!("var v{} = {};", i, i)).collect();
            // SKIP marks where the last plain variable is printed when it is not printed last
            let mut want: Vec<String> = first.iter().map(|s| if *s == "SKIP" { (n - 1).to_string() } else { s.to_string() }).collect();
            if !first.contains(&"SKIP") {
                want.push((n - 1).to_string());
            }
            want.push("end".to_string());
            v.push(Limit {
                name: format!("locals_then_{}_{}", form, n),
                source: format!(
                    "var e = \"global e\"; var i = \"global i\"; var w = \"global w\"; var z = \"global z\";\nfn f() {{ {} {} }}\nf();\nprint(\"end\");",
                    decls,
                    tail.replace("LAST", &format!("v{}", n - 1))
                ),
                expect: Expect::RejectOrPrints(want),
            });
        }
    }
    // parameter lists of methods, constructors and static methods around the limit (how many a
    // receiver takes away is the compiler's business: each instance is rejected or runs correctly)
    for n in 253usize..=258 {
        let params = names("a", n).join(", ");
        let args = (0..n).map(|i| i.to_string()).collect::<Vec<_>>().join(", ");
        let last = (n - 1).to_string();
        v.push(Limit {
            name: format!("method_params_{}", n),
            source: format!("#[constructor(new)] class K {{ fn m(self, {}) {{ return a{}; }} }}\nprint(K.new().m({}));", params, n - 1, args),
            expect: Expect::RejectOrPrints(vec![last.clone()]),
        });
        v.push(Limit {
            name: format!("constructor_params_{}", n),
            source: format!("class K {{ #[constructor] fn new(self, {}) {{ self.x = a{}; }} }}\nprint(K.new({}).x);", params, n - 1, args),
            expect: Expect::RejectOrPrints(vec![last.clone()]),
        });
        v.push(Limit {
            name: format!("static_method_params_{}", n),
            source: format!("class K {{ #[static] fn s({}) {{ return a{}; }} }}\nprint(K.s({}));", params, n - 1, args),
            expect: Expect::RejectOrPrints(vec![last.clone()]),
        });
    }
    // many captured variables, every one read (and written) through its own capture: a closure over
    // n variables of the enclosing function, the same through an intermediate function, and writes
    // through the captures read back in the declaring function
    for n in [127usize, 128, 129, 130, 200, 250] {
        let decls: String = (0..n).map(|i| format!("var c{} = {};", i, i)).collect();
        let all: String = (0..n).map(|i| format!("c{}", i)).collect::<Vec<_>>().join(", ");
        let plain: String = format!("[{}]", (0..n).map(|i| i.to_string()).collect::<Vec<_>>().join(", "));
        let bumped: String = format!("[{}]", (0..n).map(|i| (i + 1000).to_string()).collect::<Vec<_>>().join(", "));
        v.push(Limit {
            name: format!("captures_each_read_{}", n),
            source: format!("fn outer() {{ {} fn inner() {{ return [{}]; }} return inner; }}\nprint(outer()());", decls, all),
            expect: p(&[&plain]),
        });
        v.push(Limit {
            name: format!("captures_each_read_through_intermediate_{}", n),
            source: format!("fn outer() {{ {} fn mid() {{ fn inner() {{ return [{}]; }} return inner; }} return mid(); }}\nprint(outer()());", decls, all),
            expect: p(&[&plain]),
        });
        // (written in descending order, so that the capture numbers differ from the slot order)
        let writes: String = (0..n).rev().map(|i| format!("c{} = c{} + 1000;", i, i)).collect();
        v.push(Limit {
            name: format!("captures_each_written_{}", n),
            source: format!("fn outer() {{ {} fn inner() {{ {} }} inner(); return [{}]; }}\nprint(outer());", decls, writes, all),
            expect: p(&[&bumped]),
        });
    }
    // constants per chunk: 65536 distinct number literals fit (indices 0..65535)
    for n in [65535usize, 65536, 65537] {
        let mut s = String::with_capacity(n * 7);
        for i in 0..n {
            s.push_str(&i.to_string());
            s.push(';');
        }
        v.push(Limit {
            name: format!("constants_{}", n),
            source: s,
            expect: if n <= 65536 { Expect::Prints(vec![]) } else { Expect::Reject },
        });
    }
    // the constant that crosses the limit is not a number: a string, a new global's name, a lambda,
    // a named function, a class with a method and a generated constructor. How many constants each
    // tail adds is the compiler's business, so the count of numbers sweeps across the boundary and
    // every instance must either be rejected or run correctly (the first constant of the chunk is a
    // function too, so an index that wraps around names a function of the wrong kind)
    let tails: [(&str, &str); 5] = [
        ("string", "print(\"second\");"),
        ("global_name", "var zsecond = \"second\"; print(zsecond);"),
        ("lambda", "print((|| \"second\")());"),
        ("function", "fn zsecond() { return \"second\"; } print(zsecond());"),
        ("class", "#[constructor(new)] class Zc { fn m(self) { return \"second\"; } } print(Zc.new().m());"),
    ];
    for (kind, tail) in tails.iter() {
        for n in 65524usize..=65536 {
            let mut s = String::with_capacity(n * 7 + 200);
            s.push_str("var first = || \"first\";\n");
            for i in 0..n {
                s.push_str(&i.to_string());
                s.push(';');
            }
            s.push('\n');
            s.push_str(tail);
            v.push(Limit {
                name: format!("constants_then_{}_{}", kind, n),
                source: s,
                expect: Expect::RejectOrPrints(vec!["second".to_string()]),
            });
        }
    }
    // interpolation depth 8 / 9
    for d in [7usize, 8, 9] {
        let mut s = String::from("1");
        for _ in 0..d {
            s = format!("\"${{{}}}\"", s);
        }
        v.push(Limit {
            name: format!("interpolation_depth_{}", d),
            source: format!("print({});", s),
            expect: if d <= 8 { p(&["1"]) } else { Expect::Reject },
        });
    }
    // operand sweep: functions whose code ends (before the implicit return) in an operand byte of
    // every value 0..=255, in four operand roles — a byte of data must never be taken for an opcode
    for b in 0usize..=255 {
        if b >= 1 && b <= 254 {
            // local slot b read as the last statement
            let decls: String = (1..=b).map(|i| format!("var v{} = {};", i, i)).collect();
            v.push(Limit {
                name: format!("operand_local_slot_{}", b),
                source: format!("fn f() {{ {} var y = v{}; }}\nprint(f());\nprint(\"end\");", decls, b),
                expect: p(&["nil", "end"]),
            });
        }
        // call with b arguments as the last statement's initialiser
        v.push(Limit {
            name: format!("operand_call_args_{}", b),
            source: format!(
                "fn g({}) {{ return 1; }}\nfn f() {{ var y = g({}); }}\nprint(f());\nprint(\"end\");",
                names("a", b).join(","),
                list(b, "7")
            ),
            expect: p(&["nil", "end"]),
        });
        // vec literal with b elements
        v.push(Limit {
            name: format!("operand_vec_elems_{}", b),
            source: format!("fn f() {{ var y = [{}]; }}\nprint(f());\nprint(\"end\");", list(b, "1")),
            expect: p(&["nil", "end"]),
        });
        if b <= 250 {
            // captured variable number b read as the last statement of the inner function
            let decls: String = (0..=b).map(|i| format!("var c{} = {};", i, i)).collect();
            let uses: String = if b == 0 { String::new() } else { format!("var s = {};", (0..b).map(|i| format!("c{}", i)).collect::<Vec<_>>().join("+")) };
            v.push(Limit {
                name: format!("operand_upvalue_{}", b),
                source: format!(
                    "fn outer() {{ {} fn inner() {{ {} var y = c{}; }} return inner; }}\nprint(outer()());\nprint(\"end\");",
                    decls, uses, b
                ),
                expect: p(&["nil", "end"]),
            });
        }
    }
    v
}

struct Checked {
    report: Option<Report>,
    end: End,
    out: Vec<String>,
    trace_checked: u64,
    trace_problem: Option<String>,
    dangling: u64,
}

/// compile on a fresh interpreter, verify, run (with the height trace when hooks are available)
fn compile_verify_run(src: &str, modules: &[(String, String)], run: bool) -> Checked {
    let cfg = RunCfg { fuel: Some(3_000_000), modules: modules.to_vec(), ..RunCfg::default() };
    let mut s = Session::new(cfg);
    let mut c = Checked { report: None, end: End::Ok(String::new()), out: vec![], trace_checked: 0, trace_problem: None, dangling: 0 };
    let source = src.to_string();
    yrun::quiet(true);
    let compiled = {
        let vm = s.vm().expect("vm");
        panic::catch_unwind(panic::AssertUnwindSafe(|| yarel::compiler::compile(vm, source, None)))
    };
    yrun::quiet(false);
    let function = match compiled {
        Err(_) => {
            c.end = End::Panic(yrun::take_panic());
            let _ = s.finish();
            return c;
        }
        Ok(Err(e)) => {
            c.end = End::Err(e.kind(), e.messages().clone());
            let _ = s.finish();
            return c;
        }
        Ok(Ok(f)) => f,
    };
    yrun::quiet(true);
    let rep = panic::catch_unwind(panic::AssertUnwindSafe(|| verifier::verify(function.as_gc())));
    yrun::quiet(false);
    match rep {
        Ok(r) => c.report = Some(r),
        Err(_) => {
            c.end = End::Panic(format!("verifier: {}", yrun::take_panic()));
            let _ = s.finish();
            return c;
        }
    }
    if run {
        #[cfg(feature = "hooks")]
        yarel::vm::verif::set_trace(true);
        yrun::quiet(true);
        let r = {
            let vm = s.vm().expect("vm");
            panic::catch_unwind(panic::AssertUnwindSafe(|| vm.execute(function.clone(), &[])))
        };
        yrun::quiet(false);
        c.end = match r {
            Ok(Ok(v)) => End::Ok(format!("{}", v)),
            Ok(Err(e)) => End::Err(e.kind(), e.messages().clone()),
            Err(_) => End::Panic(yrun::take_panic()),
        };
        c.out = yrun::take_output();
        #[cfg(feature = "hooks")]
        {
            let trace = yarel::vm::verif::take_trace();
            yarel::vm::verif::set_trace(false);
            if let Some(rep) = &c.report {
                let mut by_base = std::collections::HashMap::new();
                for f in &rep.functions {
                    by_base.insert(f.code_base, f);
                }
                for (base, pc, h) in trace {
                    if let Some(f) = by_base.get(&base) {
                        if f.has_catchless_handler {
                            continue;
                        }
                        c.trace_checked += 1;
                        match f.heights.get(&pc) {
                            Some(eh) if *eh == h => {}
                            Some(eh) => {
                                if c.trace_problem.is_none() {
                                    c.trace_problem = Some(format!("{} pc {}: the interpreter ran it at height {}, the verifier computed {}", f.name, pc, h, eh));
                                }
                            }
                            None => {
                                if c.trace_problem.is_none() {
                                    c.trace_problem = Some(format!("{} pc {}: executed but unreachable for the verifier", f.name, pc));
                                }
                            }
                        }
                    }
                }
            }
        }
    }
    drop(function);
    c.dangling = s.finish().dangling_upvalues;
    c
}

impl C04 {
    /// A generated program behind 64 KiB to 190 KiB of filler in the same chunk: every instruction of
    /// the program then sits at a code offset that does not fit 16 bits (only jump *distances* are
    /// limited to 16 bits). The padded program must pass the verifier and behave exactly like the
    /// unpadded one.
    fn far_pair(&self, bytes: &[u8]) -> Option<(String, String, Vec<(String, String)>)> {
        let mut rd = Rd::new(bytes, 64);
        let pad = match rd.below(4) {
            0 => 65_500 + rd.below(80),
            1 => 65_536 + rd.below(600),
            2 => 66_000 + rd.below(66_000),
            _ => 131_000 + rd.below(60_000),
        };
        let prof = match rd.below(3) {
            0 => profiles::c08(),
            1 => profiles::c06(),
            _ => profiles::mixed(),
        };
        let rest = if bytes.len() > 8 { &bytes[8..] } else { &[][..] };
        let (p, _) = gen::program(rest, prof);
        crate::astutil::fix_lambda_names(&p);
        let r = crate::prelude::run_program(&p, &crate::prelude::RefCfg::default());
        if matches!(r.end, crate::prelude::RefEnd::Discard(_)) || !crate::props::diffprop::trigger_suffix(&r.events).is_empty() {
            return None;
        }
        let (main, mods) = crate::pretty::render_program(&p, &[]);
        let padded = format!("{}\n{}", filler(pad), main);
        Some((main, padded, mods))
    }

    fn far_code(&self, ctx: &mut CaseCtx) -> Verdict {
        let (plain, padded, mods) = match self.far_pair(ctx.bytes) {
            Some(x) => x,
            None => return Verdict::Discard("reference declined or recorded-defect shape"),
        };
        let a = compile_verify_run(&plain, &mods, true);
        if matches!(&a.end, End::Err(ErrorKind::CompileError, m) if crate::diff::is_compile_error(m)) {
            return Verdict::Discard("does not compile");
        }
        let b = compile_verify_run(&padded, &mods, true);
        let show = |s: &str| if s.len() < 3000 { s.to_string() } else { format!("{} ...", &s[..s.char_indices().map(|(i, _)| i).take_while(|i| *i < 3000).last().unwrap_or(0)]) };
        for (which, c) in [("plain", &a), ("padded", &b)] {
            if let End::Panic(p) = &c.end {
                return Verdict::Fail { sig: format!("panic:{}", sig_of_panic(p)), detail: format!("the {} program panicked: {}\n{}", which, p, show(&plain)) };
            }
        }
        if let Some(rep) = &b.report {
            if let Some(p) = rep.problems.first() {
                return Verdict::Fail { sig: format!("verifier:{}", p.kind), detail: format!("behind {} bytes of filler: {}\n{}", padded.len() - plain.len(), p.detail, show(&plain)) };
            }
        }
        if let Some(tp) = &b.trace_problem {
            return Verdict::Fail { sig: "trace-height-mismatch".into(), detail: format!("behind filler: {}\n{}", tp, show(&plain)) };
        }
        let kind = |e: &End| match e {
            End::Ok(_) => "Ok".to_string(),
            End::Err(k, _) => format!("{:?}", k),
            End::Panic(_) => "Panic".to_string(),
        };
        let norm = |v: &Vec<String>| v.iter().map(|s| yrun::normalise_addr(s)).collect::<Vec<_>>();
        if norm(&a.out) != norm(&b.out) || kind(&a.end) != kind(&b.end) {
            return Verdict::Fail {
                sig: "code-offset-beyond-16-bits".into(),
                detail: format!(
                    "the same program prints {:?} and ends {} on its own, but prints {:?} and ends {} ({:?}) when {} bytes of no-op statements precede it in the chunk\n{}",
                    a.out, kind(&a.end), b.out, kind(&b.end), b.end, padded.len() - plain.len(), show(&plain)
                ),
            };
        }
        ctx.label("far_code");
        ctx.label_n("trace_pcs_checked", b.trace_checked);
        if padded.contains("try") {
            ctx.label("far_code_try");
        }
        Verdict::Pass { nontrivial: true, hash: fnv64(padded.as_bytes()) }
    }

    fn source_for(&self, family: &str, bytes: &[u8]) -> Option<(String, Vec<(String, String)>, Option<Expect>, String)> {
        let idx = {
            let mut b = [0u8; 8];
            let n = bytes.len().min(8);
            b[..n].copy_from_slice(&bytes[..n]);
            u64::from_le_bytes(b) as usize
        };
        match family {
            // a pinned source text (findings and regression replays)
            "source" => {
                let text = String::from_utf8_lossy(bytes).to_string();
                let src = text.strip_prefix("//// verify-only\n").unwrap_or(&text).to_string();
                Some((src, vec![], None, "pinned source".into()))
            }
            "limits" => {
                let l = limits();
                let l = l.into_iter().nth(idx)?;
                Some((l.source, vec![], Some(l.expect), l.name))
            }
            "scripts" => {
                let sc = scripts();
                let (name, src) = sc.get(idx)?;
                // scripts that import need their siblings
                let mods: Vec<(String, String)> = sc.iter().map(|(n, s)| (n.clone(), s.clone())).collect();
                Some((src.clone(), mods, None, name.clone()))
            }
            _ => {
                let prof = match family {
                    "programs_triggers" => profiles::with_triggers(profiles::mixed()),
                    "programs_classes" => profiles::c07(),
                    "programs_scopes" => profiles::c06(),
                    _ => profiles::mixed(),
                };
                let (p, _) = gen::program(bytes, prof);
                crate::astutil::fix_lambda_names(&p);
                let (main, mods) = crate::pretty::render_program(&p, &[]);
                // programs the reference interpreter declines (runaway strings, step limit) are
                // verified but not run
                let r = crate::prelude::run_program(&p, &crate::prelude::RefCfg::default());
                // ... and so are programs that executed the shape of a recorded exception defect
                // (the interpreter's state is corrupt from there on)
                let triggered = !crate::props::diffprop::trigger_suffix(&r.events).is_empty();
                let name = if matches!(r.end, crate::prelude::RefEnd::Discard(_)) || triggered { "norun" } else { "" };
                Some((main, mods, None, name.to_string()))
            }
        }
    }
}

impl Property for C04 {
    fn id(&self) -> &'static str {
        "C04"
    }

    fn families(&self, tier: Tier) -> Vec<Family> {
        let q = tier == Tier::Quick;
        vec![
            Family { name: "limits", kind: FamilyKind::Enumerated { count: limits().len() as u64, exhaustive: true } },
            Family { name: "scripts", kind: FamilyKind::Enumerated { count: scripts().len() as u64, exhaustive: true } },
            Family { name: "programs", kind: FamilyKind::Random { cases: if q { 30_000 } else { 300_000 }, max_len: 800 } },
            Family { name: "programs_triggers", kind: FamilyKind::Random { cases: if q { 10_000 } else { 100_000 }, max_len: 800 } },
            Family { name: "programs_classes", kind: FamilyKind::Random { cases: if q { 10_000 } else { 100_000 }, max_len: 800 } },
            Family { name: "programs_scopes", kind: FamilyKind::Random { cases: if q { 10_000 } else { 100_000 }, max_len: 800 } },
            Family { name: "far_code", kind: FamilyKind::Random { cases: if q { 600 } else { 8_000 }, max_len: 600 } },
        ]
    }

    fn rule(&self) -> String {
        "cases: (limits, exhaustive) one parameterised program per encoding limit at limit-1, limit, limit+1 (+2): forward jump distance for if/else/&&/||/while/try/break at 65534..65537 bytes with byte-exact filler, backward loop distance, call/method arguments, parameters (fn and lambda; methods, constructors and static methods at 253..258), vec/tuple/map elements and interpolation parts at 254..257, locals at 254..257, 250..257 plain variables followed by a catch variable, a loop variable, a local class, a local function or nested-block variables (each instance is rejected or runs correctly), captured variables at 255..258, closures over 127..250 variables each of which is read (directly and through an intermediate function) and written through its own capture, constants per chunk at 65535..65537 (numbers) and with the crossing constant a string, a global's name, a lambda, a named function or a class (65524..65536 numbers before it; each instance is rejected or runs correctly), interpolation depth 7..9; operand sweep: functions whose code ends in an operand byte of every value 0..255 as local slot, argument count, element count and captured-variable index; (scripts) every script of the repository's corpus that compiles; (programs*) generated programs of the mixed/class/scope profiles, with and without recorded-defect shapes; (far_code) generated programs of the exception, scope and mixed profiles placed behind 64-190 KiB of no-op statements in the same chunk, so that every code offset of the program exceeds 16 bits: verified, and run next to the unpadded program, whose printed values and outcome it must reproduce. Oracle: the bytecode verifier (abstract interpretation over every function: instruction boundaries, operand indices, one operand-stack height and one static handler stack per reachable pc, no pop below the frame base, final Return, line table length), the verifier's heights cross-checked against the interpreter's (chunk, pc, height) trace of the same run, no panic while running, for the limit family the output or rejection known by construction, and for the generated programs without recorded-defect shapes the printed values and outcome of the reference interpreter (a name resolved to another variable than the source means is well-formed code). Non-trivial: a verified function with >=1 branch and height above its arity, or any limit instance; distinct by program text.".into()
    }

    fn assumptions(&self) -> Vec<String> {
        vec![
            "the exceptional entry into a finally block that has no catch block is one slot higher than the normal entry (recorded finding E8): counted as finally_exception_entries, not explored, and such functions are left out of the trace cross-check".into(),
            "value-stack capacity (frames x slots) is not checked statically".into(),
        ]
    }

    fn render(&self, family: &str, bytes: &[u8]) -> String {
        if family == "far_code" {
            return match self.far_pair(bytes) {
                Some((plain, padded, _)) => format!("// preceded in the same chunk by {} bytes of `nil;` statements\n{}", padded.len() - plain.len() - 1, plain),
                None => "<declined>".into(),
            };
        }
        match self.source_for(family, bytes) {
            Some((src, _, exp, name)) => {
                let mut s = src;
                if s.len() > 1500 {
                    let mut cut = 1500;
                    while !s.is_char_boundary(cut) {
                        cut -= 1;
                    }
                    s = format!("{}… [{} bytes]", &s[..cut], s.len());
                }
                format!("{} {:?}\n{}", name, exp.map(|e| match e { Expect::Reject => "reject".to_string(), Expect::Prints(l) => format!("prints {:?}", l), Expect::RejectOrPrints(l) => format!("rejected, or prints {:?}", l) }), s)
            }
            None => "<none>".into(),
        }
    }

    fn run(&self, ctx: &mut CaseCtx) -> Verdict {
        let family = ctx.family.to_string();
        if family == "far_code" {
            return self.far_code(ctx);
        }
        let (src, mods, expect, name) = match self.source_for(&family, ctx.bytes) {
            Some(x) => x,
            None => return Verdict::Discard("no such case"),
        };
        let c = compile_verify_run(&src, &mods, name != "norun");
        if let End::Panic(p) = &c.end {
            return Verdict::Fail {
                sig: format!("panic:{}", sig_of_panic(p)),
                detail: format!("{} panicked: {}", name, p),
            };
        }
        let rejected = matches!(&c.end, End::Err(ErrorKind::CompileError, m) if crate::diff::is_compile_error(m));
        if let Some(exp) = &expect {
            match exp {
                Expect::Reject => {
                    if !rejected {
                        return Verdict::Fail {
                            sig: format!("limit-not-rejected:{}", name.rsplit_once('_').map(|x| x.0).unwrap_or(&name)),
                            detail: format!("{}: a program over the encoding limit was accepted; it printed {:?} and ended {:?}", name, c.out, c.end),
                        };
                    }
                    ctx.label("limit_rejected");
                    return Verdict::Pass { nontrivial: true, hash: fnv64(name.as_bytes()) };
                }
                Expect::RejectOrPrints(lines) => {
                    if rejected {
                        ctx.label("limit_rejected");
                        return Verdict::Pass { nontrivial: true, hash: fnv64(name.as_bytes()) };
                    }
                    if &c.out != lines || !matches!(c.end, End::Ok(_)) {
                        return Verdict::Fail {
                            sig: format!("limit-wrong-output:{}", name.rsplit_once('_').map(|x| x.0).unwrap_or(&name)),
                            detail: format!("{}: the program was accepted, so it must print {:?}; it printed {:?} and ended {:?}", name, lines, c.out, c.end),
                        };
                    }
                    ctx.label("limit_accepted");
                }
                Expect::Prints(lines) => {
                    if rejected {
                        return Verdict::Fail {
                            sig: format!("limit-rejected-too-early:{}", name.rsplit_once('_').map(|x| x.0).unwrap_or(&name)),
                            detail: format!("{}: a program within the encoding limit was rejected: {:?}", name, c.end),
                        };
                    }
                    if &c.out != lines && !lines.is_empty() || (lines.is_empty() && name.starts_with("constants") && !matches!(c.end, End::Ok(_))) {
                        return Verdict::Fail {
                            sig: format!("limit-wrong-output:{}", name.rsplit_once('_').map(|x| x.0).unwrap_or(&name)),
                            detail: format!("{}: expected output {:?}, got {:?} (end {:?})", name, lines, c.out, c.end),
                        };
                    }
                    ctx.label("limit_accepted");
                }
            }
        }
        if rejected {
            ctx.label("rejected");
            return Verdict::Discard("does not compile");
        }
        let rep = match &c.report {
            Some(r) => r,
            None => return Verdict::Discard("no report"),
        };
        ctx.label_n("functions_verified", rep.functions.len() as u64);
        ctx.label_n("finally_exception_entries", rep.finally_exception_entries as u64);
        ctx.label_n("trace_pcs_checked", c.trace_checked);
        ctx.label_n("opcode_height_pairs", rep.opcode_heights.len() as u64);
        if let Some(p) = rep.problems.first() {
            return Verdict::Fail {
                sig: format!("verifier:{}{}", p.kind, if family == "programs_triggers" || family == "source" { "+triggers" } else { "" }),
                detail: format!("{}\n{}", rep.problems.iter().map(|p| p.detail.clone()).collect::<Vec<_>>().join("\n"), if src.len() < 4000 { src.clone() } else { name.clone() }),
            };
        }
        if let Some(t) = &c.trace_problem {
            return Verdict::Fail {
                sig: format!("trace-height-mismatch{}", if family == "programs_triggers" || family == "source" { "+triggers" } else { "" }),
                detail: format!("{}\n{}", t, if src.len() < 4000 { src.clone() } else { name.clone() }),
            };
        }
        if c.dangling > 0 {
            return Verdict::Fail {
                sig: format!("captured-slot-discarded-open{}", if family == "programs_triggers" || family == "source" { "+triggers" } else { "" }),
                detail: format!("at {} instruction boundaries of the run an open upvalue pointed at or above the top of the value stack: a path discards a captured variable's slot without closing it, so the closure names a slot that is no longer that variable\n{}", c.dangling, if src.len() < 4000 { src.clone() } else { name.clone() }),
            };
        }
        // generated programs (recorded-defect shapes off): what the code does is also what the source
        // says - the printed values, which are reads of the variables the source names, agree with
        // the reference interpreter's. A compiler that resolves a name to another variable, slot or
        // constant than the source means produces well-formed code the verifier has nothing against.
        if matches!(family.as_str(), "programs" | "programs_classes" | "programs_scopes") && name != "norun" {
            let prof = match family.as_str() {
                "programs_classes" => profiles::c07(),
                "programs_scopes" => profiles::c06(),
                _ => profiles::mixed(),
            };
            let (p, _) = gen::program(ctx.bytes, prof);
            let d = crate::diff::run_diff(&p, &[], &crate::diff::DiffCfg::default(), &crate::prelude::RefCfg::default());
            if crate::props::diffprop::trigger_suffix(&d.events).is_empty() {
                match &d.verdict {
                    crate::diff::DiffVerdict::Mismatch(m) => {
                        return Verdict::Fail {
                            sig: "accepted-code-differs-from-source:ref-mismatch".into(),
                            detail: format!("{}
{}", m, if src.len() < 4000 { src.clone() } else { name.clone() }),
                        };
                    }
                    crate::diff::DiffVerdict::Agree => ctx.label("agrees_with_reference"),
                    _ => {}
                }
            }
        }
        let nontrivial = expect.is_some()
            || rep.functions.iter().any(|f| f.branches >= 1 && f.max_height > 1);
        Verdict::Pass { nontrivial, hash: fnv64(src.as_bytes()) }
    }

    fn floors(&self, _tier: Tier) -> Vec<(&'static str, u64)> {
        vec![("functions_verified", 20_000), ("trace_pcs_checked", 1_000_000), ("limit_rejected", 20), ("limit_accepted", 30), ("far_code", 300), ("far_code_try", 100), ("agrees_with_reference", 10_000)]
    }

    fn extra_coverage(&self, labels: &std::collections::BTreeMap<String, u64>) -> Vec<(String, serde_json::Value)> {
        vec![(
            "traces_validated_against_impl".to_string(),
            serde_json::json!(labels.get("trace_pcs_checked").copied().unwrap_or(0)),
        )]
    }
}
