//! C10 — optimised and checked builds behave identically: the same programs run by the plain
//! runner (no hooks) in every build configuration of the matrix must print the same and end the same.

use std::collections::BTreeMap;
use std::fs;
use std::io::Read;
use std::path::PathBuf;
use std::process::{Command, Stdio};
use std::time::{Duration, Instant};

use crate::diff::{run_diff, DiffCfg, DiffVerdict};
use crate::engine::*;
use crate::gen;
use crate::prelude::RefCfg;
use crate::profiles;
use crate::props::c03::scripts;
use crate::props::diffprop::trigger_suffix;
use crate::rd::fnv64;

pub struct C10;

struct Prog {
    id: String,
    main: String,
    modules: Vec<(String, String)>,
    nontrivial: bool,
}

fn runners_dir() -> PathBuf {
    verif_root().join("target").join("runners")
}

fn configs(tier: Tier) -> Vec<String> {
    let list = runners_dir().join(format!("{}.list", tier.name()));
    fs::read_to_string(list)
        .map(|s| s.lines().map(|l| l.trim().to_string()).filter(|l| !l.is_empty()).collect())
        .unwrap_or_default()
}

fn batch_text(progs: &[Prog]) -> String {
    let mut s = String::new();
    for p in progs {
        s.push_str(&format!("\u{1e}{} {}\n", p.id, p.modules.len() + 1));
        s.push_str("\u{1f}main\n");
        s.push_str(&p.main);
        for (path, src) in &p.modules {
            s.push_str(&format!("\u{1f}{}\n", path));
            s.push_str(src);
        }
    }
    s
}

/// id -> (printed values, end line with messages); None = the runner never finished that program
fn run_config(cfg: &str, batch: &PathBuf) -> Result<BTreeMap<String, (Vec<String>, String)>, String> {
    let exe = runners_dir().join(cfg).join("yrunner");
    if !exe.exists() {
        return Err(format!("runner for configuration {} is not built", cfg));
    }
    let mut child = Command::new(&exe)
        .arg(batch)
        .stdout(Stdio::piped())
        .stderr(Stdio::piped())
        .spawn()
        .map_err(|e| format!("cannot start {}: {}", exe.display(), e))?;
    let mut out = child.stdout.take().unwrap();
    let reader = std::thread::spawn(move || {
        let mut s = Vec::new();
        let _ = out.read_to_end(&mut s);
        s
    });
    let t0 = Instant::now();
    // a batch takes a second or two; the first runner that does not finish gets three minutes, later
    // ones (re-evaluations of the same failure while it is minimised) thirty seconds
    static TIMED_OUT_BEFORE: std::sync::atomic::AtomicBool = std::sync::atomic::AtomicBool::new(false);
    let limit = if TIMED_OUT_BEFORE.load(std::sync::atomic::Ordering::Relaxed) { 30 } else { 180 };
    let status = loop {
        match child.try_wait() {
            Ok(Some(st)) => break Some(st),
            Ok(None) => {
                if t0.elapsed() > Duration::from_secs(limit) {
                    TIMED_OUT_BEFORE.store(true, std::sync::atomic::Ordering::Relaxed);
                    let _ = child.kill();
                    let _ = child.wait();
                    break None;
                }
                std::thread::sleep(Duration::from_millis(3));
            }
            Err(_) => break None,
        }
    };
    let bytes = reader.join().unwrap_or_default();
    let text = String::from_utf8_lossy(&bytes).to_string();
    let mut res = BTreeMap::new();
    let mut current: Option<(String, Vec<String>)> = None;
    for rec in text.split('\u{1e}').skip(1) {
        if let Some(rest) = rec.strip_prefix("BEGIN ") {
            let (id, body) = rest.split_once('\n').unwrap_or((rest, ""));
            let printed: Vec<String> = body
                .trim_end_matches('\n')
                .split('\u{1f}')
                .skip(1)
                .map(|p| p.strip_prefix('P').unwrap_or(p).to_string())
                .collect();
            current = Some((id.trim().to_string(), printed));
        } else if let Some(rest) = rec.strip_prefix("END ") {
            let line = rest.trim_end_matches('\n').to_string();
            let id = line.split(' ').next().unwrap_or("").to_string();
            if let Some((cid, printed)) = current.take() {
                if cid == id {
                    let end = line[id.len()..].trim().to_string();
                    res.insert(id, (printed, end));
                }
            }
        }
    }
    if let Some((cid, _)) = current {
        // the runner died inside this program
        let why = match status {
            None => "timed out".to_string(),
            Some(st) => {
                use std::os::unix::process::ExitStatusExt;
                let mut e = String::new();
                if let Some(mut se) = child.stderr.take() {
                    let _ = se.read_to_string(&mut e);
                }
                format!("died (signal {:?}, code {:?}): {}", st.signal(), st.code(), e.lines().last().unwrap_or(""))
            }
        };
        res.insert(cid, (vec![], format!("CRASH {}", why)));
    }
    Ok(res)
}

impl C10 {
    fn programs(&self, family: &str, bytes: &[u8], ctx: Option<&mut CaseCtx>) -> Vec<Prog> {
        let mut progs = Vec::new();
        let mut ctx = ctx;
        match family {
            "scripts" => {
                let idx = {
                    let mut b = [0u8; 8];
                    let n = bytes.len().min(8);
                    b[..n].copy_from_slice(&bytes[..n]);
                    u64::from_le_bytes(b) as usize
                };
                let sc = scripts();
                let mods: Vec<(String, String)> = sc.iter().map(|(n, s)| (n.clone(), s.clone())).collect();
                for k in 0..20 {
                    if let Some((name, src)) = sc.get(idx * 20 + k) {
                        // a few scripts exist to overflow the interpreter's own limits; skip none: the
                        // expectation is only that all configurations agree
                        progs.push(Prog { id: format!("s{}", idx * 20 + k), main: src.clone(), modules: mods.clone(), nontrivial: name.contains("fiber") || name.contains("recursion") });
                    }
                }
            }
            "adversarial" => {
                // the adversarial-operand programs of C02 (every operator and method on boundary
                // values, each failure caught and printed): arithmetic that overflow checks see and
                // optimised builds wrap must still give the same answer everywhere
                for (k, chunk) in bytes.chunks(64).enumerate().take(16) {
                    if chunk.len() < 8 {
                        continue;
                    }
                    // one in five is a recursion to 55-74 frames with up to 200 live temporaries per
                    // frame (the C02 depth generator, recorded-finding shapes off): the value stack is
                    // bounds-checked in some configurations and not in others
                    if chunk[0] % 5 == 4 {
                        let main = crate::props::c02::depth_program(&chunk[1..9.min(chunk.len())], false);
                        progs.push(Prog { id: format!("d{}", k), main, modules: vec![], nontrivial: true });
                        continue;
                    }
                    let (main, modules) = crate::props::c02::matrix_program(chunk);
                    progs.push(Prog { id: format!("a{}", k), main, modules, nontrivial: true });
                }
            }
            _ => {
                for (k, chunk) in bytes.chunks(48).enumerate().take(24) {
                    if chunk.len() < 8 {
                        continue;
                    }
                    // values whose identity or enumeration order could depend on the collector's
                    // schedule or on addresses: pairs of equal keys (ranges with equal bounds built with
                    // other allocations in between) against the map, judged by the program itself
                    if chunk[0] % 10 == 9 {
                        let main = crate::props::refprops::key_pairs_case(&chunk[1..]);
                        progs.push(Prog { id: format!("k{}", k), main, modules: vec![], nontrivial: false });
                        continue;
                    }
                    let (prog, nontrivial_hint) = match chunk[0] % 10 {
                        // map histories (the C12 generator): every enumeration order is printed
                        8 => (crate::gen_map::program(&chunk[1..]).0, false),
                        0 => (gen::program(&chunk[1..], profiles::c09()).0, false),
                        1 => (gen::program(&chunk[1..], profiles::c07()).0, false),
                        2 => (gen::program(&chunk[1..], profiles::c06()).0, false),
                        3 => (gen::program(&chunk[1..], profiles::c18()).0, false),
                        4 | 5 => {
                            let p = crate::gen_alloc::plan(&chunk[1..], 900, 200);
                            (crate::gen_alloc::program(&p, p.iterations.max(700)), true)
                        }
                        _ => (gen::program(&chunk[1..], profiles::mixed()).0, false),
                    };
                    // keep only programs the hooked in-process run and the reference agree on, and that
                    // stay clear of the recorded exception defects
                    // swept objects are quarantined in this run, so that a collector fault cannot take the
                    // harness process down; the runners of the matrix really free them
                    let d = run_diff(&prog, &[], &DiffCfg { fuel: 40_000_000, quarantine: true, ..DiffCfg::default() }, &RefCfg { step_limit: 2_000_000, ..RefCfg::default() });
                    // (a program on which this checked in-process run *disagrees* with the reference
                    // interpreter is kept: on the unchanged tree there is none outside the recorded
                    // shapes, and a fault that shows only in checked builds is exactly what the matrix
                    // is for)
                    if matches!(d.verdict, DiffVerdict::Discard(_)) || !trigger_suffix(&d.events).is_empty() {
                        if let Some(c) = ctx.as_deref_mut() {
                            c.label("filtered_out");
                        }
                        continue;
                    }
                    let nt = nontrivial_hint || d.fiber_switches >= 1 || d.max_depth > 8;
                    progs.push(Prog { id: format!("g{}", k), main: d.source, modules: d.modules, nontrivial: nt });
                }
            }
        }
        progs
    }
}

impl Property for C10 {
    fn id(&self) -> &'static str {
        "C10"
    }

    fn families(&self, tier: Tier) -> Vec<Family> {
        let q = tier == Tier::Quick;
        vec![
            Family { name: "scripts", kind: FamilyKind::Enumerated { count: (scripts().len() as u64 + 19) / 20, exhaustive: true } },
            Family { name: "generated", kind: FamilyKind::Random { cases: if q { 240 } else { 3_000 }, max_len: 48 * 24 } },
            Family { name: "adversarial", kind: FamilyKind::Random { cases: if q { 120 } else { 2_000 }, max_len: 64 * 16 } },
        ]
    }

    fn rule(&self) -> String {
        "cases: batches of up to 24 generated programs (fiber, class, scope, iteration and mixed profiles, map histories of the C12 generator whose enumeration orders are printed, key-pair programs comparing ranges with equal bounds built with other allocations in between, plus allocation loops of >=700 iterations that cross the 64 KiB collection threshold many times) batches of 16 adversarial-operand programs (the C02 generator: every operator, built-in and method applied to boundary values — +-2^63, huge ranges, NaN, -0, 2^53 — with every failure caught and its class printed; one in five is instead a recursion to 55-74 frames with up to 200 live temporaries per frame), and batches of 20 repository scripts (with a loader serving the script corpus). Each batch is run by the plain runner binary (no hooks, fresh interpreter per program) built in every configuration of the matrix: quick = {dev, release, release+safe_stack+safe_active_fiber+safe_vm_opcodes+safe_class_lookup, release+debug_stress_gc}; thorough = dev + all 32 subsets of the five feature switches under release. Oracle: every configuration prints the same values and ends with the same outcome, error kind and messages (addresses normalised) as the first; a runner crash is a violation. Generated programs are first filtered to those on which the hooked in-process run agrees with the reference interpreter and that avoid the recorded exception defects. Non-trivial: the program switches fibers, recurses deeper than 8 frames, or is an allocation loop; distinct by batch text.".into()
    }

    fn assumptions(&self) -> Vec<String> {
        vec!["behaviour that differs only through undefined behaviour with identical output is invisible here (C01/C02 look at that side)".into()]
    }

    fn render(&self, family: &str, bytes: &[u8]) -> String {
        let progs = self.programs(family, bytes, None);
        let mut s = format!("{} programs\n", progs.len());
        for p in progs.iter().take(2) {
            let mut cut = p.main.len().min(1500);
            while !p.main.is_char_boundary(cut) {
                cut -= 1;
            }
            s.push_str(&format!("--- {}\n{}\n", p.id, &p.main[..cut]));
        }
        s
    }

    fn run(&self, ctx: &mut CaseCtx) -> Verdict {
        let family = ctx.family.to_string();
        let bytes = ctx.bytes.to_vec();
        let tier = ctx.tier;
        let progs = self.programs(&family, &bytes, Some(ctx));
        if progs.is_empty() {
            return Verdict::Discard("no program survived the filter");
        }
        let cfgs = configs(tier);
        if cfgs.len() < 2 {
            return Verdict::Fail { sig: "matrix-not-built".into(), detail: format!("configurations found: {:?}", cfgs) };
        }
        let dir = verif_root().join("work");
        let _ = fs::create_dir_all(&dir);
        let batch = dir.join(format!("c10-batch-{}-{:x}.txt", std::process::id(), fnv64(&bytes)));
        let text = batch_text(&progs);
        if fs::write(&batch, &text).is_err() {
            return Verdict::Discard("cannot write batch");
        }
        let mut results = Vec::new();
        for c in &cfgs {
            match run_config(c, &batch) {
                Ok(r) => results.push((c.clone(), r)),
                Err(e) => {
                    let _ = fs::remove_file(&batch);
                    return Verdict::Fail { sig: "matrix-not-built".into(), detail: e };
                }
            }
        }
        let _ = fs::remove_file(&batch);
        ctx.label_n("programs", progs.len() as u64);
        ctx.label_n("program_runs", (progs.len() * cfgs.len()) as u64);
        let (first_name, first) = &results[0];
        let mut nontrivial = false;
        for p in &progs {
            nontrivial |= p.nontrivial;
            if p.nontrivial {
                ctx.label("nontrivial_program");
            }
            let a = first.get(&p.id);
            for (name, r) in results.iter() {
                let b = r.get(&p.id);
                let crashed = |x: Option<&(Vec<String>, String)>| x.map(|v| v.1.starts_with("CRASH")).unwrap_or(true);
                if crashed(b) {
                    return Verdict::Fail {
                        sig: "runner-crash".into(),
                        detail: format!("configuration {} did not finish program {}: {:?}\n{}", name, p.id, b.map(|v| v.1.clone()), p.main),
                    };
                }
                if a != b {
                    return Verdict::Fail {
                        sig: "configurations-disagree".into(),
                        detail: format!(
                            "program {}: configuration {} gives {:?}\nconfiguration {} gives {:?}\n{}",
                            p.id, first_name, a, name, b, p.main
                        ),
                    };
                }
            }
        }
        Verdict::Pass { nontrivial, hash: fnv64(text.as_bytes()) }
    }

    fn floors(&self, tier: Tier) -> Vec<(&'static str, u64)> {
        if tier == Tier::Quick {
            vec![("programs", 1_500), ("nontrivial_program", 300)]
        } else {
            vec![("programs", 20_000), ("nontrivial_program", 4_000)]
        }
    }

    fn extra_coverage(&self, _labels: &BTreeMap<String, u64>) -> Vec<(String, serde_json::Value)> {
        let mut v = Vec::new();
        for t in [Tier::Quick, Tier::Thorough] {
            let c = configs(t);
            if !c.is_empty() {
                let detail: Vec<String> = c
                    .iter()
                    .map(|n| format!("{} [{}]", n, fs::read_to_string(runners_dir().join(n).join("features")).unwrap_or_default().trim()))
                    .collect();
                v.push((format!("configurations_built_{}", t.name()), serde_json::json!(detail)));
            }
        }
        v
    }
}
