//! Differential run: the generated AST is rendered to text and run by yarel, and evaluated
//! directly by the reference interpreter; printed lines, outcome, error class and trace are compared.

use std::collections::BTreeMap;

use crate::ast::Program;
use crate::prelude::{run_program, RefCfg, RefEnd, RefOutcome};
use crate::pretty::render_program;
use crate::reval::OPAQUE;
use crate::yrun::{self, End, GcCfg, Outcome, RunCfg};

#[derive(Debug, Clone)]
pub enum DiffVerdict {
    Agree,
    Discard(&'static str),
    Mismatch(String),
    Panic(String),
}

pub struct DiffResult {
    pub verdict: DiffVerdict,
    pub source: String,
    pub modules: Vec<(String, String)>,
    pub events: BTreeMap<&'static str, u32>,
    pub ref_out: Vec<String>,
    pub ref_end: RefEnd,
    pub yarel: Option<Outcome>,
    pub max_depth: usize,
    pub fiber_switches: u32,
}

fn line_matches(expected: &str, actual: &str) -> bool {
    match expected.find(OPAQUE) {
        None => expected == actual,
        Some(p) => actual.len() >= p && actual.is_char_boundary(p) && actual[..p] == expected[..p],
    }
}

pub struct DiffCfg {
    /// discard programs that create more than 8 distinct ranges and compare two range objects (range
    /// equality is identity plus an 8-entry cache in yarel); programs that only iterate over, slice
    /// with or print their ranges are kept however many they build
    pub range_identity_matters: bool,
    pub compare_trace: bool,
    pub gc: GcCfg,
    pub quarantine: bool,
    pub fuel: u64,
    /// write one variable of some single-module programs with an unusual spelling (see `run_diff`);
    /// off where the check itself reads variable names out of error messages (C17)
    pub respell: bool,
}

impl Default for DiffCfg {
    fn default() -> Self {
        DiffCfg {
            range_identity_matters: true,
            compare_trace: true,
            gc: GcCfg::Default,
            quarantine: false,
            fuel: 3_000_000,
            respell: true,
        }
    }
}

/// Printed values between a "<<ms" and a ">>ms" marker are an unordered enumeration (map keys,
/// values, items): compare them as multisets by sorting each such segment.
pub fn sort_segments(mut v: Vec<String>) -> Vec<String> {
    let mut i = 0;
    while i < v.len() {
        if v[i] == "<<ms" {
            let mut j = i + 1;
            while j < v.len() && v[j] != ">>ms" {
                j += 1;
            }
            v[i + 1..j].sort();
            i = j;
        }
        i += 1;
    }
    v
}

pub fn is_compile_error(msgs: &[String]) -> bool {
    msgs.first()
        .map(|m| m.starts_with("[module \"") && m.contains("] Error"))
        .unwrap_or(false)
}

/// Expected messages of an uncaught error: head lines then one line per frame.
pub fn expected_messages(r: &crate::reval::Report) -> Vec<String> {
    let mut v: Vec<String> = Vec::new();
    // an opaque message may span several lines in yarel; only its first line is comparable
    let mut head_lines: Vec<&str> = r.head.lines().collect();
    if head_lines.is_empty() {
        head_lines.push("");
    }
    for l in head_lines {
        v.push(l.to_string());
    }
    for t in &r.trace {
        v.push(t.render());
    }
    v
}

pub fn compare_outcome(r: &RefOutcome, o: &Outcome, cfg: &DiffCfg) -> DiffVerdict {
    if let RefEnd::Discard(w) = &r.end {
        return DiffVerdict::Discard(w);
    }
    if let End::Panic(p) = &o.end {
        return DiffVerdict::Panic(p.clone());
    }
    if o.fuel_exhausted {
        return DiffVerdict::Discard("yarel instruction fuel");
    }
    if cfg.range_identity_matters && r.distinct_ranges > 8 && r.range_identity_observed {
        return DiffVerdict::Discard("more than 8 distinct ranges");
    }
    if let End::Err(_, msgs) = &o.end {
        if is_compile_error(msgs) {
            return DiffVerdict::Discard("compile error");
        }
    }
    let yout: Vec<String> = sort_segments(o.out.iter().map(|s| yrun::normalise_addr(s)).collect());
    // the same normalisation on both sides, so that data which merely looks like an address
    // cannot make them differ
    let rout = sort_segments(r.out.iter().map(|s| yrun::normalise_addr(s)).collect());
    let r_out = &rout;
    let n = r_out.len().min(yout.len());
    for i in 0..n {
        if !line_matches(&r_out[i], &yout[i]) {
            return DiffVerdict::Mismatch(format!(
                "print #{} differs: expected {:?}, yarel printed {:?}",
                i + 1,
                r_out[i],
                yout[i]
            ));
        }
    }
    if r_out.len() != yout.len() {
        return DiffVerdict::Mismatch(format!(
            "number of prints differs: expected {}, yarel {} (first extra: {:?})",
            r_out.len(),
            yout.len(),
            if r_out.len() > n { &r_out[n] } else { &yout[n] }
        ));
    }
    match (&r.end, &o.end) {
        (RefEnd::Ok, End::Ok(_)) => DiffVerdict::Agree,
        (RefEnd::Ok, End::Err(k, msgs)) => DiffVerdict::Mismatch(format!(
            "expected a normal end, yarel ended with {:?}: {:?}",
            k, msgs
        )),
        (RefEnd::Err(rep), End::Ok(_)) => DiffVerdict::Mismatch(format!(
            "expected an uncaught {} ({}), yarel ended normally",
            rep.class, rep.head
        )),
        (RefEnd::Err(rep), End::Err(k, msgs)) => {
            // the ErrorKind an embedder sees is defined for the core error classes and for thrown
            // non-error values; for a user-defined class nothing states whether it is the generic
            // kind or that of a core ancestor, so only the reported class name is compared
            let user_class = rep.class != "exception"
                && !["Error", "AttributeError", "ImportError", "IndexError", "NameError", "RuntimeError", "TypeError", "ValueError", "StopIter"]
                    .contains(&rep.class.as_str());
            if !user_class && yrun::kind_name(*k) != rep.kind {
                return DiffVerdict::Mismatch(format!(
                    "error kind differs: expected {}, yarel {:?} ({:?})",
                    rep.kind, k, msgs
                ));
            }
            let exp = expected_messages(rep);
            let ymsgs: Vec<String> = msgs.iter().map(|s| yrun::normalise_addr(s)).collect();
            // head
            let first_ok = ymsgs
                .first()
                .map(|m| line_matches(&exp[0], m))
                .unwrap_or(false);
            if !first_ok {
                return DiffVerdict::Mismatch(format!(
                    "error report differs: expected {:?}, yarel {:?}",
                    exp, ymsgs
                ));
            }
            // an exception that passed through a finally block before becoming uncaught has no
            // defined position (DESIGN.md Appendix B)
            let through_finally = rep.through_finally;
            if cfg.compare_trace && !through_finally {
                // compare the trace part from the end (the head may span several lines)
                let nt = rep.trace.len();
                if ymsgs.len() < nt + 1 {
                    return DiffVerdict::Mismatch(format!(
                        "trace too short: expected {:?}, yarel {:?}",
                        exp, ymsgs
                    ));
                }
                let ytrace = &ymsgs[ymsgs.len() - nt..];
                for (e, a) in rep.trace.iter().zip(ytrace.iter()) {
                    let ok = if e.line == 0 {
                        // unpinned line: compare everything but the number
                        let er = e.render();
                        let (pre, post) = er.split_once("line ?").unwrap();
                        a.starts_with(pre) && a.ends_with(post)
                    } else {
                        e.render() == *a
                    };
                    if !ok {
                        return DiffVerdict::Mismatch(format!(
                            "trace differs: expected {:?}, yarel {:?}",
                            exp, ymsgs
                        ));
                    }
                }
                let head_has_opaque = rep.head.contains(OPAQUE);
                if !head_has_opaque && ymsgs.len() != exp.len() {
                    return DiffVerdict::Mismatch(format!(
                        "report length differs: expected {:?}, yarel {:?}",
                        exp, ymsgs
                    ));
                }
            }
            DiffVerdict::Agree
        }
        (RefEnd::Discard(w), _) => DiffVerdict::Discard(w),
        (_, End::Panic(p)) => DiffVerdict::Panic(p.clone()),
    }
}

/// a variable declared by `var`, `for` or `catch` somewhere in the text (the `k`-th of them)
fn respell_candidate(source: &str, k: usize) -> Option<String> {
    let mut names: Vec<&str> = Vec::new();
    let toks: Vec<&str> = source.split(|c: char| !(c.is_alphanumeric() || c == '_')).filter(|t| !t.is_empty()).collect();
    for w in toks.windows(2) {
        if (w[0] == "var" || w[0] == "for" || w[0] == "catch") && w[1].chars().next().map(|c| c.is_alphabetic()).unwrap_or(false) && w[1].chars().any(|c| c.is_ascii_digit()) && !names.contains(&w[1]) {
            names.push(w[1]);
        }
    }
    if names.is_empty() {
        None
    } else {
        Some(names[k % names.len()].to_string())
    }
}

pub fn run_diff(p: &Program, noise: &[u8], cfg: &DiffCfg, rcfg: &RefCfg) -> DiffResult {
    crate::astutil::fix_lambda_names(p);
    let (mut source, modules) = render_program(p, noise);
    // One single-module program in six is written out with one of its variables spelled unusually
    // (`_`, a name that begins like a keyword, ...): which variable and which spelling is a function of
    // the program text. The program itself is unchanged - the reference interpreter runs the AST - so
    // only the scanner and the compiler's name resolution see the difference.
    if cfg.respell && p.modules.is_empty() {
        let h = crate::rd::fnv64(source.as_bytes());
        if h % 6 == 0 {
            if let Some(name) = respell_candidate(&source, (h >> 8) as usize) {
                const SPELLINGS: &[&str] = &["_", "__", "_0", "selfish", "nilly", "superb", "Selfie", "fnord", "inn", "trye", "variable", "iffy", "e1e5"];
                let to = SPELLINGS[((h >> 24) as usize) % SPELLINGS.len()];
                crate::pretty::RESPELL.with(|r| *r.borrow_mut() = Some((name, to.to_string())));
                source = render_program(p, noise).0;
                crate::pretty::RESPELL.with(|r| *r.borrow_mut() = None);
            }
        }
    }
    let r = run_program(p, rcfg);
    if let RefEnd::Discard(w) = &r.end {
        return DiffResult {
            verdict: DiffVerdict::Discard(w),
            source,
            modules,
            events: r.events,
            ref_out: r.out,
            ref_end: r.end,
            yarel: None,
            max_depth: r.max_depth,
            fiber_switches: r.fiber_switches,
        };
    }
    let ycfg = RunCfg {
        gc: cfg.gc,
        quarantine: cfg.quarantine,
        fuel: Some(cfg.fuel),
        modules: modules.clone(),
    };
    let o = yrun::run_source(&source, &ycfg);
    let verdict = compare_outcome(&r, &o, cfg);
    DiffResult {
        verdict,
        source,
        modules,
        events: r.events.clone(),
        ref_out: r.out,
        ref_end: r.end,
        yarel: Some(o),
        max_depth: r.max_depth,
        fiber_switches: r.fiber_switches,
    }
}

pub fn describe(d: &DiffResult) -> String {
    let mut s = String::new();
    s.push_str(&d.source);
    for (p, m) in &d.modules {
        s.push_str(&format!("\n--- module {} ---\n{}", p, m));
    }
    s.push_str("\n--- reference output ---\n");
    for l in &d.ref_out {
        s.push_str(l);
        s.push('\n');
    }
    s.push_str(&format!("--- reference end: {:?}\n", d.ref_end));
    if let Some(o) = &d.yarel {
        s.push_str("--- yarel output ---\n");
        for l in &o.out {
            s.push_str(&yrun::normalise_addr(l));
            s.push('\n');
        }
        s.push_str(&format!("--- yarel end: {:?}\n", o.end));
    }
    s.push_str(&format!("--- verdict: {:?}\n", d.verdict));
    s
}
