//! Loop programs with a bounded live set (C16; also used as allocation-heavy programs by C10 and
//! C01): each iteration allocates garbage of mixed kinds and overwrites one of K retained slots.

use std::cell::{Cell, RefCell};
use std::rc::Rc;

use crate::ast::*;
use crate::rd::Rd;

fn n(x: f64) -> Expr {
    Expr::num(x)
}
fn v(name: &str) -> Expr {
    Expr::var(name)
}

#[derive(Clone, Debug)]
pub struct AllocPlan {
    pub iterations: usize,
    pub keep: usize,
    pub kinds: Vec<usize>,
    pub retained_kind: usize,
    /// objects of a large structure built and dropped before the loop (0: none): the live set
    /// shrinks sharply, and the heap bound has to follow it down
    pub burst: usize,
    /// nodes of a linked list built before the loop and kept alive in a global for the whole run
    /// (0: none): live data reached only through a chain of that many references
    pub chain: usize,
}

pub const KINDS: usize = 12;

pub fn plan(data: &[u8], max_iter: usize, max_keep: usize) -> AllocPlan {
    plan_n(data, max_iter, max_keep, KINDS)
}

/// kinds beyond the first twelve: 12 and 13 create ranges whose bounds change with every iteration
/// (a loop range, a slice), 14 imports a module that does not compile and one that does (needs the
/// modules of `loop_modules` in the loader), 15 is a class declaration that fails half-way, 16 allocates
/// several objects in one native call or opcode
pub const KINDS_WITH_RANGES: usize = 14;
pub const KINDS_WITH_IMPORTS: usize = 17;

pub fn loop_modules() -> Vec<(String, String)> {
    vec![
        ("goodmod".to_string(), "var tag = \"good\";\nfn one() { return 1; }\n".to_string()),
        ("badmod".to_string(), "var tag = \"bad\";\nfn broken( { return 1; }\nvar more = [1, 2, 3];\n".to_string()),
    ]
}

pub fn plan_n(data: &[u8], max_iter: usize, max_keep: usize, nkinds: usize) -> AllocPlan {
    let mut rd = Rd::new(data, 1000);
    let iterations = 50 + rd.below(max_iter.saturating_sub(50).max(1));
    let keep = match rd.below(6) {
        0 => 0,
        1 => 1 + rd.below(8),
        2 => 1 + rd.below(200),
        _ => 1 + rd.below(max_keep.max(1)),
    };
    let k = 1 + rd.below(4);
    let mut kinds = Vec::new();
    for _ in 0..k {
        kinds.push(rd.below(nkinds));
    }
    let retained_kind = rd.below(8);
    let burst = if rd.chance(1, 3) { 500 + rd.below(6000) } else { 0 };
    let chain = if rd.chance(1, 6) { 200 + rd.below(3800) } else { 0 };
    AllocPlan { iterations, keep, kinds, retained_kind, burst, chain }
}

fn lam(name: &str, params: &[&str], body: Expr) -> Expr {
    Expr::Lambda(Rc::new(FnDef {
        name: RefCell::new(name.to_string()),
        params: params.iter().map(|s| s.to_string()).collect(),
        body: Body::Expr(Box::new(body)),
        kind: FnKind::Lambda,
    }))
}

/// statements allocating one piece of garbage of the given kind (uses loop variable `i`, adds to `acc`)
fn garbage(kind: usize, out: &mut Vec<Stmt>) {
    let acc_add = |e: Expr| Stmt::expr(Expr::assign_var("acc", Expr::bin(BinOp::Add, v("acc"), e)));
    match kind {
        0 => {
            out.push(Stmt::var("g", Some(Expr::VecLit(vec![v("i"), Expr::bin(BinOp::Add, v("i"), n(1.0))]))));
            out.push(acc_add(Expr::invoke(v("g"), "len", vec![])));
        }
        1 => {
            out.push(Stmt::var("g", Some(Expr::TupleLit(vec![v("i"), Expr::str("s"), Expr::TupleLit(vec![v("i")])]))));
            out.push(acc_add(Expr::invoke(v("g"), "len", vec![])));
        }
        2 => {
            out.push(Stmt::var("g", Some(Expr::MapLit(vec![(v("i"), Expr::VecLit(vec![v("i")]))], ln()))));
            out.push(acc_add(Expr::invoke(v("g"), "len", vec![])));
        }
        3 => {
            out.push(Stmt::var("g", Some(Expr::invoke(v("Node"), "new", vec![v("i")]))));
            out.push(acc_add(Expr::invoke(v("g"), "get", vec![])));
        }
        4 => {
            out.push(Stmt::var("g", Some(lam("lambda-0", &[], v("i")))));
            out.push(acc_add(Expr::callv("g", vec![])));
        }
        5 => {
            out.push(Stmt::var("o", Some(Expr::invoke(v("Node"), "new", vec![v("i")]))));
            out.push(Stmt::var("g", Some(Expr::get(v("o"), "get"))));
            out.push(acc_add(Expr::callv("g", vec![])));
        }
        6 => {
            out.push(Stmt::var("g", Some(Expr::invoke(Expr::VecLit(vec![v("i"), n(2.0)]), "iter", vec![]))));
            out.push(acc_add(Expr::invoke(v("g"), "next", vec![])));
        }
        7 => {
            // a fiber run to completion
            out.push(Stmt::var("g", Some(Expr::invoke(v("Fiber"), "new", vec![lam("lambda-1", &[], Expr::VecLit(vec![v("i")]))]))));
            out.push(acc_add(Expr::invoke(Expr::invoke(v("g"), "call", vec![]), "len", vec![])));
        }
        8 => {
            // a fiber abandoned while suspended
            out.push(Stmt::var(
                "g",
                Some(Expr::invoke(
                    v("Fiber"),
                    "new",
                    vec![lam("lambda-2", &[], Expr::invoke(v("Fiber"), "yield", vec![Expr::VecLit(vec![v("i"), v("i")])]))],
                )),
            ));
            out.push(acc_add(Expr::invoke(Expr::invoke(v("g"), "call", vec![]), "len", vec![])));
        }
        9 => {
            // an error object that is caught
            out.push(Stmt::new(StmtKind::Try(
                vec![Stmt::expr(Expr::bin(BinOp::Add, Expr::Nil, v("i")))],
                Some(("e".into(), vec![acc_add(n(1.0))])),
                None,
            )));
        }
        10 => {
            // iterator adapters and collect
            out.push(Stmt::var(
                "g",
                Some(Expr::invoke(
                    Expr::invoke(Expr::invoke(Expr::VecLit(vec![v("i"), n(1.0), n(2.0)]), "iter", vec![]), "map", vec![lam("lambda-3", &["x"], Expr::bin(BinOp::Add, v("x"), n(1.0)))]),
                    "collect",
                    vec![],
                )),
            ));
            out.push(acc_add(Expr::invoke(v("g"), "len", vec![])));
        }
        12 => {
            // a loop over a range whose bounds are new in every iteration
            out.push(Stmt::new(StmtKind::For(
                "q".into(),
                Expr::range(v("i"), Expr::bin(BinOp::Add, v("i"), n(2.0))),
                vec![acc_add(n(1.0))],
            )));
        }
        13 => {
            // slices with bounds that change with the iteration; a range value kept in a local
            out.push(Stmt::var("g", Some(Expr::index(Expr::VecLit(vec![n(1.0), n(2.0), n(3.0), n(4.0), n(5.0)]), Expr::range(Expr::bin(BinOp::Mod, v("i"), n(4.0)), n(5.0))))));
            out.push(Stmt::var("r", Some(Expr::range(n(0.0), v("i")))));
            out.push(acc_add(Expr::invoke(v("g"), "len", vec![])));
        }
        14 => {
            // an import that fails to compile (caught), and one that succeeds (loaded once)
            out.push(Stmt::new(StmtKind::Try(
                vec![Stmt::new(StmtKind::Import("badmod".into(), None)), acc_add(n(1000.0))],
                Some(("e".into(), vec![acc_add(n(1.0))])),
                None,
            )));
            out.push(Stmt::new(StmtKind::Import("goodmod".into(), None)));
            out.push(acc_add(Expr::invoke(v("goodmod"), "one", vec![])));
        }
        15 => {
            // a class declaration that fails half-way (its superclass is not a class), caught
            out.push(Stmt::var("notaclass", Some(v("i"))));
            out.push(Stmt::new(StmtKind::Try(
                vec![Stmt::new(StmtKind::Class(Rc::new(ClassDef {
                    name: "Halfway".into(),
                    superclass: Some("notaclass".into()),
                    default_ctor: Some("new".into()),
                    methods: vec![],
                    attr_line: Cell::new(0),
                })))],
                Some(("e".into(), vec![acc_add(n(1.0))])),
                None,
            )));
        }
        16 => {
            // natives and opcodes that allocate several objects in one go: the entries of a map with a
            // dozen entries, a closure over three variables
            out.push(Stmt::var("mm", Some(Expr::MapLit((0..12).map(|k| (n(k as f64), Expr::VecLit(vec![v("i")]))).collect(), ln()))));
            out.push(acc_add(Expr::invoke(Expr::invoke(v("mm"), "items", vec![]), "len", vec![])));
            out.push(acc_add(Expr::invoke(Expr::invoke(v("mm"), "keys", vec![]), "len", vec![])));
            out.push(Stmt::var("c1", Some(v("i"))));
            out.push(Stmt::var("c2", Some(Expr::VecLit(vec![v("i")]))));
            out.push(Stmt::var("c3", Some(n(3.0))));
            out.push(Stmt::var("g", Some(lam("lambda-7", &[], Expr::bin(BinOp::Add, Expr::bin(BinOp::Add, v("c1"), Expr::invoke(v("c2"), "len", vec![])), v("c3"))))));
            out.push(acc_add(Expr::callv("g", vec![])));
        }
        _ => {
            // strings from a fixed pool (interned strings are retained by design)
            out.push(Stmt::var("g", Some(Expr::bin(BinOp::Add, Expr::str("ab"), Expr::index(Expr::str("xyz"), Expr::bin(BinOp::Mod, v("i"), n(3.0)))))));
            out.push(acc_add(Expr::invoke(v("g"), "len", vec![])));
        }
    }
}

fn retained(kind: usize) -> Expr {
    match kind {
        0 => Expr::VecLit(vec![v("i"), v("i"), v("i")]),
        1 => Expr::TupleLit(vec![v("i"), Expr::VecLit(vec![v("i")])]),
        2 => Expr::invoke(v("Node"), "new", vec![v("i")]),
        3 => lam("lambda-4", &[], v("i")),
        4 => Expr::MapLit(vec![(v("i"), v("i"))], ln()),
        6 => {
            // a fiber run to completion by another fiber, which looked at the previously kept one:
            // a finished fiber must not keep its caller (and through it every earlier one) alive
            let inner = Expr::Lambda(Rc::new(FnDef {
                name: RefCell::new("lambda-6".to_string()),
                params: vec![],
                body: Body::Expr(Box::new(n(1.0))),
                kind: FnKind::Lambda,
            }));
            let prev_index = Expr::bin(
                BinOp::Mod,
                Expr::bin(BinOp::Sub, Expr::bin(BinOp::Add, v("i"), Expr::invoke(v("keep"), "len", vec![])), n(1.0)),
                Expr::invoke(v("keep"), "len", vec![]),
            );
            let outer = Expr::Lambda(Rc::new(FnDef {
                name: RefCell::new("lambda-5".to_string()),
                params: vec![],
                body: Body::Block(vec![
                    Stmt::var("prev", Some(Expr::index(v("keep"), prev_index))),
                    Stmt::var("scratch", Some(Expr::VecLit(vec![v("i"), v("prev")]))),
                    Stmt::var("inner", Some(Expr::invoke(v("Fiber"), "new", vec![inner]))),
                    Stmt::expr(Expr::invoke(v("inner"), "call", vec![])),
                    Stmt::new(StmtKind::Return(Some(v("inner")))),
                ]),
                kind: FnKind::Lambda,
            }));
            Expr::invoke(Expr::invoke(v("Fiber"), "new", vec![outer]), "call", vec![])
        }
        7 => {
            // a closure over a local of a fresh fiber that was handed the previously kept value (the
            // closure made by the previous such fiber): the fiber finishes, so only the closure and
            // its one captured number stay; a finished fiber's stack, arguments and locals - and what
            // they reference, the whole chain of earlier stages - must not be kept by the closure
            let prev_index = Expr::bin(
                BinOp::Mod,
                Expr::bin(BinOp::Sub, Expr::bin(BinOp::Add, v("i"), Expr::invoke(v("keep"), "len", vec![])), n(1.0)),
                Expr::invoke(v("keep"), "len", vec![]),
            );
            let stage = Expr::Lambda(Rc::new(FnDef {
                name: RefCell::new("lambda-8".to_string()),
                params: vec!["prev".to_string()],
                body: Body::Block(vec![
                    Stmt::var("x", Some(v("i"))),
                    Stmt::var("scratch", Some(Expr::VecLit(vec![v("i"), v("prev")]))),
                    Stmt::new(StmtKind::Return(Some(lam("lambda-9", &[], v("x"))))),
                ]),
                kind: FnKind::Lambda,
            }));
            Expr::invoke(Expr::invoke(v("Fiber"), "new", vec![stage]), "call", vec![Expr::index(v("keep"), prev_index)])
        }
        _ => Expr::get(Expr::invoke(v("Node"), "new", vec![v("i")]), "get"),
    }
}

pub fn program(p: &AllocPlan, iterations: usize) -> Program {
    let mut main: Vec<Stmt> = Vec::new();
    // class Node { new(v) { self.v = v; } get() { return self.v; } }
    main.push(Stmt::new(StmtKind::Class(Rc::new(ClassDef {
        name: "Node".into(),
        superclass: None,
        default_ctor: None,
        methods: vec![
            Rc::new(FnDef {
                name: RefCell::new("new".into()),
                params: vec!["v".into()],
                body: Body::Block(vec![Stmt::expr(Expr::assign(Target::Prop(Expr::SelfE, "v".into()), v("v")))]),
                kind: FnKind::Init,
            }),
            Rc::new(FnDef {
                name: RefCell::new("get".into()),
                params: vec![],
                body: Body::Block(vec![Stmt::new(StmtKind::Return(Some(Expr::get(Expr::SelfE, "v"))))]),
                kind: FnKind::Method,
            }),
        ],
        attr_line: Cell::new(0),
    }))));
    main.push(Stmt::var("acc", Some(n(0.0))));
    main.push(Stmt::var("keep", Some(Expr::VecLit(vec![]))));
    if p.keep > 0 {
        main.push(Stmt::new(StmtKind::For(
            "j".into(),
            Expr::range(n(0.0), n(p.keep as f64)),
            vec![Stmt::expr(Expr::invoke(v("keep"), "push", vec![Expr::Nil]))],
        )));
    }
    if p.burst > 0 {
        // build a large structure, then drop it
        main.push(Stmt::var("big", Some(Expr::VecLit(vec![]))));
        main.push(Stmt::new(StmtKind::For(
            "b".into(),
            Expr::range(n(0.0), n(p.burst as f64)),
            vec![Stmt::expr(Expr::invoke(v("big"), "push", vec![Expr::VecLit(vec![v("b"), Expr::str("x")])]))],
        )));
        main.push(Stmt::print(Expr::invoke(v("big"), "len", vec![])));
        main.push(Stmt::expr(Expr::assign_var("big", Expr::Nil)));
    }
    if p.chain > 0 {
        // var chain = nil; for c in 0..N { chain = Node.new(chain); }
        main.push(Stmt::var("chain", Some(Expr::Nil)));
        main.push(Stmt::new(StmtKind::For(
            "c".into(),
            Expr::range(n(0.0), n(p.chain as f64)),
            vec![Stmt::expr(Expr::assign_var("chain", Expr::invoke(v("Node"), "new", vec![v("chain")])))],
        )));
    }
    let mut body: Vec<Stmt> = Vec::new();
    for k in &p.kinds {
        let mut b = Vec::new();
        garbage(*k, &mut b);
        body.push(Stmt::new(StmtKind::Block(b)));
    }
    if p.keep > 0 {
        body.push(Stmt::expr(Expr::assign(
            Target::Index(v("keep"), Expr::bin(BinOp::Mod, v("i"), n(p.keep as f64))),
            retained(p.retained_kind),
        )));
    }
    main.push(Stmt::new(StmtKind::For("i".into(), Expr::range(n(0.0), n(iterations as f64)), body)));
    main.push(Stmt::print(v("acc")));
    main.push(Stmt::print(Expr::invoke(v("keep"), "len", vec![])));
    Program { main, modules: vec![] }
}

pub fn from_bytes(data: &[u8]) -> (Program, Vec<&'static str>) {
    let p = plan(data, 600, 300);
    (program(&p, p.iterations), vec!["alloc_loop"])
}
