#!/bin/bash
# try_all_seeds.sh [log] — every seeded change against the check of its own property (and, when that
# misses, against the checks listed in its meta.json "also" field or given in ALSO_<seed> below).
set -u
LOG="${1:-/verif/work/seeds.log}"
mkdir -p "$(dirname "$LOG")"; : > "$LOG"
cd /verif
for d in seeded/*/; do
  s=$(basename "$d"); id=${s%%-*}
  r=$(tools/try_seed.sh "$d/patch.diff" "$id" 2>&1 | tail -1)
  echo "$s $r" | tee -a "$LOG"
  case "$r" in
    *MISSED*|*INCONCLUSIVE*)
      for other in $(python3 -c "import json,sys;print(' '.join(json.load(open('$d/meta.json')).get('also_checked_by',[])))" 2>/dev/null); do
        r2=$(tools/try_seed.sh "$d/patch.diff" "$other" 2>&1 | tail -1)
        echo "$s (via $other) $r2" | tee -a "$LOG"
      done;;
  esac
done
