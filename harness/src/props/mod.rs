pub mod c03;

use crate::engine::Property;

pub fn all() -> Vec<Box<dyn Property>> {
    vec![Box::new(c03::C03::new())]
}
