//! Generator profiles per property.

use crate::gen::{Profile, Triggers};

pub fn c05() -> Profile {
    let mut p = Profile::base("c05");
    p.illtyped = 3;
    p
}

pub fn c06() -> Profile {
    let mut p = Profile::base("c06");
    p.w_fn = 8;
    p.w_block = 5;
    p.w_var = 10;
    p.w_assign = 10;
    p.w_for = 4;
    p.w_while = 3;
    p.illtyped = 1;
    p.max_depth = 5;
    p.size = 80;
    p.w_closure = 8;
    // scopes are also left by exceptions, and a handler's variable is a variable like any other
    p.w_try = 2;
    p.w_throw = 1;
    p
}

pub fn c07() -> Profile {
    let mut p = Profile::base("c07");
    p.w_class = 10;
    p.w_fn = 2;
    p.illtyped = 1;
    p.size = 90;
    p
}

pub fn c08() -> Profile {
    let mut p = Profile::base("c08");
    p.w_try = 10;
    p.w_throw = 6;
    p.w_fn = 5;
    p.w_call_stmt = 6;
    p.illtyped = 2;
    p.guard = 4;
    p.size = 80;
    p
}

pub fn c09() -> Profile {
    let mut p = Profile::base("c09");
    p.w_fiber = 8;
    p.w_try = 2;
    p.w_throw = 1;
    p.illtyped = 1;
    p.size = 80;
    p
}

pub fn c18() -> Profile {
    let mut p = Profile::base("c18");
    p.w_iterchain = 8;
    p.w_for = 8;
    p.w_class = 0;
    p.illtyped = 1;
    p
}

pub fn mixed() -> Profile {
    let mut p = Profile::base("mixed");
    p.w_class = 3;
    p.w_try = 3;
    p.w_throw = 2;
    p.w_fiber = 2;
    p.w_iterchain = 2;
    p.size = 100;
    p
}

pub fn with_triggers(mut p: Profile) -> Profile {
    p.triggers = Triggers::all();
    p
}

/// Finally blocks with everything in them (declarations, loops, nested try statements, calls of
/// functions that contain try statements, fibers): the two recorded findings about finally blocks
/// *entered by an exception* (E8, E9) are switched on, all others stay off, so a finally block reached
/// by a return, a break or the normal end of its try block is checked in full.
pub fn rich_finally(mut p: Profile) -> Profile {
    p.triggers.e8 = true;
    p.triggers.e9 = true;
    p.w_return += 3;
    p
}

/// Exceptions inside methods, constructors, static methods and fiber bodies.
pub fn c08_members() -> Profile {
    let mut p = c08();
    p.name = "c08m";
    p.w_class = 5;
    p.w_fiber = 2;
    p.size = 100;
    p
}

pub fn by_name(n: &str) -> Option<Profile> {
    Some(match n {
        "c05" => c05(),
        "c06" => c06(),
        "c07" => c07(),
        "c08" => c08(),
        "c08t" => with_triggers(c08()),
        "c08f" => rich_finally(c08()),
        "c08m" => c08_members(),
        "c09" => c09(),
        "c18" => c18(),
        "mixed" => mixed(),
        "mixedt" => with_triggers(mixed()),
        _ => return None,
    })
}
