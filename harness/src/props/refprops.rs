//! C05–C09, C18: properties decided by differential runs against the reference interpreter.

use std::collections::BTreeMap;

use crate::diff::{DiffCfg, DiffResult};
use crate::profiles;
use crate::props::diffprop::{DiffProp, Fam};

type Ev = BTreeMap<&'static str, u32>;

fn ev(e: &Ev, k: &str) -> u32 {
    e.get(k).copied().unwrap_or(0)
}

fn has(l: &[&'static str], k: &str) -> bool {
    l.iter().any(|x| *x == k)
}

fn nt_c05(_l: &[&'static str], e: &Ev, _d: &DiffResult) -> bool {
    ev(e, "break_exec") + ev(e, "continue_exec") + ev(e, "return_exec") + ev(e, "short_circuit") > 0
        || e.keys().any(|k| k.starts_with("err:"))
}

fn nt_c06(_l: &[&'static str], e: &Ev, _d: &DiffResult) -> bool {
    (ev(e, "captured_write") > 0 && ev(e, "captured_read") > 0)
        // module programs: a function of an imported module ran (its free names are that module's)
        || (ev(e, "import") >= 2 && ev(e, "import_again") > 0)
}

fn nt_c07(_l: &[&'static str], e: &Ev, _d: &DiffResult) -> bool {
    ev(e, "super_call") > 0 || ev(e, "inherited_lookup") > 0 || ev(e, "bound_call") > 0
}

fn nt_c08(_l: &[&'static str], e: &Ev, _d: &DiffResult) -> bool {
    ev(e, "caught_nested") > 0
        || ev(e, "caught_from_callee") > 0
        || ev(e, "finally_pending_throw") + ev(e, "finally_pending_exit") > 0
}

fn nt_c09(_l: &[&'static str], e: &Ev, d: &DiffResult) -> bool {
    (ev(e, "fiber_yielded") >= 2 && d.fiber_switches >= 3)
        || ((ev(e, "fiber_call_finished") + ev(e, "fiber_call_running") + ev(e, "yield_at_root")) > 0
            && ev(e, "fiber_yielded") + ev(e, "fiber_returned") > 0)
        // module programs: a fiber was switched to while more than one module was loaded
        || (ev(e, "import") >= 1 && d.fiber_switches >= 2)
}

fn nt_c18(l: &[&'static str], e: &Ev, _d: &DiffResult) -> bool {
    has(l, "iter_chain") && (ev(e, "for:tuple") + ev(e, "for:range") + ev(e, "for:str") + ev(e, "for:instance") + ev(e, "for:iter") > 0)
        || ev(e, "break_exec") + ev(e, "continue_exec") > 0 && ev(e, "for:vec") + ev(e, "for:range") > 0
}

pub fn c05() -> DiffProp {
    DiffProp {
        id: "C05",
        families: vec![
            Fam::profile("expr", profiles::c05(), 120_000, 1_000_000, 600),
            Fam::profile("expr_illtyped", { let mut p = profiles::c05(); p.illtyped = 6; p }, 30_000, 200_000, 600),
        ],
        rule: "cases: byte strings decoded by the grammar-based program generator (profile c05: every unary/binary/logical operator, ranges, indexing/slicing, interpolation, assignment and compound assignment, if/else-if/else, while, for, break, continue, blocks, return; operands of every value kind; minimal or redundant parentheses). Oracle: reference interpreter over the AST vs yarel on the rendered text: printed values, final outcome, error class and trace. Non-trivial: the run executed a break/continue/return/short-circuit or raised a built-in error; distinct by hash of the program text.",
        nontrivial: nt_c05,
        floors: vec![("gen:compound_assign", 2000), ("ev:short_circuit", 2000), ("ev:err:TypeError", 2000), ("ev:break_exec", 100), ("ev:continue_exec", 100), ("ev:err:IndexError", 300), ("ev:err:ValueError", 20)],
        assumptions: vec![],
    }
}

pub fn c06() -> DiffProp {
    DiffProp {
        id: "C06",
        families: vec![
            Fam::profile("scopes", profiles::c06(), 100_000, 800_000, 700),
            // the same scoping shapes with fibers among them: closures created inside a fiber's body,
            // before and after a yield, sharing the fiber's locals with each other and with the caller
            Fam::profile("scopes_fibers", { let mut p = profiles::c06(); p.name = "c06f"; p.w_fiber = 5; p.w_try = 1; p }, 30_000, 250_000, 700),
            // free names across module boundaries: a name that is not a local or a captured variable is
            // the global of the module whose text contains the use - looked up when the use executes,
            // wherever the function is called from - and never a global of main or of the importer
            Fam::custom("scopes_modules", Box::new(crate::gen_mod::program), 20_000, 150_000, 260),
        ],
        rule: "cases: generated programs (profile c06: nested blocks, functions, lambdas and loops to depth 5, shadowing, closures stored in variables and called later, closures assigning captured variables, parameters and loop-body variables captured, global redefinition; family scopes_fibers adds fibers whose bodies declare, capture and write variables across yields). Family 'scopes_modules': generated module graphs (the C14 generator): functions, closures and fiber bodies of one module called from another, names defined in several modules and in main under the same spelling, built-ins replaced by main or by a module for itself — a free name means the global of the module whose text contains the use. Oracle: reference interpreter (variables are heap cells in persistent scope lists) vs yarel. Non-trivial: a variable was written from a call frame other than the one that declared it and a captured variable was read, or (module programs) >=2 imports of which one names a module already loaded; distinct by program text.",
        nontrivial: nt_c06,
        floors: vec![("gen:shadow", 2000), ("gen:lambda", 3000), ("ev:captured_write", 300), ("ev:captured_read", 3000)],
        assumptions: vec![],
    }
}

pub fn c07() -> DiffProp {
    DiffProp {
        id: "C07",
        families: vec![Fam::profile("classes", profiles::c07(), 100_000, 800_000, 900)],
        rule: "cases: generated programs (profile c07: class hierarchies with overriding, fields shadowing methods, static methods and Self, default and explicit constructors with and without super.new, super.m() and bound super.m, self-dispatch, bound methods stored and called later, wrong arity, unknown members, type() and derives()). Oracle: reference interpreter vs yarel. Non-trivial: a super call, a method found in an ancestor, or a bound method call was executed; distinct by program text.",
        nontrivial: nt_c07,
        floors: vec![("gen:class_derived", 1500), ("ev:super_call", 300), ("ev:inherited_lookup", 1000), ("ev:bound_call", 1000), ("gen:static_method", 1000)],
        assumptions: vec!["super used inside a function nested in a method is excluded (recorded finding S1)"],
    }
}

pub fn c08() -> DiffProp {
    DiffProp {
        id: "C08",
        families: vec![
            Fam::profile("exceptions", profiles::c08(), 100_000, 800_000, 800),
            Fam::profile("exceptions_triggers", profiles::with_triggers(profiles::c08()), 15_000, 100_000, 800),
            Fam::profile("exceptions_rich_finally", profiles::rich_finally(profiles::c08()), 30_000, 250_000, 800),
            Fam::profile("exceptions_in_members", profiles::c08_members(), 30_000, 250_000, 900),
        ],
        rule: "cases: generated programs (profile c08: try/catch, try/finally, try/catch/finally nested and interleaved with loops, functions and closures; explicit throws of any value, built-in failures, throws from callees; rethrow). Family 'exceptions' keeps recorded-defect shapes off, 'exceptions_triggers' turns them on and counts failures that match a recorded finding, 'exceptions_rich_finally' turns on only the two about finally blocks entered by an exception, so that finally blocks with declarations, loops, nested try statements and calls inside are checked in full whenever they are reached by a return, a break or the normal end of the try block, 'exceptions_in_members' adds classes and fibers to the profile, so that try statements, throws and returns through finally blocks occur inside methods, static methods, constructors (where a bare return stands for the instance) and fiber bodies. Oracle: reference interpreter (finally always runs once, then the saved outcome continues) vs yarel. Non-trivial: an exception was caught with >=2 try statements active, or from a callee, or a finally ran with a pending outcome; distinct by program text.",
        nontrivial: nt_c08,
        floors: vec![("ev:caught", 5000), ("ev:caught_nested", 500), ("ev:caught_from_callee", 200), ("ev:finally_normal", 500), ("ev:finally_pending_throw", 100)],
        assumptions: vec!["shapes of the recorded findings (KNOWN_FINDINGS.txt, signatures ref-mismatch+E*) are excluded from the bulk family by construction and counted in the trigger family"],
    }
}

pub fn c09() -> DiffProp {
    DiffProp {
        id: "C09",
        families: vec![
            Fam::profile("fibers", profiles::c09(), 80_000, 600_000, 800),
            // fibers whose bodies were defined in one module and are first called, resumed and finished
            // from another: the fiber keeps its own module's globals from its first instruction on
            Fam::custom("fibers_modules", Box::new(crate::gen_mod::program), 20_000, 150_000, 260),
        ],
        rule: "cases: generated programs (profile c09: fibers whose bodies yield from loops, nested function frames and try blocks, return values, take parameters; drivers that call with and without values, too few/many times, with wrong argument counts, query has_finished); family 'fibers_modules': generated module graphs (the C14 generator) in which module functions are fiber bodies, called first and resumed from other modules, so that a fiber has to keep the globals of the module its body was written in. Oracle: reference interpreter with stackful coroutines vs yarel. Non-trivial: >=2 yields and >=3 switches, or a rejected misuse next to successful transfers, or (module programs) >=2 fiber switches with an imported module loaded; distinct by program text.",
        nontrivial: nt_c09,
        floors: vec![("ev:fiber_yielded", 5000), ("ev:fiber_returned", 1000), ("ev:fiber_call_finished", 300), ("gen:yield_nested_frame", 500), ("gen:try_spans_yield", 500)],
        assumptions: vec![],
    }
}

pub fn c18() -> DiffProp {
    DiffProp {
        id: "C18",
        families: vec![Fam::profile("iteration", profiles::c18(), 100_000, 800_000, 700)],
        rule: "cases: generated programs (profile c18: for loops over vectors, tuples, ascending/descending/empty ranges, strings with multi-byte characters, non-iterables; chains of map/filter ending in collect/reduce/for; break/continue/return inside loops; push during iteration). Oracle: reference interpreter, whose map/filter/reduce/collect are a frozen copy of the core library evaluated by the same tree walker, vs yarel. Non-trivial: an adapter chain over a non-vector iterable, or a break/continue executed inside a for loop; distinct by program text.",
        nontrivial: nt_c18,
        floors: vec![("gen:iter_chain", 5000), ("ev:for:range", 2000), ("ev:for:str", 300), ("ev:for:tuple", 300), ("ev:for:iter", 500)],
        assumptions: vec![],
    }
}

fn nt_c12(l: &[&'static str], _e: &Ev, _d: &DiffResult) -> bool {
    has(l, "get_after_remove") && l.iter().filter(|x| **x == "insert").count() >= 4
}

/// `==` and the map must agree on every pair of keys, whatever `==` answers: the program prints only
/// the truth value of "k2 denotes k1's entry exactly when k1 == k2", so no model of equality (range
/// identity and the interpreter's range cache included) is needed to judge it.
pub fn key_pairs_case(bytes: &[u8]) -> String {
    use crate::rd::Rd;
    let mut rd = Rd::new(bytes, 2_000);
    const KEYS: &[&str] = &[
        "1", "1.0", "(2 - 1)", "0", "-0", "(0 * -1)", "(0 / 0)", "true", "false", "nil", "\"a\"", "(\"\" + \"a\")", "\"ab\"[0]", "\"\"",
        "(1, 2)", "(1, (2,))", "(2, 1)", "()", "(0,)", "(-0,)", "(nil,)", "((),)", "(1, \"a\")", "String", "Vec", "\"Vec\"", "Error",
        "(0..3)", "(3..0)", "(0..0)", "(1..1)", "((0..3), 1)", "((3..0), 1)", "(0 / 0, 1)", "((0 / 0,), \"a\")",
    ];
    let mut s = String::new();
    let pairs = 1 + rd.below(4);
    for p in 0..pairs {
        let (k1, k2) = if rd.chance(1, 2) {
            // a range pair: equal bounds, built before and after 0-12 other ranges, so that the second
            // may or may not be the same object as the first
            let a = rd.below(4) as i64;
            let b = rd.below(5) as i64;
            let wrap = rd.below(3);
            let lit = match wrap {
                0 => format!("({}..{})", a, b),
                1 => format!("(({}..{}), 1)", a, b),
                _ => format!("(\"k\", ({}..{}))", a, b),
            };
            (lit.clone(), lit)
        } else {
            (rd.pick_str(KEYS).to_string(), rd.pick_str(KEYS).to_string())
        };
        let churn = rd.below(13);
        s.push_str(&format!("var a{} = {};\nvar m{} = {{}};\nm{}.insert(a{}, \"first\");\n", p, k1, p, p, p));
        if churn > 0 {
            let items: Vec<String> = (0..churn).map(|i| format!("({}..{})", 40 + p * 20 + i, 41 + p * 20 + i)).collect();
            s.push_str(&format!("var churn{} = [{}];\n", p, items.join(", ")));
        }
        s.push_str(&format!("var b{} = {};\nvar same{} = a{} == b{};\n", p, k2, p, p, p));
        s.push_str(&format!("print(m{}.has_key(b{}) == same{});\n", p, p, p));
        s.push_str(&format!("print((m{}.get(b{}) == \"first\") == same{});\n", p, p, p));
        s.push_str(&format!("m{}.insert(b{}, \"second\");\nprint((m{}.len() == 1) == same{});\n", p, p, p, p));
        s.push_str(&format!("print(m{}.has_key(a{}) == (a{} == a{}));\n", p, p, p, p));
        s.push_str(&format!("print(({{(a{}, 1): 1}}.has_key((b{}, 1))) == ((a{}, 1) == (b{}, 1)));\n", p, p, p, p));
        s.push_str(&format!("print((m{}.keys().len() == 1) == same{});\n", p, p));
        // a key that equals itself is found and removed again (leaving nothing if it was a's entry, a's
        // entry otherwise); one that does not (NaN) was stored as an entry nothing can find
        s.push_str(&format!(
            "m{p}.remove(b{p});\nprint(((b{p} == b{p}) && ((m{p}.len() == 0) == same{p})) || (!(b{p} == b{p}) && m{p}.len() == 2));\n",
            p = p
        ));
    }
    s.push_str("print(\"end\");\n");
    s
}

fn key_pairs_run(bytes: &[u8], ctx: &mut crate::engine::CaseCtx) -> crate::engine::Verdict {
    use crate::engine::Verdict;
    use crate::yrun::{self, End, RunCfg};
    let src = key_pairs_case(bytes);
    let o = yrun::run_source(&src, &RunCfg::default());
    let fail = |sig: &str, what: String| Verdict::Fail { sig: sig.to_string(), detail: format!("{}\noutput {:?}\n{}", what, o.out, src) };
    match &o.end {
        End::Panic(p) => return fail(&format!("panic:{}", crate::props::c03::sig_of_panic(p)), format!("yarel panicked: {}", p)),
        End::Err(k, m) => return fail("key-pair-program-failed", format!("only hashable keys are used, yet the run ended with {:?}: {:?}", k, m)),
        End::Ok(_) => {}
    }
    if o.out.last().map(|s| s.as_str()) != Some("end") {
        return fail("key-pair-program-failed", "the program did not reach its end".into());
    }
    if let Some(i) = o.out.iter().position(|l| l != "true" && l != "end") {
        return fail("map-disagrees-with-equality", format!("print #{} is {:?}: the map and the == operator disagree about whether two keys are the same key", i + 1, o.out[i]));
    }
    ctx.label("gen:key_pairs");
    if src.contains("churn") {
        ctx.label("gen:key_pair_after_range_churn");
    }
    Verdict::Pass { nontrivial: true, hash: crate::rd::fnv64(src.as_bytes()) }
}

pub fn c12() -> DiffProp {
    let mut pairs = Fam::custom("key_pairs", Box::new(|_b: &[u8]| (crate::ast::Program { main: vec![], modules: vec![] }, vec![])), 20_000, 200_000, 60);
    pairs.direct = Some((key_pairs_case, key_pairs_run));
    DiffProp {
        id: "C12",
        families: vec![Fam::custom("map_history", Box::new(crate::gen_map::program), 100_000, 1_000_000, 200), pairs],
        rule: "cases: histories (up to 60 operations on two maps) of literal construction, insert, remove, get, has_key, clear, len, keys/values/items and map == over a per-history key pool drawn from 47 key expressions: equal keys built differently (1, 2-1, 0.5+0.5; 0, -0, 0*-1; \"ab\", \"a\"+\"b\", a slice; equal tuples and nested tuples built separately; tuples with 0 vs -0), hash-colliding tuples, NaN, tuples containing NaN (each equal to itself only, as one object), booleans, nil, classes, ranges, and unhashable values; a sixth of the histories use up to 48 distinct numeric keys to force growth, one in twelve builds a map from a literal with 100-255 further entries and probes its first, middle and last entries. Oracle: association-list map with the language's == (reference interpreter); enumerations compared as multisets; unhashable keys must give ValueError and leave the map unchanged (final full scan). Non-trivial: a lookup after a removal with >=4 inserts; distinct by program text. Family key_pairs: 1-4 pairs of hashable key expressions (35 expressions incl. equal numbers, zeros, NaN, strings, tuples, classes, ranges; half of the pairs are two ranges with equal bounds, bare or inside a tuple, built before and after 0-12 other ranges so that the second may or may not be the same object); the program prints only whether the map agrees with ==: has_key, get, insert-then-len, a tuple key wrapping each, keys().len(), remove-then-len, each compared with the truth value of k1 == k2; judged without the reference interpreter: every line must be true.",
        nontrivial: nt_c12,
        floors: vec![("gen:insert", 50_000), ("gen:get_after_remove", 20_000), ("gen:enumerate", 5_000), ("gen:map_eq", 3_000), ("ev:err:ValueError", 5_000), ("gen:key_pairs", 10_000), ("gen:key_pair_after_range_churn", 5_000)],
        assumptions: vec!["at most two distinct ranges per history, so range identity (an 8-entry cache in yarel) coincides with structural equality"],
    }
}

fn idx_of(bytes: &[u8]) -> u64 {
    let mut b = [0u8; 8];
    let n = bytes.len().min(8);
    b[..n].copy_from_slice(&bytes[..n]);
    u64::from_le_bytes(b)
}

fn cfg_no_range_identity() -> DiffCfg {
    DiffCfg { range_identity_matters: false, fuel: 30_000_000, ..DiffCfg::default() }
}

fn nt_c13(_l: &[&'static str], _e: &Ev, d: &DiffResult) -> bool {
    // the subject contains a multi-byte character
    d.source.lines().next().map(|l| !l.is_ascii()).unwrap_or(false) || d.source.contains("from_")
}

pub fn c13() -> DiffProp {
    use crate::gen_str::*;
    let mut sweep3 = Fam::custom(
        "string_sweep",
        Box::new(|b: &[u8]| (string_sweep(&nth_string(idx_of(b)), true), vec!["sweep"])),
        0, 0, 8,
    );
    // quick: all strings of <= 3 characters; thorough: <= 4 characters (341 strings)
    sweep3.enumerated = Some((count_upto(3), count_upto(4), true));
    sweep3.cfg = cfg_no_range_identity;
    let mut sweep5 = Fam::custom(
        "string_sweep_long",
        Box::new(|b: &[u8]| {
            // strings of exactly 4 (quick: every 7th) or 5 characters, slices strided
            let i = idx_of(b);
            (string_sweep(&nth_string(count_upto(3) + i * 7 % 1280), false), vec!["sweep_long"])
        }),
        0, 0, 8,
    );
    sweep5.enumerated = Some((40, 1280, false));
    sweep5.cfg = cfg_no_range_identity;
    let mut bnd = Fam::custom(
        "boundary_sweep",
        Box::new(|b: &[u8]| (string_sweep(&nth_boundary_string(idx_of(b)), false), vec!["sweep_boundary"])),
        0, 0, 8,
    );
    // quick: all strings of <= 2 boundary code points (157); thorough: <= 3 (1885)
    bnd.enumerated = Some((boundary_count_upto(2), boundary_count_upto(3), true));
    bnd.cfg = cfg_no_range_identity;
    let mut seq = Fam::custom(
        "seq_sweep",
        Box::new(|b: &[u8]| (seq_sweep(idx_of(b) as usize), vec!["seq"])),
        0, 0, 8,
    );
    seq.enumerated = Some((5, 7, true));
    seq.cfg = cfg_no_range_identity;
    let mut cls = Fam::custom(
        "ascii_classification",
        Box::new(|b: &[u8]| (ascii_class_sweep(idx_of(b) as usize), vec!["ascii_class"])),
        0, 0, 8,
    );
    cls.enumerated = Some((4, 4, true));
    cls.cfg = cfg_no_range_identity;
    let mut conv = Fam::custom("conversions", Box::new(conversions), 40_000, 400_000, 120);
    conv.cfg = cfg_no_range_identity;
    let mut rnd = Fam::custom("random_ops", Box::new(random_ops), 25_000, 300_000, 160);
    rnd.cfg = cfg_no_range_identity;
    let mut gen5 = Fam::profile("general", { let mut p = profiles::c05(); p.illtyped = 4; p }, 20_000, 200_000, 500);
    gen5.cfg = DiffCfg::default;
    DiffProp {
        id: "C13",
        families: vec![sweep3, sweep5, bnd, seq, cls, conv, rnd, gen5],
        rule: "cases: (string_sweep, exhaustive) every string of <=3 characters (quick) / <=4 characters (thorough) over {a, é, €, 😀}, each with every index in [-len-2, len+2] and {0.5, -0.5, NaN, +-inf, +-2^63, 2^53, 1e300}, every slice (begin, end) pair in [-len-1, len+1]^2, find with every needle of <=2 characters from every start, replace, split, starts/ends_with with every needle, len/count_chars/classification/to_bytes/to_code_points/iteration/char_byte_index, byte and code-point round trips, wrong kinds and arities; (string_sweep_long) strings of 4-5 characters with strided slices; (boundary_sweep, exhaustive) the same sweep over every string of <=2 (thorough: <=3) code points from the edges of the UTF-8 encoding lengths and the surrogate gap {U+7F, U+80, U+7FF, U+800, U+E01, U+FFF, U+1000, U+D7FF, U+E000, U+FFFF, U+10000, U+10FFFF}; (seq_sweep, exhaustive) vec and tuple indexing, slicing and element assignment for lengths 0-4 (0-6 thorough); (ascii_classification, exhaustive) is_alpha/is_digit/is_hexdigit of every ASCII character alone, doubled and next to a letter and a digit, and of identifier-like and number-like words; (conversions) to_num texts, from_utf8 with truncated/overlong/surrogate sequences, from_ascii, from_code_points; (random_ops) longer strings; (general) expression programs. Oracle: byte-level string model (harness/src/strmodel.rs, no std string searching) inside the reference interpreter; every result or error class printed and compared. Non-trivial: the subject contains a multi-byte character or a conversion is exercised; distinct by program text.",
        nontrivial: nt_c13,
        floors: vec![("ev:err:IndexError", 5_000), ("ev:err:ValueError", 500), ("ev:err:TypeError", 500)],
        assumptions: vec!["from_ascii of 128..191 is not defined by any test and is excluded", "every string yarel prints reaches the harness as a Rust String, i.e. valid UTF-8, or the run panics"],
    }
}

fn nt_c14(_l: &[&'static str], e: &Ev, _d: &DiffResult) -> bool {
    ev(e, "import_again") > 0 && ev(e, "import") >= 3
}

/// Import paths written in several spellings ("m0", "./m0", "lib//m1", "lib/./m1"): the loader
/// serves every spelling it is asked for, with a text that names the spelling it was asked for.
/// Whether two spellings denote one module or two is the loader's and the interpreter's business;
/// what must hold either way is judged directly on yarel's output: no load tag is printed twice
/// (top-level code runs at most once per module), every failed import is an ImportError (a cycle is
/// reported, not recursed into), two imports under the same spelling give the same object with its
/// state intact, and the run ends normally.
fn spellings_case(bytes: &[u8]) -> (String, Vec<(String, String)>) {
    use crate::rd::Rd;
    let mut rd = Rd::new(bytes, 2_000);
    const BASES: [&str; 3] = ["m0", "m1", "lib/m2"];
    fn spell(base: &str, k: usize) -> String {
        match (base.rsplit_once('/'), k) {
            (_, 0) => base.to_string(),
            (None, 1) => format!("./{}", base),
            (None, 2) => format!(".//{}", base),
            (None, _) => format!("././{}", base),
            (Some((d, f)), 1) => format!("{}//{}", d, f),
            (Some((d, f)), 2) => format!("{}/./{}", d, f),
            (Some((d, f)), _) => format!("./{}/{}", d, f),
        }
    }
    let mut mods: Vec<(String, String)> = Vec::new();
    for b in BASES.iter() {
        // what this module imports is the same under every spelling of its own path
        let dep = if rd.chance(2, 3) { Some((rd.below(3), rd.below(4))) } else { None };
        for k in 0..4 {
            let s = spell(b, k);
            let mut text = format!("print(\"load {}\");\nvar tag = \"{}\";\nvar n = 0;\nfn bump() {{ n = n + 1; return n; }}\n", s, s);
            if let Some((db, dk)) = dep {
                let d = spell(BASES[db], dk);
                text.push_str(&format!("try {{\n  import \"{}\" as dep;\n  print(\"{} sees \" + dep.tag);\n}} catch e {{\n  print(\"in {}: \" + String.from(type(e)));\n}}\n", d, s, s));
            }
            text.push_str(&format!("print(\"loaded {}\");\n", s));
            mods.push((s, text));
        }
    }
    let mut main = String::new();
    let n = 2 + rd.below(7);
    let mut bound: Vec<(String, String)> = Vec::new();
    for i in 0..n {
        let s = if !bound.is_empty() && rd.chance(1, 3) {
            bound[rd.below(bound.len())].1.clone()
        } else {
            spell(BASES[rd.below(3)], rd.below(4))
        };
        let var = format!("b{}", i);
        if rd.chance(1, 4) {
            main.push_str(&format!("fn ld{}() {{\n  import \"{}\" as q;\n  return q;\n}}\nvar {} = nil;\ntry {{\n  {} = ld{}();\n  {} = ld{}();\n}} catch e {{\n  print(\"in main: \" + String.from(type(e)));\n}}\n", i, s, var, var, i, var, i));
        } else {
            main.push_str(&format!("var {} = nil;\ntry {{\n  import \"{}\" as q{};\n  {} = q{};\n}} catch e {{\n  print(\"in main: \" + String.from(type(e)));\n}}\n", var, s, i, var, i));
        }
        // same spelling as an earlier binding: same object, state carried over
        if let Some((earlier, _)) = bound.iter().find(|(_, sp)| *sp == s) {
            main.push_str(&format!("if {} != nil && {} != nil {{\n  print(\"same {}\");\n  var c1 = {}.bump();\n  var c2 = {}.bump();\n  print(\"counts {}\");\n}}\n", var, earlier, "${" .to_string() + &format!("{} == {}", var, earlier) + "}", earlier, var, "${c2 - c1}"));
        }
        bound.push((var, s));
    }
    main.push_str("print(\"end of main\");\n");
    (main, mods)
}

fn spellings_render(bytes: &[u8]) -> String {
    let (main, mods) = spellings_case(bytes);
    let used: Vec<&(String, String)> = mods.iter().filter(|(p, _)| main.contains(&format!("\"{}\"", p))).collect();
    let mut s = main.clone();
    for (p, m) in used {
        s.push_str(&format!("--- module {} ---\n{}", p, m));
    }
    s
}

fn spellings_run(bytes: &[u8], ctx: &mut crate::engine::CaseCtx) -> crate::engine::Verdict {
    use crate::engine::Verdict;
    use crate::yrun::{self, End, RunCfg};
    let (main, mods) = spellings_case(bytes);
    let o = yrun::run_source(&main, &RunCfg { modules: mods, ..RunCfg::default() });
    let fail = |sig: &str, what: String| Verdict::Fail { sig: sig.to_string(), detail: format!("{}\noutput {:?}\n{}", what, o.out, spellings_render(bytes)) };
    match &o.end {
        End::Panic(p) => return fail(&format!("panic:{}", crate::props::c03::sig_of_panic(p)), format!("yarel panicked: {}", p)),
        End::Err(k, m) => {
            if yrun::is_fuel(m) {
                return Verdict::Discard("fuel");
            }
            return fail("guarded-imports-end-in-error", format!("every import is guarded, yet the run ended with {:?}: {:?}", k, m));
        }
        End::Ok(_) => {}
    }
    let mut seen = std::collections::BTreeMap::new();
    let mut again = false;
    for l in &o.out {
        if let Some(t) = l.strip_prefix("load ") {
            let c = seen.entry(t.to_string()).or_insert(0u32);
            *c += 1;
            if *c > 1 {
                return fail("module-body-ran-twice", format!("the top-level code of the module served as {:?} ran {} times", t, c));
            }
        }
        if l.starts_with("in ") && !l.ends_with("<class ImportError>") {
            return fail("import-failure-not-import-error", format!("a failed import surfaced as {:?}", l));
        }
        if l.starts_with("same ") {
            again = true;
            if l != "same true" {
                return fail("same-path-different-module-object", "two imports under one spelling gave different objects".to_string());
            }
        }
        if l.starts_with("counts ") && l != "counts 1" {
            return fail("module-state-reset-by-reimport", format!("a counter kept in the module did not advance by one across two bindings of the same spelling: {:?}", l));
        }
    }
    if o.out.last().map(|s| s.as_str()) != Some("end of main") {
        return fail("main-did-not-finish", "main did not reach its last statement".to_string());
    }
    ctx.label("gen:spellings");
    if again {
        ctx.label("gen:spelling_reimported");
    }
    if o.out.iter().any(|l| l.starts_with("in ")) {
        ctx.label("gen:spelling_cycle_reported");
    }
    Verdict::Pass { nontrivial: again || seen.len() >= 2, hash: crate::rd::fnv64(main.as_bytes()) }
}

pub fn c14() -> DiffProp {
    let mut spellings = Fam::custom("import_spellings", Box::new(|_b: &[u8]| (crate::ast::Program { main: vec![], modules: vec![] }, vec![])), 15_000, 150_000, 60);
    spellings.direct = Some((spellings_render, spellings_run));
    DiffProp {
        id: "C14",
        families: vec![Fam::custom("import_graphs", Box::new(crate::gen_mod::program), 60_000, 500_000, 260), spellings],
        rule: "cases: import graphs over 1-6 generated modules (some missing, some that do not compile) with forward, backward and self edges (DAGs, diamonds, self-loops, longer cycles); imports at top level, inside functions called once or twice, inside try blocks and under aliases; every module prints load tags, defines the globals `tag` and `counter` (as main does) and functions that read and write them, reads built-ins (type, Error, StopIter, iterators) and tries to read a global that only main defines; some module bodies fail part-way (an unguarded import of a cycle or a missing module, or a throw) and are imported again afterwards; importers read and set module attributes, call module functions, run a module's function as a fiber body across two yields, pass their own closures into module functions, catch exceptions raised inside module functions (with and without finally), and print their own globals after every step; main compares module objects. Served by an in-memory loader. Oracle: reference interpreter (module registry: absent / loading / loaded, one module object per path, globals per module) vs yarel; import failures compared by class. Non-trivial: a module was imported again after it had been loaded and >=3 imports ran; distinct by program text. Family import_spellings: paths written as m0, ./m0, .//m0, lib//m2, lib/./m2, ... with a loader that serves every spelling (its text names the spelling it was asked for), modules importing each other under other spellings (cycles), main importing 2-8 spellings at top level and inside functions called twice; judged without the reference interpreter by a validity predicate that holds whether or not spellings are identified: no load tag printed twice, every failed import an ImportError, two bindings of one spelling the same object with its counter advancing, main runs to its end.",
        nontrivial: nt_c14,
        floors: vec![("ev:import_again", 3_000), ("ev:import_cycle", 1_000), ("gen:import_in_function", 3_000), ("gen:bad_module", 1_000), ("gen:module_identity", 300), ("gen:set_attribute", 1_000), ("gen:spelling_reimported", 2_000), ("gen:spelling_cycle_reported", 1_000)],
        assumptions: vec!["every import statement in a generated module body is guarded, so a module body never ends in an exception (re-importing a module whose body threw is not defined by the statement)"],
    }
}
