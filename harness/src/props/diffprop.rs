//! Shared implementation of the properties decided by the reference interpreter (oracle R):
//! generated program -> text -> yarel, AST -> reference; compare.

use std::collections::BTreeMap;

use crate::diff::*;
use crate::engine::*;
use crate::gen::{self, Profile};
use crate::prelude::RefCfg;
use crate::rd::fnv64;

pub const TRIGGERS: [&str; 8] = ["E2", "E3", "E4", "E5", "E6", "E8", "E9", "S1"];

pub struct DiffProp {
    pub id: &'static str,
    /// (family name, profile, quick cases, thorough cases, max bytes)
    pub families: Vec<(&'static str, Profile, u64, u64, usize)>,
    pub rule: &'static str,
    /// non-trivial predicate over (generator labels, reference events, result)
    pub nontrivial: fn(&[&'static str], &BTreeMap<&'static str, u32>, &DiffResult) -> bool,
    pub floors: Vec<(&'static str, u64)>,
    pub assumptions: Vec<&'static str>,
}

pub fn trigger_suffix(events: &BTreeMap<&'static str, u32>) -> String {
    let mut s = String::new();
    for t in TRIGGERS {
        if events.get(t).copied().unwrap_or(0) > 0 {
            s.push('+');
            s.push_str(t);
        }
    }
    s
}

pub fn verdict_of(d: &DiffResult, nontrivial: bool, ctx: &mut CaseCtx) -> Verdict {
    match &d.verdict {
        DiffVerdict::Agree => {
            ctx.label("agree");
            if let Some(o) = &d.yarel {
                ctx.label(&format!("end:{}", o.kind_name()));
            }
            Verdict::Pass {
                nontrivial,
                hash: fnv64(d.source.as_bytes()),
            }
        }
        DiffVerdict::Discard(w) => {
            ctx.label(&format!("discard:{}", w));
            Verdict::Discard(w)
        }
        DiffVerdict::Mismatch(m) => Verdict::Fail {
            sig: format!("ref-mismatch{}", trigger_suffix(&d.events)),
            detail: format!("{}\n{}", m, describe(d)),
        },
        DiffVerdict::Panic(p) => Verdict::Fail {
            sig: format!("panic:{}{}", crate::props::c03::sig_of_panic(p), trigger_suffix(&d.events)),
            detail: format!("yarel panicked: {}\n{}", p, describe(d)),
        },
    }
}

/// A pinned case: source text with its expected output, bypassing generator and reference.
/// Format of the case bytes (UTF-8):
///   //// sig: <signature reported when it fails>
///   //// expect-end: Ok | <ErrorKind name>
///   //// expect-out:
///   <expected printed lines>
///   //// source:
///   <program>
pub fn run_pinned(bytes: &[u8]) -> Verdict {
    use crate::yrun::{self, End, RunCfg};
    let text = String::from_utf8_lossy(bytes).to_string();
    let mut sig = "pinned-mismatch".to_string();
    let mut expect_end = "Ok".to_string();
    let mut expect_out: Vec<String> = Vec::new();
    let mut source = String::new();
    let mut mode = 0;
    for line in text.lines() {
        if let Some(r) = line.strip_prefix("//// sig:") {
            sig = r.trim().to_string();
        } else if let Some(r) = line.strip_prefix("//// expect-end:") {
            expect_end = r.trim().to_string();
        } else if line.starts_with("//// expect-out:") {
            mode = 1;
        } else if line.starts_with("//// source:") {
            mode = 2;
        } else if mode == 1 {
            expect_out.push(line.to_string());
        } else if mode == 2 {
            source.push_str(line);
            source.push('\n');
        }
    }
    let o = yrun::run_source(&source, &RunCfg::default());
    let out: Vec<String> = o
        .out
        .iter()
        .flat_map(|s| yrun::normalise_addr(s).lines().map(|l| l.to_string()).collect::<Vec<_>>())
        .collect();
    let end = match &o.end {
        End::Ok(_) => "Ok".to_string(),
        End::Err(k, _) => yrun::kind_name(*k).to_string(),
        End::Panic(p) => {
            return Verdict::Fail {
                sig: format!("panic:{}", crate::props::c03::sig_of_panic(p)),
                detail: format!("yarel panicked: {}\n{}", p, source),
            }
        }
    };
    if out != expect_out || end != expect_end {
        return Verdict::Fail {
            sig,
            detail: format!(
                "pinned case: expected output {:?} end {}, yarel printed {:?} end {} ({:?})\n{}",
                expect_out, expect_end, out, end, o.end, source
            ),
        };
    }
    Verdict::Pass {
        nontrivial: false,
        hash: fnv64(bytes),
    }
}

impl DiffProp {
    fn profile(&self, family: &str) -> Option<Profile> {
        self.families.iter().find(|f| f.0 == family).map(|f| f.1.clone())
    }
}

impl Property for DiffProp {
    fn id(&self) -> &'static str {
        self.id
    }

    fn families(&self, tier: Tier) -> Vec<Family> {
        self.families
            .iter()
            .map(|(name, _, q, t, len)| Family {
                name,
                kind: FamilyKind::Random {
                    cases: if tier == Tier::Quick { *q } else { *t },
                    max_len: *len,
                },
            })
            .collect()
    }

    fn rule(&self) -> String {
        self.rule.to_string()
    }

    fn assumptions(&self) -> Vec<String> {
        let mut v: Vec<String> = vec![
            "the reference interpreter (harness/src/reval.rs, rnat.rs, prelude.rs) defines the intended behaviour; it was calibrated against the unchanged tree and the repository's tests".into(),
            "texts of built-in error messages are not compared, only class/kind and trace".into(),
        ];
        v.extend(self.assumptions.iter().map(|s| s.to_string()));
        v
    }

    fn render(&self, family: &str, bytes: &[u8]) -> String {
        if family == "pinned" {
            return String::from_utf8_lossy(bytes).to_string();
        }
        match self.profile(family) {
            Some(p) => {
                let (prog, _) = gen::program(bytes, p);
                crate::astutil::fix_lambda_names(&prog);
                crate::pretty::render(&prog.main)
            }
            None => "<unknown family>".into(),
        }
    }

    fn run(&self, ctx: &mut CaseCtx) -> Verdict {
        if ctx.family == "pinned" {
            return run_pinned(ctx.bytes);
        }
        let prof = match self.profile(ctx.family) {
            Some(p) => p,
            None => return Verdict::Discard("unknown family"),
        };
        let (prog, labels) = gen::program(ctx.bytes, prof);
        let d = run_diff(&prog, &[], &DiffCfg::default(), &RefCfg::default());
        for l in labels.iter() {
            ctx.label_n(&format!("gen:{}", l), 1);
        }
        for (k, v) in &d.events {
            ctx.label_n(&format!("ev:{}", k), *v as u64);
        }
        let nt = (self.nontrivial)(&labels, &d.events, &d);
        if nt {
            ctx.label("nontrivial");
        }
        verdict_of(&d, nt, ctx)
    }

    fn floors(&self, tier: Tier) -> Vec<(&'static str, u64)> {
        if tier == Tier::Quick {
            self.floors.clone()
        } else {
            self.floors.iter().map(|(l, n)| (*l, n * 5)).collect()
        }
    }
}
