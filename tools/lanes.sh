#!/bin/bash
# lanes.sh setup <n>            create n scratch lanes /var/tmp/lane<i>/{repo,verif}: a git worktree of /repo's HEAD and a
#                               copy of /verif (committed + uncommitted files, no build output) whose cargo paths point at it
# lanes.sh sync                 refresh every lane's verif copy from /verif (keeps the lane's build output) and repo from HEAD
# lanes.sh run <log> <seed-dir>...   try the given seeded changes (default: all), spread over the lanes; one line per seed
# lanes.sh teardown             remove every lane with its build output
# Seeded changes are applied only inside a lane's own worktree; /repo itself is never touched.
set -u
BASE=/var/tmp
lanes() { ls -d $BASE/lane[0-9]* 2>/dev/null; }
copy_verif() { # lane dir
  local L="$1"
  mkdir -p "$L/verif"
  rsync -a --delete --exclude /target --exclude /work --exclude /.git --exclude '/fuzz/target' --exclude '/fuzz/corpus*' --exclude '/fuzz/artifacts' /verif/ "$L/verif/"
  sed -i "s#path = \"/repo/yarel\"#path = \"$L/repo/yarel\"#" "$L/verif/harness/Cargo.toml" "$L/verif/runner/Cargo.toml"
  [ -f "$L/verif/fuzz/Cargo.toml" ] && sed -i "s#/repo/yarel#$L/repo/yarel#; s#/verif/harness#$L/verif/harness#" "$L/verif/fuzz/Cargo.toml"
  sed -i "s#target-dir = \"/verif/target\"#target-dir = \"$L/verif/target\"#" "$L/verif/harness/.cargo/config.toml"
}
case "${1:-}" in
  setup)
    n="${2:-4}"
    for i in $(seq 0 $((n-1))); do
      L=$BASE/lane$i
      [ -d "$L/repo" ] || git -C /repo worktree add -q --detach "$L/repo" HEAD || exit 2
      copy_verif "$L"
      ( cd "$L/verif" && VERIF_REPO="$L/repo" ./setup.sh >"$L/setup.log" 2>&1 || echo "lane $i: setup failed, see $L/setup.log" ) &
    done
    wait
    echo "lanes ready: $(lanes | wc -l)";;
  sync)
    for L in $(lanes); do
      git -C "$L/repo" checkout -q -- . ; git -C "$L/repo" checkout -q --detach "$(git -C /repo rev-parse HEAD)"
      copy_verif "$L"
    done;;
  run)
    LOG="${2:?log}"; shift 2
    if [ $# = 0 ]; then set -- /verif/seeded/*/; fi
    : > "$LOG"
    Ls=( $(lanes) ); n=${#Ls[@]}
    [ "$n" -gt 0 ] || { echo "no lanes"; exit 2; }
    seeds=( "$@" )
    for k in $(seq 0 $((n-1))); do
      (
        L=${Ls[$k]}; j=0
        for d in "${seeds[@]}"; do
          if [ $(( j % n )) = "$k" ]; then
            d="${d%/}"; s=$(basename "$d"); id=${s%%-*}
            r=$(LANE_REPO="$L/repo" LANE_VERIF="$L/verif" /verif/tools/try_seed.sh "$d/patch.diff" "$id" 2>&1 | tail -1)
            echo "$s $r" >> "$LOG"
            case "$r" in
              *MISSED*|*INCONCLUSIVE*)
                for other in $(python3 -c "import json,sys;print(' '.join(json.load(open('$d/meta.json')).get('also_checked_by',[])))" 2>/dev/null); do
                  r2=$(LANE_REPO="$L/repo" LANE_VERIF="$L/verif" /verif/tools/try_seed.sh "$d/patch.diff" "$other" 2>&1 | tail -1)
                  echo "$s (via $other) $r2" >> "$LOG"
                done;;
            esac
          fi
          j=$((j+1))
        done
      ) &
    done
    wait
    sort -o "$LOG" "$LOG"
    echo "done: $(grep -c CAUGHT "$LOG") caught lines, $(grep -c MISSED "$LOG") missed lines, $(grep -c INCONCLUSIVE "$LOG") inconclusive lines";;
  teardown)
    for L in $(lanes); do
      git -C /repo worktree remove --force "$L/repo" 2>/dev/null
      rm -rf "$L"
    done
    git -C /repo worktree prune;;
  *) echo "usage: lanes.sh setup <n> | sync | run <log> [seed-dir...] | teardown"; exit 2;;
esac
