//! C16 — garbage is reclaimed: heap size is bounded by live data (paced collector).

use std::collections::BTreeMap;

use crate::engine::*;
use crate::gen_alloc::{loop_modules, plan_n, program, AllocPlan, KINDS_WITH_IMPORTS};
use crate::pretty::render;
use crate::rd::fnv64;

pub struct C16;

const INIT_BUDGET: usize = 65536;
const GROWTH: usize = 2;

#[cfg(feature = "hooks")]
fn census_filtered() -> BTreeMap<String, usize> {
    let (map, _) = yarel::memory::verif::census();
    map.into_iter()
        .filter(|(k, _)| !(k.contains("ObjString") && !k.contains("ObjStringIter")) && !k.contains("Chunk") && !k.contains("ObjFunction"))
        .map(|(k, v)| (k.to_string(), v))
        .collect()
}

#[cfg(feature = "hooks")]
struct RunInfo {
    out: Vec<String>,
    ok: bool,
    census: BTreeMap<String, usize>,
    collections: usize,
    survivor_sizes: Vec<usize>,
    bound_violation: Option<String>,
    allocs: usize,
    end: String,
}

#[cfg(feature = "hooks")]
fn run_once(src: &str, check_bound: bool) -> RunInfo {
    use crate::yrun::{End, RunCfg, Session};
    use yarel::memory::verif as mv;
    mv::purge();
    mv::force_collect();
    mv::set_trace(true);
    let mut s = Session::new(RunCfg { fuel: Some(200_000_000), modules: loop_modules(), ..RunCfg::default() });
    let (out, end) = s.feed(src);
    let trace = mv::take_trace();
    mv::set_trace(false);
    // collect now (Vm still alive) and take the census of what the program left behind
    mv::force_collect();
    let census = census_filtered();
    let mut info = RunInfo {
        out,
        ok: matches!(end, End::Ok(_)),
        census,
        collections: 0,
        survivor_sizes: vec![],
        bound_violation: None,
        allocs: 0,
        end: format!("{:?}", end),
    };
    if check_bound {
        // the first event is preceded by the forced collection above: whatever was live then
        let mut after_prev: Option<usize> = None;
        let mut max_alloc = 0usize;
        for ev in &trace {
            match ev {
                mv::Trace::Collect(_, after) => {
                    info.collections += 1;
                    info.survivor_sizes.push(*after);
                    after_prev = Some(*after);
                }
                mv::Trace::Alloc(size, before) => {
                    info.allocs += 1;
                    max_alloc = max_alloc.max(*size);
                    if let Some(a) = after_prev {
                        let bound = INIT_BUDGET.max(GROWTH * a) + max_alloc;
                        if *before > bound && info.bound_violation.is_none() {
                            info.bound_violation = Some(format!(
                                "allocation #{}: managed heap holds {} bytes, the previous collection left {} (bound max({}, {}x{}) + {} = {})",
                                info.allocs, before, a, INIT_BUDGET, GROWTH, a, max_alloc, bound
                            ));
                        }
                    }
                }
            }
        }
    }
    let _ = s.finish();
    info
}

impl C16 {
    fn plan_of(&self, bytes: &[u8], tier: Tier) -> AllocPlan {
        let (mi, mk) = if tier == Tier::Quick { (2500, 3000) } else { (6000, 6000) };
        let mut p = plan_n(bytes, mi, mk, KINDS_WITH_IMPORTS);
        // every retained slot must be written in the shorter run too
        if p.iterations < p.keep {
            p.iterations = p.keep + 10;
        }
        p
    }
}

impl Property for C16 {
    fn id(&self) -> &'static str {
        "C16"
    }

    fn families(&self, tier: Tier) -> Vec<Family> {
        vec![Family {
            name: "alloc_loops",
            kind: FamilyKind::Random { cases: if tier == Tier::Quick { 1_600 } else { 30_000 }, max_len: 24 },
        }]
    }

    fn rule(&self) -> String {
        "cases: loop programs with a bounded live set: n iterations (50..2500 quick, ..6000 thorough), each allocating 1-4 pieces of garbage of 17 kinds (vec, tuple, map, instance, closure, bound method, iterator, fiber run to completion, fiber abandoned while suspended, caught error object, map/collect chain, pooled strings, a loop over a range with new bounds in every iteration, slices and range values with changing bounds, a caught import of a module that does not compile next to an import that succeeds, a class declaration whose superclass is not a class, the items and keys of a 12-entry map and a closure over three variables) and overwriting one of K retained slots with a vector, tuple, instance, closure, map, bound method, a fiber run to completion by another fiber that looked at the previously kept one, or a closure returned by a fresh fiber that was handed the previously kept closure as its argument (K = 0, small, or up to 3000/6000, so survivors range from far below to far above the 64 KiB initial budget); a third of the programs first build and drop a structure of 500-6500 vectors, so that the live set shrinks sharply before the loop; a sixth keep a linked list of 200-4000 instances alive in a global for the whole run (live data reached only through a chain of that many references). Run in the optimised build with the threshold-paced collector. Oracle: (1) from the hook's allocation trace, with heap bytes recomputed from the object list at every collection (not from the collector's counter): before every allocation heap <= max(64 KiB, 2 x heap after the previous collection) + one allocation; (2) the same program with n and 2n iterations leaves the same census by type (strings, chunks and functions excluded; range objects may differ by the few the interpreter's range cache holds, not by a number that grows with n) after a forced collection; (3) after dropping the interpreter and collecting, the census equals the one taken before it was created. Non-trivial: >=3 collections with at least two different survivor sizes; distinct by program text.".into()
    }

    fn assumptions(&self) -> Vec<String> {
        vec![
            "heap size is the sum of the shallow sizes the allocator itself accounts (size_of of each managed object)".into(),
            "the weaker reading of 'growth factor times survivors, or the initial budget' is used: max of the two".into(),
        ]
    }

    fn render(&self, _family: &str, bytes: &[u8]) -> String {
        let p = self.plan_of(bytes, Tier::Quick);
        format!("{:?}\n{}", p, render(&program(&p, p.iterations).main))
    }

    #[cfg(not(feature = "hooks"))]
    fn run(&self, _ctx: &mut CaseCtx) -> Verdict {
        Verdict::Discard("built without hooks")
    }

    #[cfg(feature = "hooks")]
    fn run(&self, ctx: &mut CaseCtx) -> Verdict {
        use yarel::memory::verif as mv;
        if cfg!(debug_assertions) {
            return Verdict::Fail {
                sig: "wrong-flavour".into(),
                detail: "C16 must run in the paced (no debug assertions) flavour".into(),
            };
        }
        let p = self.plan_of(ctx.bytes, ctx.tier);
        mv::purge();
        mv::force_collect();
        let (baseline, _) = mv::census();
        let src1 = render(&program(&p, p.iterations).main);
        let src2 = render(&program(&p, p.iterations * 2).main);
        let r1 = run_once(&src1, true);
        // (3) after the interpreter is gone
        mv::force_collect();
        let (after_drop, _) = mv::census();
        if !r1.ok {
            return Verdict::Fail {
                sig: "loop-program-failed".into(),
                detail: format!("the loop program did not finish normally: {}\n{}", r1.end, src1),
            };
        }
        if let Some(b) = &r1.bound_violation {
            return Verdict::Fail {
                sig: "heap-bound-exceeded".into(),
                detail: format!("{}\nplan {:?}\n{}", b, p, src1),
            };
        }
        if after_drop != baseline {
            return Verdict::Fail {
                sig: "objects-survive-interpreter".into(),
                detail: format!(
                    "census before creating the interpreter {:?}, after dropping it and collecting {:?}\nplan {:?}",
                    baseline, after_drop, p
                ),
            };
        }
        let r2 = run_once(&src2, false);
        mv::force_collect();
        if !r2.ok {
            return Verdict::Fail {
                sig: "loop-program-failed".into(),
                detail: format!("the 2n loop program did not finish normally: {}", r2.end),
            };
        }
        // range objects: the interpreter keeps a small cache of recently built ranges (8 entries), and
        // which ranges sit in it at the end may differ between the two runs; a number of leftover
        // ranges that grows with the iteration count is a leak like any other
        const RANGE_SLACK: usize = 32;
        let is_range = |k: &str| k.contains("ObjRange") && !k.contains("ObjRangeIter");
        let ranges = |c: &BTreeMap<String, usize>| c.iter().filter(|(k, _)| is_range(k)).map(|(_, v)| *v).sum::<usize>();
        let (rg1, rg2) = (ranges(&r1.census), ranges(&r2.census));
        if rg2 > rg1 + RANGE_SLACK {
            return Verdict::Fail {
                sig: "leftover-grows-with-iterations".into(),
                detail: format!(
                    "running the loop {} and {} times leaves {} and {} range objects behind (the interpreter's range cache holds 8)\nplan {:?}\n{}",
                    p.iterations,
                    p.iterations * 2,
                    rg1,
                    rg2,
                    p,
                    src1
                ),
            };
        }
        let mut r1 = r1;
        let mut r2 = r2;
        r1.census.retain(|k, _| !is_range(k));
        r2.census.retain(|k, _| !is_range(k));
        if r1.census != r2.census {
            let diff: Vec<String> = r2
                .census
                .iter()
                .filter(|(k, v)| r1.census.get(*k) != Some(v))
                .map(|(k, v)| format!("{}: {} vs {}", k, r1.census.get(k).copied().unwrap_or(0), v))
                .collect();
            return Verdict::Fail {
                sig: "leftover-grows-with-iterations".into(),
                detail: format!(
                    "running the loop {} and {} times leaves different numbers of objects: {}\nplan {:?}\n{}",
                    p.iterations,
                    p.iterations * 2,
                    diff.join(", "),
                    p,
                    src1
                ),
            };
        }
        ctx.label_n("collections", r1.collections as u64);
        ctx.label_n("allocations", r1.allocs as u64);
        for k in &p.kinds {
            ctx.label(&format!("kind:{}", k));
        }
        let mut sizes = r1.survivor_sizes.clone();
        sizes.dedup();
        let nontrivial = r1.collections >= 3 && sizes.len() >= 2;
        let _ = r1.out;
        Verdict::Pass { nontrivial, hash: fnv64(src1.as_bytes()) }
    }

    fn floors(&self, _tier: Tier) -> Vec<(&'static str, u64)> {
        vec![("collections", 3_000), ("allocations", 1_000_000)]
    }
}
