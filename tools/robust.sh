#!/bin/bash
# robust.sh <log> <seed>...  — every quick check under each seed on the current tree; a line per run.
LOG="$1"; shift
: > "$LOG"
cd /verif
for seed in "$@"; do
  for n in $(seq -w 1 19); do
    id="C$n"
    out=$(VERIF_SEED=$seed ./check $id quick 2>&1); rc=$?
    v=$(echo "$out" | grep -c '^VIOLATION')
    echo "seed=$seed $id rc=$rc violations=$v $(echo "$out" | tail -1 | cut -c1-120)" >> "$LOG"
    if [ $rc != 0 ]; then echo "$out" | grep -A3 '^VIOLATION\|INCONCLUSIVE' | cut -c1-400 >> "$LOG"; fi
  done
done
echo DONE >> "$LOG"
