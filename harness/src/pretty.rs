//! AST -> yarel source text. Records the line of every statement and expression.
//! Parentheses are minimal w.r.t. the language's precedence table (Appendix B of DESIGN.md), so a
//! slip in yarel's table changes grouping and therefore behaviour; `Expr::Paren` adds explicit ones.

use crate::ast::*;

thread_local! {
    /// (from, to): while set, every occurrence of the variable name `from` (declarations, parameters,
    /// loop and catch variables, reads, assignment targets) is written as `to`. Property names, function
    /// and class names are left alone. Used to give one variable of a generated program an unusual
    /// spelling without touching the program itself (the reference interpreter runs the AST).
    pub static RESPELL: std::cell::RefCell<Option<(String, String)>> = std::cell::RefCell::new(None);
}

pub struct Printer {
    out: String,
    line: u32,
    indent: usize,
    /// when > 0 statements are rendered on the current line (lambda block bodies)
    inline: usize,
    /// deterministic layout noise: blank lines / comments before statements (C17)
    noise: Vec<u8>,
    noise_pos: usize,
}

pub fn escape_str(s: &str, out: &mut String) {
    for c in s.chars() {
        match c {
            '"' => out.push_str("\\\""),
            '\\' => out.push_str("\\\\"),
            '$' => out.push_str("\\$"),
            '\n' => out.push_str("\\n"),
            '\r' => out.push_str("\\r"),
            '\t' => out.push_str("\\t"),
            '\0' => out.push_str("\\0"),
            c if (c as u32) < 0x20 || c as u32 == 0x7f => {
                out.push_str(&format!("\\x{:02x}", c as u32));
            }
            c => out.push(c),
        }
    }
}

pub fn num_text(n: f64) -> String {
    // Rust's Display for f64 prints the shortest decimal that round-trips, without exponent
    let s = format!("{}", n);
    debug_assert!(s.bytes().all(|b| b.is_ascii_digit() || b == b'.'));
    s
}

fn prec_of(e: &Expr) -> u8 {
    match e {
        Expr::Assign(..) | Expr::Compound(..) | Expr::Lambda(_) => PREC_ASSIGN,
        Expr::Or(..) => PREC_OR,
        Expr::And(..) => PREC_AND,
        Expr::Binary(op, ..) => op.prec(),
        Expr::Range(..) => PREC_RANGE,
        Expr::Unary(..) => PREC_UNARY,
        Expr::Call(..) | Expr::Invoke(..) | Expr::Get(..) | Expr::Index(..) => PREC_CALL,
        _ => PREC_PRIMARY,
    }
}

/// does the rendered expression start with `{` (which a statement would read as a block)?
fn starts_with_brace(e: &Expr) -> bool {
    match e {
        Expr::MapLit(..) => true,
        Expr::Assign(t, ..) | Expr::Compound(t, ..) => match &**t {
            Target::Var(_) => false,
            Target::Prop(o, _) => starts_with_brace(o),
            Target::Index(o, _) => starts_with_brace(o),
        },
        Expr::Binary(_, l, ..) | Expr::And(l, _) | Expr::Or(l, _) | Expr::Range(l, ..) => {
            starts_with_brace(l)
        }
        Expr::Call(f, ..) => starts_with_brace(f),
        Expr::Invoke(o, ..) | Expr::Get(o, ..) | Expr::Index(o, ..) => starts_with_brace(o),
        _ => false,
    }
}

impl Printer {
    fn ident(&mut self, n: &str) {
        let to = RESPELL.with(|r| r.borrow().as_ref().and_then(|(f, t)| if f == n { Some(t.clone()) } else { None }));
        match to {
            Some(t) => self.out.push_str(&t),
            None => self.out.push_str(n),
        }
    }

    pub fn new() -> Self {
        Printer {
            out: String::new(),
            line: 1,
            indent: 0,
            inline: 0,
            noise: Vec::new(),
            noise_pos: 0,
        }
    }

    pub fn with_noise(noise: Vec<u8>) -> Self {
        let mut p = Printer::new();
        // one noisy layout in 32 starts after 65 530 to 66 295 blank lines: every line number of the
        // program then needs more than 16 bits
        if noise.len() >= 2 && noise[0] % 32 == 7 {
            for _ in 0..(65_530 + noise[1] as usize * 3) {
                p.nl();
            }
        }
        p.noise = noise;
        p
    }

    pub fn finish(self) -> String {
        self.out
    }

    fn nl(&mut self) {
        self.out.push('\n');
        self.line += 1;
    }

    fn start_stmt(&mut self) {
        if self.inline > 0 {
            return;
        }
        if !self.noise.is_empty() {
            let b = self.noise[self.noise_pos % self.noise.len()];
            self.noise_pos += 1;
            match b % 8 {
                0 => self.nl(),
                1 => {
                    self.out.push_str("// note");
                    self.nl();
                }
                2 => {
                    self.nl();
                    self.nl();
                }
                _ => {}
            }
        }
        for _ in 0..self.indent {
            self.out.push_str("  ");
        }
    }

    fn end_stmt(&mut self) {
        if self.inline > 0 {
            self.out.push(' ');
        } else {
            self.nl();
        }
    }

    fn block(&mut self, stmts: &[Stmt]) {
        // prints "{ ... }" with the opening brace on the current line
        self.out.push('{');
        if self.inline > 0 {
            self.out.push(' ');
            for s in stmts {
                self.stmt(s);
            }
            self.out.push('}');
        } else {
            self.nl();
            self.indent += 1;
            for s in stmts {
                self.stmt(s);
            }
            self.indent -= 1;
            for _ in 0..self.indent {
                self.out.push_str("  ");
            }
            self.out.push('}');
        }
    }

    pub fn stmts(&mut self, stmts: &[Stmt]) {
        for s in stmts {
            self.stmt(s);
        }
    }

    fn fn_def(&mut self, f: &FnDef) {
        match f.kind {
            FnKind::Static => {
                self.start_stmt();
                self.out.push_str("#[static]");
                self.end_stmt();
            }
            FnKind::Init => {
                self.start_stmt();
                self.out.push_str("#[constructor]");
                self.end_stmt();
            }
            _ => {}
        }
        self.start_stmt();
        self.out.push_str("fn ");
        self.out.push_str(&f.name.borrow());
        self.out.push('(');
        let mut first = true;
        if matches!(f.kind, FnKind::Method | FnKind::Init) {
            self.out.push_str("self");
            first = false;
        }
        for p in &f.params {
            if !first {
                self.out.push_str(", ");
            }
            first = false;
            self.ident(p);
        }
        self.out.push_str(") ");
        match &f.body {
            Body::Block(b) => self.block(b),
            Body::Expr(_) => unreachable!("named functions have block bodies"),
        }
        self.end_stmt();
    }

    pub fn stmt(&mut self, s: &Stmt) {
        match &s.kind {
            StmtKind::Fn(f) => {
                // line of the statement = line of the `fn` header
                if self.inline == 0 {
                    // start_stmt may add noise lines; compute the line after it
                }
                let before = self.out.len();
                let _ = before;
                self.fn_def_stmt(s, f);
                return;
            }
            StmtKind::Class(c) => {
                self.class_def(s, c);
                return;
            }
            _ => {}
        }
        self.start_stmt();
        s.line.set(self.line);
        match &s.kind {
            StmtKind::Expr(e) => {
                if starts_with_brace(e) {
                    self.out.push('(');
                    self.expr(e, 0);
                    self.out.push(')');
                } else {
                    self.expr(e, 0);
                }
                self.out.push(';');
            }
            StmtKind::Var(n, init) => {
                self.out.push_str("var ");
                self.ident(n);
                if let Some(e) = init {
                    self.out.push_str(" = ");
                    self.expr(e, 0);
                }
                self.out.push(';');
            }
            StmtKind::Block(b) => {
                self.block(b);
            }
            StmtKind::If(c, then, els) => {
                self.if_chain(c, then, els);
            }
            StmtKind::While(c, body) => {
                self.out.push_str("while ");
                self.expr(c, 0);
                self.out.push(' ');
                self.block(body);
            }
            StmtKind::For(v, it, body) => {
                self.out.push_str("for ");
                self.ident(v);
                self.out.push_str(" in ");
                self.expr(it, 0);
                s.aux_line.set(self.line);
                self.out.push(' ');
                self.block(body);
            }
            StmtKind::Break => self.out.push_str("break;"),
            StmtKind::Continue => self.out.push_str("continue;"),
            StmtKind::Return(e) => {
                self.out.push_str("return");
                if let Some(e) = e {
                    self.out.push(' ');
                    self.expr(e, 0);
                }
                self.out.push(';');
            }
            StmtKind::Throw(e) => {
                self.out.push_str("throw ");
                self.expr(e, 0);
                self.out.push(';');
                s.aux_line.set(self.line);
            }
            StmtKind::Try(body, catch, fin) => {
                self.out.push_str("try ");
                self.block(body);
                if let Some((n, b)) = catch {
                    self.out.push_str(" catch ");
                    self.ident(n);
                    self.out.push(' ');
                    self.block(b);
                }
                if let Some(b) = fin {
                    self.out.push_str(" finally ");
                    self.block(b);
                }
            }
            StmtKind::Import(path, alias) => {
                self.out.push_str("import \"");
                escape_str(path, &mut self.out);
                self.out.push('"');
                if let Some(a) = alias {
                    self.out.push_str(" as ");
                    self.out.push_str(a);
                }
                self.out.push(';');
            }
            StmtKind::Fn(_) | StmtKind::Class(_) => unreachable!(),
        }
        self.end_stmt();
    }

    fn if_chain(&mut self, c: &Expr, then: &[Stmt], els: &Option<Box<Stmt>>) {
        self.out.push_str("if ");
        self.expr(c, 0);
        self.out.push(' ');
        self.block(then);
        if let Some(e) = els {
            self.out.push_str(" else ");
            e.line.set(self.line);
            match &e.kind {
                StmtKind::If(c2, t2, e2) => self.if_chain(c2, t2, e2),
                StmtKind::Block(b) => self.block(b),
                _ => unreachable!("else branch must be a block or an if"),
            }
        }
    }

    fn fn_def_stmt(&mut self, s: &Stmt, f: &FnDef) {
        self.start_stmt();
        s.line.set(self.line);
        self.out.push_str("fn ");
        self.out.push_str(&f.name.borrow());
        self.out.push('(');
        for (i, p) in f.params.iter().enumerate() {
            if i > 0 {
                self.out.push_str(", ");
            }
            self.ident(p);
        }
        self.out.push_str(") ");
        match &f.body {
            Body::Block(b) => self.block(b),
            Body::Expr(_) => unreachable!(),
        }
        self.end_stmt();
    }

    fn class_def(&mut self, s: &Stmt, c: &ClassDef) {
        if c.default_ctor.is_some() || c.superclass.is_some() {
            self.start_stmt();
            c.attr_line.set(self.line);
            self.out.push_str("#[");
            let mut first = true;
            if let Some(n) = &c.default_ctor {
                self.out.push_str(&format!("constructor({})", n));
                first = false;
            }
            if let Some(n) = &c.superclass {
                if !first {
                    self.out.push_str(", ");
                }
                self.out.push_str("derive(");
                self.ident(n);
                self.out.push(')');
            }
            self.out.push(']');
            self.end_stmt();
            // no noise between the attribute list and the class keyword
            if self.inline == 0 {
                for _ in 0..self.indent {
                    self.out.push_str("  ");
                }
            }
        } else {
            self.start_stmt();
        }
        s.line.set(self.line);
        self.out.push_str("class ");
        self.out.push_str(&c.name);
        self.out.push_str(" {");
        if self.inline > 0 {
            self.out.push(' ');
            for m in &c.methods {
                self.fn_def(m);
            }
            self.out.push('}');
        } else {
            self.nl();
            self.indent += 1;
            let saved = std::mem::take(&mut self.noise);
            for m in &c.methods {
                self.fn_def(m);
            }
            self.noise = saved;
            self.indent -= 1;
            for _ in 0..self.indent {
                self.out.push_str("  ");
            }
            self.out.push('}');
        }
        self.end_stmt();
    }

    /// the inside of a string literal; with layout noise a line break may be written raw (the
    /// literal then spans source lines and every later line number moves)
    fn str_body(&mut self, s: &str) {
        if self.inline == 0 && !self.noise.is_empty() && s.contains('\n') {
            let b = self.noise[self.noise_pos % self.noise.len()];
            self.noise_pos += 1;
            if b % 2 == 0 {
                for (i, piece) in s.split('\n').enumerate() {
                    if i > 0 {
                        self.out.push('\n');
                        self.line += 1;
                    }
                    escape_str(piece, &mut self.out);
                }
                return;
            }
        }
        escape_str(s, &mut self.out);
    }

    fn args(&mut self, args: &[Expr]) {
        for (i, a) in args.iter().enumerate() {
            if i > 0 {
                self.out.push_str(", ");
            }
            self.expr(a, 0);
        }
    }

    fn target(&mut self, t: &Target) {
        match t {
            Target::Var(n) => self.ident(n),
            Target::Prop(o, n) => {
                self.expr(o, PREC_CALL);
                self.out.push('.');
                self.out.push_str(n);
            }
            Target::Index(o, i) => {
                self.expr(o, PREC_CALL);
                self.out.push('[');
                self.expr(i, 0);
                self.out.push(']');
            }
        }
    }

    /// Render `e` where the context requires precedence >= `min`.
    pub fn expr(&mut self, e: &Expr, min: u8) {
        let p = prec_of(e);
        let need = p < min;
        if need {
            self.out.push('(');
        }
        match e {
            Expr::Nil => self.out.push_str("nil"),
            Expr::True => self.out.push_str("true"),
            Expr::False => self.out.push_str("false"),
            Expr::Num(n) => self.out.push_str(&num_text(*n)),
            Expr::Str(s) => {
                self.out.push('"');
                self.str_body(s);
                self.out.push('"');
            }
            Expr::Interp(parts) => {
                self.out.push('"');
                for part in parts {
                    match part {
                        Part::Lit(s) => self.str_body(s),
                        Part::Ex(x) => {
                            self.out.push_str("${");
                            self.expr(x, 0);
                            self.out.push('}');
                        }
                    }
                }
                self.out.push('"');
            }
            Expr::Var(n, l) => {
                self.ident(n);
                l.set(self.line);
            }
            Expr::SelfE => self.out.push_str("self"),
            Expr::CapSelf => self.out.push_str("Self"),
            Expr::Assign(t, v, l) => {
                self.target(t);
                self.out.push_str(" = ");
                self.expr(v, PREC_ASSIGN);
                l.set(self.line);
            }
            Expr::Compound(t, op, v, l, lg) => {
                self.target(t);
                self.out.push(' ');
                self.out.push_str(op.text());
                self.out.push_str("= ");
                lg.set(self.line);
                self.expr(v, BinOp::BitOr.prec());
                l.set(self.line);
            }
            Expr::Unary(op, a, l) => {
                self.out.push_str(op.text());
                self.expr(a, PREC_UNARY);
                l.set(self.line);
            }
            Expr::Binary(op, a, b, l) => {
                self.expr(a, op.prec());
                self.out.push(' ');
                self.out.push_str(op.text());
                self.out.push(' ');
                self.expr(b, op.prec() + 1);
                l.set(self.line);
            }
            Expr::And(a, b) => {
                self.expr(a, PREC_AND);
                self.out.push_str(" && ");
                self.expr(b, PREC_AND);
            }
            Expr::Or(a, b) => {
                self.expr(a, PREC_OR);
                self.out.push_str(" || ");
                self.expr(b, PREC_OR);
            }
            Expr::Range(a, b, l) => {
                self.expr(a, PREC_RANGE);
                self.out.push_str("..");
                self.expr(b, PREC_UNARY);
                l.set(self.line);
            }
            Expr::Call(f, args, l) => {
                self.expr(f, PREC_CALL);
                self.out.push('(');
                self.args(args);
                self.out.push(')');
                l.set(self.line);
            }
            Expr::Invoke(o, m, args, l) => {
                self.expr(o, PREC_CALL);
                self.out.push('.');
                self.out.push_str(m);
                self.out.push('(');
                self.args(args);
                self.out.push(')');
                l.set(self.line);
            }
            Expr::Get(o, m, l) => {
                self.expr(o, PREC_CALL);
                self.out.push('.');
                self.out.push_str(m);
                l.set(self.line);
            }
            Expr::Index(o, i, l) => {
                self.expr(o, PREC_CALL);
                self.out.push('[');
                self.expr(i, 0);
                self.out.push(']');
                l.set(self.line);
            }
            Expr::VecLit(es) => {
                self.out.push('[');
                self.args(es);
                self.out.push(']');
            }
            Expr::TupleLit(es) => {
                self.out.push('(');
                self.args(es);
                if es.len() == 1 {
                    self.out.push(',');
                }
                self.out.push(')');
            }
            Expr::MapLit(kvs, l) => {
                self.out.push('{');
                for (i, (k, v)) in kvs.iter().enumerate() {
                    if i > 0 {
                        self.out.push_str(", ");
                    }
                    self.expr(k, 0);
                    self.out.push_str(": ");
                    self.expr(v, 0);
                }
                self.out.push('}');
                l.set(self.line);
            }
            Expr::Lambda(f) => {
                self.out.push('|');
                for (i, p) in f.params.iter().enumerate() {
                    if i > 0 {
                        self.out.push_str(", ");
                    }
                    self.ident(p);
                }
                self.out.push_str("| ");
                match &f.body {
                    Body::Expr(x) => {
                        // `|| {..}` would be read as a block body
                        if starts_with_brace(x) {
                            self.out.push('(');
                            self.expr(x, 0);
                            self.out.push(')');
                        } else {
                            self.expr(x, 0)
                        }
                    }
                    Body::Block(b) => {
                        self.inline += 1;
                        self.block(b);
                        self.inline -= 1;
                    }
                }
            }
            Expr::SuperGet(m, l) => {
                self.out.push_str("super.");
                self.out.push_str(m);
                l.set(self.line);
            }
            Expr::SuperInvoke(m, args, l) => {
                self.out.push_str("super.");
                self.out.push_str(m);
                self.out.push('(');
                self.args(args);
                self.out.push(')');
                l.set(self.line);
            }
            Expr::Paren(x) => {
                self.out.push('(');
                self.expr(x, 0);
                self.out.push(')');
            }
        }
        if need {
            self.out.push(')');
        }
    }
}

pub fn render(stmts: &[Stmt]) -> String {
    let mut p = Printer::new();
    p.stmts(stmts);
    p.finish()
}

pub fn render_noisy(stmts: &[Stmt], noise: &[u8]) -> String {
    let mut p = Printer::with_noise(noise.to_vec());
    p.stmts(stmts);
    p.finish()
}

/// Render a whole program: main text and module texts (line cells of each are set independently).
pub fn render_program(p: &Program, noise: &[u8]) -> (String, Vec<(String, String)>) {
    let main = if noise.is_empty() {
        render(&p.main)
    } else {
        render_noisy(&p.main, noise)
    };
    let mut mods = Vec::new();
    for (k, (path, src)) in p.modules.iter().enumerate() {
        let text = match src {
            ModuleSrc::Ast(s) if !noise.is_empty() => {
                // each module gets its own arrangement of blank lines and comments
                let mut nz = noise.to_vec();
                let r = (k + 1) % nz.len();
                nz.rotate_left(r);
                render_noisy(s, &nz)
            }
            ModuleSrc::Ast(s) => render(s),
            ModuleSrc::Bad(t) => t.clone(),
        };
        mods.push((path.clone(), text));
    }
    (main, mods)
}
