//! Exact decimal <-> double oracle with a small big-unsigned: decides by cross-multiplication
//! whether a double is a nearest double (ties to even) to a decimal text. Independent of
//! `str::parse::<f64>` and of `f64`'s Display.

#[derive(Clone, Debug, PartialEq, Eq)]
pub struct Big(pub Vec<u32>); // little-endian limbs, no trailing zeros

impl Big {
    pub fn zero() -> Big {
        Big(vec![])
    }
    pub fn from_u64(v: u64) -> Big {
        let mut b = Big(vec![v as u32, (v >> 32) as u32]);
        b.trim();
        b
    }
    fn trim(&mut self) {
        while self.0.last() == Some(&0) {
            self.0.pop();
        }
    }
    pub fn is_zero(&self) -> bool {
        self.0.is_empty()
    }
    pub fn mul_small(&mut self, m: u32) {
        let mut carry: u64 = 0;
        for l in self.0.iter_mut() {
            let v = *l as u64 * m as u64 + carry;
            *l = v as u32;
            carry = v >> 32;
        }
        if carry > 0 {
            self.0.push(carry as u32);
        }
        self.trim();
    }
    pub fn add_small(&mut self, a: u32) {
        let mut carry = a as u64;
        for l in self.0.iter_mut() {
            if carry == 0 {
                break;
            }
            let v = *l as u64 + carry;
            *l = v as u32;
            carry = v >> 32;
        }
        if carry > 0 {
            self.0.push(carry as u32);
        }
    }
    pub fn shl(&mut self, bits: u32) {
        let limbs = (bits / 32) as usize;
        let b = bits % 32;
        if b > 0 {
            let mut carry = 0u32;
            for l in self.0.iter_mut() {
                let v = ((*l as u64) << b) | carry as u64;
                *l = v as u32;
                carry = (v >> 32) as u32;
            }
            if carry > 0 {
                self.0.push(carry);
            }
        }
        if limbs > 0 && !self.0.is_empty() {
            let mut v = vec![0u32; limbs];
            v.extend_from_slice(&self.0);
            self.0 = v;
        }
    }
    pub fn mul_pow10(&mut self, e: u32) {
        for _ in 0..e {
            self.mul_small(10);
        }
    }
    pub fn cmp(&self, o: &Big) -> std::cmp::Ordering {
        use std::cmp::Ordering::*;
        if self.0.len() != o.0.len() {
            return self.0.len().cmp(&o.0.len());
        }
        for i in (0..self.0.len()).rev() {
            if self.0[i] != o.0[i] {
                return self.0[i].cmp(&o.0[i]);
            }
        }
        Equal
    }
    pub fn add(&self, o: &Big) -> Big {
        let n = self.0.len().max(o.0.len());
        let mut r = Vec::with_capacity(n + 1);
        let mut carry = 0u64;
        for i in 0..n {
            let v = *self.0.get(i).unwrap_or(&0) as u64 + *o.0.get(i).unwrap_or(&0) as u64 + carry;
            r.push(v as u32);
            carry = v >> 32;
        }
        if carry > 0 {
            r.push(carry as u32);
        }
        let mut b = Big(r);
        b.trim();
        b
    }
}

/// A non-negative rational num / den given as (mantissa, binary exponent, decimal exponent):
/// value = m * 2^e2 * 10^e10. Returned as a pair of Bigs (numerator, denominator).
fn rational(m: &Big, e2: i32, e10: i32) -> (Big, Big) {
    let mut num = m.clone();
    let mut den = Big::from_u64(1);
    if e2 >= 0 {
        num.shl(e2 as u32);
    } else {
        den.shl((-e2) as u32);
    }
    if e10 >= 0 {
        num.mul_pow10(e10 as u32);
    } else {
        den.mul_pow10((-e10) as u32);
    }
    (num, den)
}

/// compare a/b with c/d
fn cmp_rat(a: &Big, b: &Big, c: &Big, d: &Big) -> std::cmp::Ordering {
    let l = mul(a, d);
    let r = mul(c, b);
    l.cmp(&r)
}

fn mul(a: &Big, b: &Big) -> Big {
    if a.is_zero() || b.is_zero() {
        return Big::zero();
    }
    let mut r = vec![0u32; a.0.len() + b.0.len() + 1];
    for (i, x) in a.0.iter().enumerate() {
        let mut carry = 0u64;
        for (j, y) in b.0.iter().enumerate() {
            let v = r[i + j] as u64 + *x as u64 * *y as u64 + carry;
            r[i + j] = v as u32;
            carry = v >> 32;
        }
        let mut k = i + b.0.len();
        while carry > 0 {
            let v = r[k] as u64 + carry;
            r[k] = v as u32;
            carry = v >> 32;
            k += 1;
        }
    }
    let mut b = Big(r);
    b.trim();
    b
}

/// (mantissa, exponent) with value = m * 2^e for a finite non-negative double
pub fn decompose(x: f64) -> (u64, i32) {
    let bits = x.to_bits();
    let exp = ((bits >> 52) & 0x7ff) as i32;
    let frac = bits & ((1u64 << 52) - 1);
    if exp == 0 {
        (frac, -1074)
    } else {
        (frac | (1u64 << 52), exp - 1075)
    }
}

/// A parsed decimal text: digits (as Big), decimal exponent, sign.
pub struct Dec {
    pub neg: bool,
    pub digits: Big,
    pub e10: i32,
}

/// Parses `[+-]? digits [. digits]? ([eE] [+-]? digits)?` (at least one mantissa digit).
pub fn parse_decimal(s: &str) -> Option<Dec> {
    let b = s.as_bytes();
    let mut i = 0;
    let mut neg = false;
    if i < b.len() && (b[i] == b'+' || b[i] == b'-') {
        neg = b[i] == b'-';
        i += 1;
    }
    let mut digits = Big::zero();
    let mut nd = 0;
    let mut e10: i32 = 0;
    while i < b.len() && b[i].is_ascii_digit() {
        digits.mul_small(10);
        digits.add_small((b[i] - b'0') as u32);
        nd += 1;
        i += 1;
    }
    if i < b.len() && b[i] == b'.' {
        i += 1;
        while i < b.len() && b[i].is_ascii_digit() {
            digits.mul_small(10);
            digits.add_small((b[i] - b'0') as u32);
            nd += 1;
            e10 -= 1;
            i += 1;
        }
    }
    if nd == 0 {
        return None;
    }
    if i < b.len() && (b[i] == b'e' || b[i] == b'E') {
        i += 1;
        let mut eneg = false;
        if i < b.len() && (b[i] == b'+' || b[i] == b'-') {
            eneg = b[i] == b'-';
            i += 1;
        }
        let mut e: i32 = 0;
        let mut ed = 0;
        while i < b.len() && b[i].is_ascii_digit() {
            e = e.saturating_mul(10).saturating_add((b[i] - b'0') as i32);
            ed += 1;
            i += 1;
        }
        if ed == 0 {
            return None;
        }
        e10 = e10.saturating_add(if eneg { -e } else { e });
    }
    if i != b.len() {
        return None;
    }
    digits.trim();
    Some(Dec { neg, digits, e10 })
}

fn next_up(x: f64) -> f64 {
    // x >= 0 finite
    f64::from_bits(x.to_bits() + 1)
}

/// Is `x` a correctly rounded (nearest, ties-to-even) double for the decimal `d`?
/// Exponents beyond +-5000 are not decided (None).
pub fn is_nearest(d: &Dec, x: f64) -> Option<bool> {
    if d.e10.abs() > 5000 {
        return None;
    }
    if x.is_nan() {
        return Some(false);
    }
    if x.is_sign_negative() != d.neg {
        return Some(false);
    }
    let ax = x.abs();
    let (vn, vd) = rational(&d.digits, 0, d.e10);
    if ax.is_infinite() {
        // correct iff value >= MAX + half ulp  (MAX = (2^53-1)*2^971; half ulp = 2^970)
        let mut m = Big::from_u64((1u64 << 54) - 1); // (2*(2^53-1)+1) * 2^970
        m.shl(970);
        let one = Big::from_u64(1);
        return Some(cmp_rat(&vn, &vd, &m, &one) != std::cmp::Ordering::Less);
    }
    // distance test: lower = midpoint(prev, x), upper = midpoint(x, next)
    let (m, e) = decompose(ax);
    // upper midpoint = (2m+1) * 2^(e-1)
    let up = Big::from_u64(2 * m + 1);
    let (un, ud) = rational(&up, e - 1, 0);
    let c_up = cmp_rat(&vn, &vd, &un, &ud);
    let even = m % 2 == 0;
    let upper_ok = if next_up(ax).is_infinite() && false {
        true
    } else {
        match c_up {
            std::cmp::Ordering::Less => true,
            std::cmp::Ordering::Equal => even,
            std::cmp::Ordering::Greater => false,
        }
    };
    if !upper_ok {
        return Some(false);
    }
    if ax == 0.0 {
        return Some(true);
    }
    // lower midpoint: predecessor spacing halves at a power of two boundary
    let (ln_, ld) = if m == (1u64 << 52) && e > -1074 {
        // previous double is (2^53 - 1) * 2^(e-1); midpoint = (2^54 - 1) * 2^(e-2)
        rational(&Big::from_u64((1u64 << 54) - 1), e - 2, 0)
    } else {
        rational(&Big::from_u64(2 * m - 1), e - 1, 0)
    };
    let c_lo = cmp_rat(&vn, &vd, &ln_, &ld);
    Some(match c_lo {
        std::cmp::Ordering::Greater => true,
        std::cmp::Ordering::Equal => even,
        std::cmp::Ordering::Less => false,
    })
}

/// Does the decimal text denote exactly the double `x`? (used for printed numbers: the printed
/// text must round-trip, i.e. `x` must be a nearest double of it)
pub fn text_denotes(text: &str, x: f64) -> Option<bool> {
    match text {
        "NaN" => return Some(x.is_nan()),
        "inf" => return Some(x == f64::INFINITY),
        "-inf" => return Some(x == f64::NEG_INFINITY),
        _ => {}
    }
    let d = parse_decimal(text)?;
    is_nearest(&d, x)
}

/// The number-from-text conversion the reference interpreter uses for `to_num` (the standard
/// library's grammar: decimal with optional exponent, "inf", "infinity", "nan", optional sign).
pub fn parse_number_text(s: &str) -> Option<f64> {
    s.parse::<f64>().ok()
}

#[cfg(test)]
mod tests {
    use super::*;
    #[test]
    fn roundtrip_samples() {
        for x in [0.1, 1.0, 123.456, 1e300, 5e-324, 2.2250738585072014e-308, f64::MAX, 9007199254740993.0] {
            let t = format!("{}", x);
            assert_eq!(text_denotes(&t, x), Some(true), "{}", t);
            assert_eq!(text_denotes(&t, f64::from_bits(x.to_bits() + 1)), Some(false), "{}", t);
        }
        assert_eq!(text_denotes("9007199254740993", 9007199254740992.0), Some(true));
        assert_eq!(text_denotes("9007199254740993", 9007199254740994.0), Some(false));
        assert_eq!(text_denotes("1e400", f64::INFINITY), Some(true));
        assert_eq!(text_denotes("1e308", f64::INFINITY), Some(false));
    }
}
