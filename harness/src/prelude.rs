//! Built-in classes of the reference interpreter and the core library (the language's `core.yl`)
//! as a hand-built AST, frozen from the pinned tree: Error hierarchy, StopIter, Iter with
//! map/filter/reduce/collect, MapIter, FilterIter.

use std::cell::{Cell, RefCell};
use std::collections::{BTreeMap, HashMap};
use std::rc::Rc;

use crate::ast::*;
use crate::reval::*;
use crate::rv::*;

fn native_class(
    sh: &Shared,
    name: &'static str,
    nk: NK,
    superclass: Option<Rc<Class>>,
    methods: &[&'static str],
    meta: Option<Rc<Class>>,
) -> Rc<Class> {
    let c = Rc::new(Class {
        name: name.to_string(),
        superclass: RefCell::new(superclass),
        methods: RefCell::new(methods.iter().map(|m| (m.to_string(), Method::Native(*m))).collect()),
        meta: RefCell::new(meta),
        native: nk,
    });
    sh.classes.borrow_mut().insert(name, c.clone());
    c
}

fn fdef(name: &str, kind: FnKind, params: &[&str], body: Vec<Stmt>) -> Rc<FnDef> {
    Rc::new(FnDef {
        name: RefCell::new(name.to_string()),
        params: params.iter().map(|s| s.to_string()).collect(),
        body: Body::Block(body),
        kind,
    })
}

fn class(name: &str, sup: Option<&str>, methods: Vec<Rc<FnDef>>) -> Stmt {
    Stmt::new(StmtKind::Class(Rc::new(ClassDef {
        name: name.to_string(),
        superclass: sup.map(|s| s.to_string()),
        default_ctor: None,
        methods,
        attr_line: Cell::new(0),
    })))
}

fn set_self(field: &str, v: Expr) -> Stmt {
    Stmt::expr(Expr::assign(Target::Prop(Expr::SelfE, field.to_string()), v))
}

fn ret(e: Expr) -> Stmt {
    Stmt::new(StmtKind::Return(Some(e)))
}

fn core_ast() -> Vec<Stmt> {
    let mut v = Vec::new();
    v.push(class(
        "Error",
        None,
        vec![fdef("new", FnKind::Init, &["context"], vec![set_self("context", Expr::var("context"))])],
    ));
    for n in [
        "RuntimeError",
        "AttributeError",
        "IndexError",
        "ImportError",
        "NameError",
        "TypeError",
        "ValueError",
    ] {
        v.push(class(n, Some("Error"), vec![]));
    }
    v.push(class(
        "StopIter",
        Some("Error"),
        vec![fdef(
            "new",
            FnKind::Init,
            &[],
            vec![Stmt::expr(Expr::SuperInvoke("new".into(), vec![Expr::Nil], ln()))],
        )],
    ));
    // class Iter
    let iter_methods = vec![
        fdef("iter", FnKind::Method, &[], vec![ret(Expr::SelfE)]),
        fdef(
            "map",
            FnKind::Method,
            &["f"],
            vec![ret(Expr::invoke(
                Expr::var("MapIter"),
                "new",
                vec![Expr::invoke(Expr::SelfE, "iter", vec![]), Expr::var("f")],
            ))],
        ),
        fdef(
            "collect",
            FnKind::Method,
            &[],
            vec![
                Stmt::var("ret", Some(Expr::VecLit(vec![]))),
                Stmt::new(StmtKind::For(
                    "v".into(),
                    Expr::SelfE,
                    vec![Stmt::expr(Expr::invoke(Expr::var("ret"), "push", vec![Expr::var("v")]))],
                )),
                ret(Expr::var("ret")),
            ],
        ),
        fdef(
            "filter",
            FnKind::Method,
            &["pred"],
            vec![ret(Expr::invoke(
                Expr::var("FilterIter"),
                "new",
                vec![Expr::invoke(Expr::SelfE, "iter", vec![]), Expr::var("pred")],
            ))],
        ),
        fdef(
            "reduce",
            FnKind::Method,
            &["func", "init"],
            vec![
                Stmt::var("ret", Some(Expr::var("init"))),
                Stmt::new(StmtKind::For(
                    "v".into(),
                    Expr::SelfE,
                    vec![Stmt::expr(Expr::assign_var(
                        "ret",
                        Expr::callv("func", vec![Expr::var("ret"), Expr::var("v")]),
                    ))],
                )),
                ret(Expr::var("ret")),
            ],
        ),
    ];
    v.push(class("Iter", None, iter_methods));
    // class MapIter
    let next_is_stop = || Expr::invoke(Expr::var("next"), "derives", vec![Expr::var("StopIter")]);
    let iterable_next = || Expr::invoke(Expr::get(Expr::SelfE, "iterable"), "next", vec![]);
    v.push(class(
        "MapIter",
        Some("Iter"),
        vec![
            fdef(
                "new",
                FnKind::Init,
                &["iterable", "func"],
                vec![set_self("iterable", Expr::var("iterable")), set_self("func", Expr::var("func"))],
            ),
            fdef("iter", FnKind::Method, &[], vec![ret(Expr::SelfE)]),
            fdef(
                "next",
                FnKind::Method,
                &[],
                vec![
                    Stmt::var("next", Some(iterable_next())),
                    Stmt::new(StmtKind::If(next_is_stop(), vec![ret(Expr::var("next"))], None)),
                    ret(Expr::invoke(Expr::SelfE, "func", vec![Expr::var("next")])),
                ],
            ),
        ],
    ));
    v.push(class(
        "FilterIter",
        Some("Iter"),
        vec![
            fdef(
                "new",
                FnKind::Init,
                &["iterable", "predicate"],
                vec![
                    set_self("iterable", Expr::var("iterable")),
                    set_self("predicate", Expr::var("predicate")),
                ],
            ),
            fdef("iter", FnKind::Method, &[], vec![ret(Expr::SelfE)]),
            fdef(
                "next",
                FnKind::Method,
                &[],
                vec![
                    Stmt::var("next", Some(iterable_next())),
                    Stmt::new(StmtKind::While(
                        Expr::And(
                            Box::new(Expr::un(UnOp::Not, next_is_stop())),
                            Box::new(Expr::un(
                                UnOp::Not,
                                Expr::invoke(Expr::SelfE, "predicate", vec![Expr::var("next")]),
                            )),
                        ),
                        vec![Stmt::expr(Expr::assign_var("next", iterable_next()))],
                    )),
                    ret(Expr::var("next")),
                ],
            ),
        ],
    ));
    v
}

pub const ERROR_CLASSES: [&str; 9] = [
    "Error",
    "RuntimeError",
    "AttributeError",
    "IndexError",
    "ImportError",
    "NameError",
    "TypeError",
    "ValueError",
    "StopIter",
];

pub fn install_builtins(sh: &Shared, m: &Rc<Module>, with_errors: bool) {
    let mut g = m.globals.borrow_mut();
    for n in ["clock", "type", "print"] {
        g.insert(n.to_string(), V::Native(Rc::new(NativeObj { name: n })));
    }
    for n in [
        "Type", "Object", "Nil", "Bool", "Num", "Func", "BuiltIn", "Method", "BuiltInMethod", "String",
        "Iter", "MapIter", "FilterIter", "Tuple", "Vec", "Range", "HashMap", "Fiber",
    ] {
        g.insert(n.to_string(), V::Class(sh.class(n)));
    }
    if with_errors {
        for n in ERROR_CLASSES {
            g.insert(n.to_string(), V::Class(sh.class(n)));
        }
    }
}

pub struct RefCfg {
    pub step_limit: u64,
    pub error_globals_everywhere: bool,
}

impl Default for RefCfg {
    fn default() -> Self {
        RefCfg {
            step_limit: 400_000,
            error_globals_everywhere: true,
        }
    }
}

/// A fresh reference interpreter: built-in classes, the core library loaded into module "main".
pub fn new_interp(cfg: &RefCfg, sources: &[(String, ModuleSrc)]) -> (Rc<Shared>, Ctx, Rc<Module>) {
    let sh = Rc::new(Shared {
        out: RefCell::new(Vec::new()),
        modules: RefCell::new(HashMap::new()),
        sources: RefCell::new(sources.iter().cloned().collect()),
        classes: RefCell::new(HashMap::new()),
        natives: RefCell::new(HashMap::new()),
        steps: Cell::new(0),
        step_limit: cfg.step_limit,
        events: RefCell::new(BTreeMap::new()),
        ranges: RefCell::new(Vec::new()),
        pending_finally: Cell::new(0),
        e11_armed: Cell::new(false),
        text_bytes: Cell::new(0),
        fibers: RefCell::new(Vec::new()),
        cells: RefCell::new(Vec::new()),
        instances: RefCell::new(Vec::new()),
        vecs: RefCell::new(Vec::new()),
        maps: RefCell::new(Vec::new()),
        max_depth: Cell::new(0),
        frame_serial: Cell::new(0),
        frame_counter: Cell::new(0),
        fiber_switches: Cell::new(0),
        error_globals_everywhere: cfg.error_globals_everywhere,
    });
    let object = native_class(&sh, "Object", NK::Object, None, &["derives"], None);
    let o = || Some(object.clone());
    native_class(&sh, "Type", NK::Type, o(), &[], None);
    for (n, k) in [
        ("Nil", NK::Nil),
        ("Bool", NK::Bool),
        ("Num", NK::Num),
        ("Func", NK::Func),
        ("BuiltIn", NK::BuiltIn),
        ("Method", NK::Method),
        ("BuiltInMethod", NK::BuiltInMethod),
    ] {
        native_class(&sh, n, k, o(), &[], None);
    }
    let string_meta = native_class(
        &sh,
        "StringClass",
        NK::StringClass,
        o(),
        &["from", "from_ascii", "from_utf8", "from_code_points"],
        None,
    );
    native_class(
        &sh,
        "String",
        NK::String,
        o(),
        &[
            "iter", "len", "is_alpha", "is_digit", "is_hexdigit", "count_chars", "char_byte_index", "find",
            "replace", "split", "starts_with", "ends_with", "to_num", "to_bytes", "to_code_points",
        ],
        Some(string_meta),
    );
    native_class(&sh, "Tuple", NK::Tuple, o(), &["len", "iter"], None);
    native_class(&sh, "Vec", NK::Vec, o(), &["push", "pop", "len", "iter"], None);
    native_class(&sh, "Range", NK::Range, o(), &["iter"], None);
    native_class(
        &sh,
        "HashMap",
        NK::HashMap,
        o(),
        &["has_key", "get", "insert", "remove", "clear", "len", "keys", "values", "items"],
        None,
    );
    native_class(&sh, "Module", NK::Module, o(), &[], None);
    let fiber_meta = native_class(&sh, "FiberClass", NK::FiberClass, o(), &["yield", "new"], None);
    native_class(&sh, "Fiber", NK::Fiber, o(), &["call", "has_finished"], Some(fiber_meta));

    // core library, evaluated in module "main"
    let main = Rc::new(Module {
        path: "main".to_string(),
        globals: RefCell::new(HashMap::new()),
        imported: Cell::new(false),
    });
    sh.modules.borrow_mut().insert("main".to_string(), main.clone());
    let ctx = Ctx::root(sh.clone());
    {
        // the class statements need Object-less lookups only; run them as a script frame
        ctx.push_frame("", "main", true);
        let sc = Scope {
            module: main.clone(),
            is_core: true,
            kind: FnKind::Function,
            is_script: true,
        };
        let core = core_ast();
        if ctx.exec_block(&core, &None, &sc, true).is_err() {
            panic!("reference prelude failed");
        }
        ctx.pop_frame();
        for n in ERROR_CLASSES.iter().chain(["Iter", "MapIter", "FilterIter"].iter()) {
            let c = match main.globals.borrow().get(*n) {
                Some(V::Class(c)) => c.clone(),
                _ => panic!("prelude did not define {}", n),
            };
            sh.classes.borrow_mut().insert(n, c);
        }
    }
    let iter = sh.class("Iter");
    for (n, k) in [
        ("TupleIter", NK::TupleIter),
        ("VecIter", NK::VecIter),
        ("RangeIter", NK::RangeIter),
        ("StringIter", NK::StringIter),
    ] {
        native_class(&sh, n, k, Some(iter.clone()), &["next"], None);
    }
    install_builtins(&sh, &main, true);
    sh.steps.set(0);
    sh.events.borrow_mut().clear();
    sh.max_depth.set(0);
    (sh, ctx, main)
}

/// How a reference run ended.
#[derive(Clone, Debug)]
pub enum RefEnd {
    Ok,
    Err(Report),
    Discard(&'static str),
}

pub struct RefOutcome {
    pub out: Vec<String>,
    pub end: RefEnd,
    pub events: BTreeMap<&'static str, u32>,
    pub max_depth: usize,
    pub fiber_switches: u32,
    pub distinct_ranges: usize,
    /// two distinct range objects were compared during the run
    pub range_identity_observed: bool,
    pub steps: u64,
}

/// Runs a whole program (main body plus importable modules) on a fresh reference interpreter.
pub fn run_program(p: &Program, cfg: &RefCfg) -> RefOutcome {
    let (sh, ctx, main) = new_interp(cfg, &p.modules);
    crate::rv::RANGE_IDENTITY_OBSERVED.with(|f| f.set(false));
    let end = run_snippet(&ctx, &main, &p.main);
    let o = RefOutcome {
        out: std::mem::take(&mut *sh.out.borrow_mut()),
        end,
        events: sh.events.borrow().clone(),
        max_depth: sh.max_depth.get(),
        fiber_switches: sh.fiber_switches.get(),
        distinct_ranges: sh.ranges.borrow().len(),
        range_identity_observed: crate::rv::RANGE_IDENTITY_OBSERVED.with(|f| f.get()),
        steps: sh.steps.get(),
    };
    drop(ctx);
    sh.teardown();
    o
}

/// Runs one snippet as the body of module "main" (as `interpret` does).
pub fn run_snippet(ctx: &Ctx, main: &Rc<Module>, body: &[Stmt]) -> RefEnd {
    ctx.push_frame("", "main", false);
    let sc = Scope {
        module: main.clone(),
        is_core: false,
        kind: FnKind::Function,
        is_script: true,
    };
    let r = ctx.exec_block(body, &None, &sc, true);
    let end = match r {
        Ok(()) | Err(Ctl::Return(_)) => RefEnd::Ok,
        Err(Ctl::Throw(t)) => RefEnd::Err(ctx.report_of(&t)),
        Err(Ctl::Abort(r)) => RefEnd::Err(*r),
        Err(Ctl::Discard(w)) => RefEnd::Discard(w),
        Err(Ctl::Break) | Err(Ctl::Continue) => RefEnd::Discard("break outside loop"),
    };
    ctx.fs.frames.borrow_mut().clear();
    ctx.fs.finally_in_frame.borrow_mut().clear();
    end
}
