fn main() {
    // deep recursion in yarel's compiler and in the reference interpreter needs room; the
    // yarel heap is thread-local, so running everything on one big-stack thread is fine
    let child = std::thread::Builder::new()
        .stack_size(1 << 30)
        .spawn(|| yverif::engine::main_with(yverif::props::all()))
        .unwrap();
    let code = child.join().unwrap_or(2);
    std::process::exit(code);
}
