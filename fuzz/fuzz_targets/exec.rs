//! C02/C05-C09/C18, coverage-guided: a generated program agrees with the reference interpreter,
//! never dereferences a swept object, and behaves the same when swept memory is really freed
//! (AddressSanitizer watches that run).
#![no_main]
use libfuzzer_sys::fuzz_target;

fuzz_target!(|data: &[u8]| {
    yverif::yrun::install_panic_hook();
    if let Err(e) = yverif::fuzz::exec_case(data) {
        eprintln!("ORACLE VIOLATION: {}", e);
        std::process::abort();
    }
});
