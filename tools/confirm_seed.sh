#!/bin/bash
# confirm_seed.sh <seed-dir>: in a scratch worktree, check that the patch applies, the test suite still
# passes with it (only number_long_decimal fails), and the demo differs with/without the change.
set -u
D="$(readlink -f "$1")"
W="${CONFIRM_WT:-/tmp/wt/confirm}"
cd "$W" || exit 2
git checkout -q -- . ; git clean -fdq -e target
git checkout -q --detach "$(git -C /repo rev-parse HEAD)" 2>/dev/null
run_demo() {
  # demonstrations may refer to their own files as SEED/... relative to the worktree root
  rm -rf "$W/SEED"; mkdir -p "$W/SEED"; cp -r "$D"/. "$W/SEED/"
  if [ -f "$D/demo.sh" ]; then (cd "$W" && WORKTREE="$W" timeout 900 bash "$D/demo.sh" "$W" 2>&1 | sed -e 's/0x[0-9a-f]\{6,\}/ADDR/g' -e 's/thread .<unnamed>. ([0-9]*)/thread/'; echo "exit=$?");
  elif [ -f "$D/demo.yl" ]; then (cd "$W" && timeout 120 cargo run -q --offline -p yarel-cli -- SEED/demo.yl 2>&1 | sed -e 's/0x[0-9a-f]\{6,\}/ADDR/g' -e 's/thread .<unnamed>. ([0-9]*)/thread/'; echo "exit=$?"); else echo "no demo"; fi
}
clean_out=$(run_demo)
rm -rf "$W/SEED"
git apply "$D/patch.diff" || { echo "RESULT $D patch-does-not-apply"; exit 1; }
tests=$(cargo test --workspace --no-fail-fast --offline 2>&1 | grep -E "^test result|^test .* FAILED")
broken_out=$(run_demo)
rm -rf "$W/SEED"
git checkout -q -- .
fails=$(echo "$tests" | grep -c "FAILED" )
other=$(echo "$tests" | grep "FAILED" | grep -v number_long_decimal | grep -v "^test result" | wc -l)
pass543=$(echo "$tests" | grep -c "543 passed; 1 failed")
if [ "$other" != "0" ] || [ "$pass543" != "1" ]; then echo "RESULT $D TESTS-FAIL: $tests"; exit 1; fi
if [ "$clean_out" = "$broken_out" ]; then echo "RESULT $D DEMO-SAME"; exit 1; fi
echo "RESULT $D CONFIRMED"
echo "--- clean"; echo "$clean_out" | head -8; echo "--- with change"; echo "$broken_out" | head -8
