//! The generated-program AST. The reference interpreter evaluates this tree directly; yarel sees only
//! the text the pretty-printer renders from it.

use std::cell::{Cell, RefCell};
use std::rc::Rc;

pub type Name = String;
/// line of the last token of an expression (set by the printer; 0 = use the statement's line)
pub type Ln = Cell<u32>;

#[derive(Clone, Copy, Debug, PartialEq, Eq, Hash)]
pub enum BinOp {
    Add,
    Sub,
    Mul,
    Div,
    Mod,
    BitAnd,
    BitOr,
    BitXor,
    Shl,
    Shr,
    Eq,
    Ne,
    Lt,
    Le,
    Gt,
    Ge,
}

impl BinOp {
    pub fn text(&self) -> &'static str {
        match self {
            BinOp::Add => "+",
            BinOp::Sub => "-",
            BinOp::Mul => "*",
            BinOp::Div => "/",
            BinOp::Mod => "%",
            BinOp::BitAnd => "&",
            BinOp::BitOr => "|",
            BinOp::BitXor => "^",
            BinOp::Shl => "<<",
            BinOp::Shr => ">>",
            BinOp::Eq => "==",
            BinOp::Ne => "!=",
            BinOp::Lt => "<",
            BinOp::Le => "<=",
            BinOp::Gt => ">",
            BinOp::Ge => ">=",
        }
    }
    /// precedence level as the language defines it (higher binds tighter)
    pub fn prec(&self) -> u8 {
        match self {
            BinOp::Eq | BinOp::Ne => 4,
            BinOp::Lt | BinOp::Le | BinOp::Gt | BinOp::Ge => 5,
            BinOp::BitOr => 6,
            BinOp::BitXor => 7,
            BinOp::BitAnd => 8,
            BinOp::Shl | BinOp::Shr => 9,
            BinOp::Add | BinOp::Sub => 10,
            BinOp::Mul | BinOp::Div | BinOp::Mod => 11,
        }
    }
    pub const ARITH: [BinOp; 10] = [
        BinOp::Add,
        BinOp::Sub,
        BinOp::Mul,
        BinOp::Div,
        BinOp::Mod,
        BinOp::BitAnd,
        BinOp::BitOr,
        BinOp::BitXor,
        BinOp::Shl,
        BinOp::Shr,
    ];
    pub const ALL: [BinOp; 16] = [
        BinOp::Add,
        BinOp::Sub,
        BinOp::Mul,
        BinOp::Div,
        BinOp::Mod,
        BinOp::BitAnd,
        BinOp::BitOr,
        BinOp::BitXor,
        BinOp::Shl,
        BinOp::Shr,
        BinOp::Eq,
        BinOp::Ne,
        BinOp::Lt,
        BinOp::Le,
        BinOp::Gt,
        BinOp::Ge,
    ];
}

pub const PREC_ASSIGN: u8 = 1;
pub const PREC_OR: u8 = 2;
pub const PREC_AND: u8 = 3;
pub const PREC_RANGE: u8 = 12;
pub const PREC_UNARY: u8 = 13;
pub const PREC_CALL: u8 = 14;
pub const PREC_PRIMARY: u8 = 15;

#[derive(Clone, Copy, Debug, PartialEq, Eq, Hash)]
pub enum UnOp {
    Neg,
    Not,
    BitNot,
}

impl UnOp {
    pub fn text(&self) -> &'static str {
        match self {
            UnOp::Neg => "-",
            UnOp::Not => "!",
            UnOp::BitNot => "~",
        }
    }
}

#[derive(Clone, Debug)]
pub enum Part {
    Lit(String),
    Ex(Expr),
}

#[derive(Clone, Debug)]
pub enum Target {
    Var(Name),
    Prop(Expr, Name),
    Index(Expr, Expr),
}

#[derive(Clone, Debug)]
pub enum Expr {
    Nil,
    True,
    False,
    /// non-negative, finite; printed with Rust's Display (shortest round-trip, plain decimal)
    Num(f64),
    Str(String),
    Interp(Vec<Part>),
    Var(Name, Ln),
    SelfE,
    CapSelf,
    Assign(Box<Target>, Box<Expr>, Ln),
    /// target, operator, value, line of the result (end of the value), line of the operator (where
    /// the current value is read)
    Compound(Box<Target>, BinOp, Box<Expr>, Ln, Ln),
    Unary(UnOp, Box<Expr>, Ln),
    Binary(BinOp, Box<Expr>, Box<Expr>, Ln),
    And(Box<Expr>, Box<Expr>),
    Or(Box<Expr>, Box<Expr>),
    Range(Box<Expr>, Box<Expr>, Ln),
    Call(Box<Expr>, Vec<Expr>, Ln),
    Invoke(Box<Expr>, Name, Vec<Expr>, Ln),
    Get(Box<Expr>, Name, Ln),
    Index(Box<Expr>, Box<Expr>, Ln),
    VecLit(Vec<Expr>),
    TupleLit(Vec<Expr>),
    MapLit(Vec<(Expr, Expr)>, Ln),
    Lambda(Rc<FnDef>),
    SuperGet(Name, Ln),
    SuperInvoke(Name, Vec<Expr>, Ln),
    /// explicit (redundant or required) parentheses chosen by the generator
    Paren(Box<Expr>),
}

pub fn ln() -> Ln {
    Cell::new(0)
}

impl Expr {
    pub fn var(n: &str) -> Expr {
        Expr::Var(n.to_string(), ln())
    }
    pub fn str(s: &str) -> Expr {
        Expr::Str(s.to_string())
    }
    pub fn num(n: f64) -> Expr {
        if n < 0.0 || (n == 0.0 && n.is_sign_negative()) {
            Expr::Unary(UnOp::Neg, Box::new(Expr::Num(-n)), ln())
        } else {
            Expr::Num(n)
        }
    }
    pub fn call(f: Expr, args: Vec<Expr>) -> Expr {
        Expr::Call(Box::new(f), args, ln())
    }
    pub fn callv(f: &str, args: Vec<Expr>) -> Expr {
        Expr::Call(Box::new(Expr::var(f)), args, ln())
    }
    pub fn invoke(o: Expr, m: &str, args: Vec<Expr>) -> Expr {
        Expr::Invoke(Box::new(o), m.to_string(), args, ln())
    }
    pub fn get(o: Expr, m: &str) -> Expr {
        Expr::Get(Box::new(o), m.to_string(), ln())
    }
    pub fn bin(op: BinOp, a: Expr, b: Expr) -> Expr {
        Expr::Binary(op, Box::new(a), Box::new(b), ln())
    }
    pub fn un(op: UnOp, a: Expr) -> Expr {
        Expr::Unary(op, Box::new(a), ln())
    }
    pub fn index(a: Expr, i: Expr) -> Expr {
        Expr::Index(Box::new(a), Box::new(i), ln())
    }
    pub fn range(a: Expr, b: Expr) -> Expr {
        Expr::Range(Box::new(a), Box::new(b), ln())
    }
    pub fn assign_var(n: &str, v: Expr) -> Expr {
        Expr::Assign(Box::new(Target::Var(n.to_string())), Box::new(v), ln())
    }
    pub fn assign(t: Target, v: Expr) -> Expr {
        Expr::Assign(Box::new(t), Box::new(v), ln())
    }
    pub fn compound(t: Target, op: BinOp, v: Expr) -> Expr {
        Expr::Compound(Box::new(t), op, Box::new(v), ln(), ln())
    }
    pub fn paren(e: Expr) -> Expr {
        Expr::Paren(Box::new(e))
    }
}

#[derive(Clone, Copy, Debug, PartialEq, Eq)]
pub enum FnKind {
    Function,
    Lambda,
    Method,
    Static,
    Init,
}

#[derive(Clone, Debug)]
pub enum Body {
    Block(Vec<Stmt>),
    Expr(Box<Expr>),
}

#[derive(Debug)]
pub struct FnDef {
    pub name: RefCell<String>,
    pub params: Vec<Name>,
    pub body: Body,
    pub kind: FnKind,
}

#[derive(Debug)]
pub struct ClassDef {
    pub name: Name,
    pub superclass: Option<Name>,
    /// `#[constructor(name)]` on the class
    pub default_ctor: Option<Name>,
    pub methods: Vec<Rc<FnDef>>,
    /// line of the attribute naming the superclass (Inherit is reported there)
    pub attr_line: Cell<u32>,
}

#[derive(Clone, Debug)]
pub struct Stmt {
    pub kind: StmtKind,
    pub line: Cell<u32>,
    /// `for`: line of the last token of the iterable expression; other statements: line of the
    /// statement's last token (0 = same as `line`)
    pub aux_line: Cell<u32>,
}

#[derive(Clone, Debug)]
pub enum StmtKind {
    Expr(Expr),
    Var(Name, Option<Expr>),
    Fn(Rc<FnDef>),
    Class(Rc<ClassDef>),
    Block(Vec<Stmt>),
    /// else branch is a Block or an If statement
    If(Expr, Vec<Stmt>, Option<Box<Stmt>>),
    While(Expr, Vec<Stmt>),
    For(Name, Expr, Vec<Stmt>),
    Break,
    Continue,
    Return(Option<Expr>),
    Throw(Expr),
    Try(Vec<Stmt>, Option<(Name, Vec<Stmt>)>, Option<Vec<Stmt>>),
    Import(String, Option<Name>),
}

impl Stmt {
    pub fn new(kind: StmtKind) -> Stmt {
        Stmt {
            kind,
            line: Cell::new(0),
            aux_line: Cell::new(0),
        }
    }
    pub fn expr(e: Expr) -> Stmt {
        Stmt::new(StmtKind::Expr(e))
    }
    pub fn print(e: Expr) -> Stmt {
        Stmt::expr(Expr::callv("print", vec![e]))
    }
    pub fn var(n: &str, e: Option<Expr>) -> Stmt {
        Stmt::new(StmtKind::Var(n.to_string(), e))
    }
}

#[derive(Clone, Debug)]
pub struct Program {
    pub main: Vec<Stmt>,
    /// (path, body) of importable modules served by the in-memory loader
    pub modules: Vec<(String, ModuleSrc)>,
}

#[derive(Clone, Debug)]
pub enum ModuleSrc {
    Ast(Vec<Stmt>),
    /// fixed text that does not compile (for ImportError paths)
    Bad(String),
}
