#!/bin/bash
# MANIFEST.setup_cmd: build every flavour once, offline, from files on disk only.
set -e
cd "$(dirname "$0")"
export CARGO_NET_OFFLINE=true
mkdir -p target evidence
( cd harness && cargo build --offline --profile checked --bin vcheck )
( cd harness && cargo build --offline --profile paced --bin vcheck )
if [ -x ./build_runners.sh ]; then ./build_runners.sh quick; fi
echo "setup done"
