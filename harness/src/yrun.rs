//! Running the real yarel: fresh `Vm` per run, captured output, panics caught and described,
//! module sources served from memory, hook control when built with the `hooks` feature.

use std::cell::RefCell;
use std::collections::HashMap;
use std::panic;
use std::sync::Once;

use yarel::error::{Error, ErrorKind};
use yarel::value::Value;
use yarel::vm::{self, Vm};

thread_local! {
    static OUTPUT: RefCell<Vec<String>> = RefCell::new(Vec::new());
    static MODULES: RefCell<HashMap<String, String>> = RefCell::new(HashMap::new());
    static LAST_PANIC: RefCell<Option<String>> = RefCell::new(None);
    static QUIET_PANICS: RefCell<bool> = RefCell::new(false);
}

static HOOK: Once = Once::new();

/// Install a panic hook that records message and location for the current thread instead of
/// printing, while `QUIET_PANICS` is set on that thread.
pub fn install_panic_hook() {
    HOOK.call_once(|| {
        let default = panic::take_hook();
        panic::set_hook(Box::new(move |info| {
            let quiet = QUIET_PANICS.with(|q| *q.borrow());
            if quiet {
                let msg = if let Some(s) = info.payload().downcast_ref::<&str>() {
                    s.to_string()
                } else if let Some(s) = info.payload().downcast_ref::<String>() {
                    s.clone()
                } else {
                    "<non-string panic payload>".to_string()
                };
                let loc = info
                    .location()
                    .map(|l| {
                        let f = l.file();
                        let f = f.rsplit('/').next().unwrap_or(f);
                        format!("{}", f)
                    })
                    .unwrap_or_default();
                LAST_PANIC.with(|p| *p.borrow_mut() = Some(format!("{} @ {}", msg, loc)));
            } else {
                default(info);
            }
        }));
    });
}

pub fn quiet(on: bool) {
    QUIET_PANICS.with(|q| *q.borrow_mut() = on);
}

pub fn take_panic() -> String {
    LAST_PANIC
        .with(|p| p.borrow_mut().take())
        .unwrap_or_else(|| "<unknown panic>".into())
}

pub fn take_output() -> Vec<String> {
    OUTPUT.with(|o| std::mem::take(&mut *o.borrow_mut()))
}

fn capture_print(vm: &mut Vm, num_args: usize) -> Result<Value, Error> {
    if num_args != 1 {
        return Err(Error::with_message(
            ErrorKind::TypeError,
            "Expected one argument to 'print'.",
        ));
    }
    let text = format!("{}", vm.native_arg(1));
    OUTPUT.with(|o| o.borrow_mut().push(text));
    Ok(Value::None)
}

fn memory_loader(path: &str) -> Result<String, Error> {
    MODULES.with(|m| match m.borrow().get(path) {
        Some(src) => Ok(src.clone()),
        None => Err(Error::with_message(
            ErrorKind::ImportError,
            &format!("Unable to read file '{}.yl' (file not found).", path),
        )),
    })
}

#[derive(Clone, Copy, Debug, PartialEq)]
pub enum GcCfg {
    /// what the build does by itself (checked flavour: collect at every allocation)
    Default,
    Never,
    /// collect exactly at the allocations whose bit is set (cyclic)
    Schedule(u64),
}

#[derive(Clone, Debug)]
pub struct RunCfg {
    pub gc: GcCfg,
    pub quarantine: bool,
    pub fuel: Option<u64>,
    pub modules: Vec<(String, String)>,
}

impl Default for RunCfg {
    fn default() -> Self {
        RunCfg {
            gc: GcCfg::Default,
            quarantine: false,
            fuel: Some(2_000_000),
            modules: Vec::new(),
        }
    }
}

#[derive(Clone, Debug, PartialEq)]
pub enum End {
    Ok(String),
    Err(ErrorKind, Vec<String>),
    Panic(String),
}

#[derive(Clone, Debug)]
pub struct Outcome {
    pub out: Vec<String>,
    pub end: End,
    pub fuel_exhausted: bool,
    /// use-after-sweep events (type names), total count
    pub uas: Vec<String>,
    pub uas_count: usize,
    pub collections: usize,
    pub swept: usize,
    pub fiber_mismatches: u64,
    /// instruction boundaries at which an open upvalue pointed above the stack top
    pub dangling_upvalues: u64,
    pub executed: u64,
}

impl Outcome {
    pub fn kind_name(&self) -> String {
        match &self.end {
            End::Ok(_) => "Ok".into(),
            End::Err(k, _) => format!("{:?}", k),
            End::Panic(_) => "Panic".into(),
        }
    }
}

pub fn is_fuel(msgs: &[String]) -> bool {
    msgs.iter().any(|m| m.contains("verif: instruction fuel exhausted"))
}

#[cfg(feature = "hooks")]
fn hooks_begin(cfg: &RunCfg) {
    use yarel::memory::verif as mv;
    match cfg.gc {
        GcCfg::Default => mv::set_gc_mode(mv::GcMode::Default),
        GcCfg::Never => mv::set_gc_mode(mv::GcMode::Never),
        GcCfg::Schedule(bits) => {
            mv::set_schedule(bits.to_le_bytes().to_vec());
            mv::set_gc_mode(mv::GcMode::Schedule);
        }
    }
    mv::set_quarantine(cfg.quarantine);
    let _ = mv::take_events();
    let _ = mv::take_counters();
    vm::verif::set_fuel(cfg.fuel);
    let _ = vm::verif::take_executed();
    let _ = vm::verif::take_fiber_mismatches();
    let _ = vm::verif::take_dangling_upvalues();
}

#[cfg(not(feature = "hooks"))]
fn hooks_begin(_cfg: &RunCfg) {}

#[cfg(feature = "hooks")]
fn hooks_end(o: &mut Outcome) {
    use yarel::memory::verif as mv;
    let (events, n) = mv::take_events();
    o.uas = events
        .iter()
        .map(|e| format!("{}{}", e.type_name, if e.during_gc { " (gc)" } else { "" }))
        .collect();
    o.uas_count = n;
    let (c, s) = mv::take_counters();
    o.collections = c;
    o.swept = s;
    o.executed = vm::verif::take_executed();
    o.fiber_mismatches = vm::verif::take_fiber_mismatches();
    o.dangling_upvalues = vm::verif::take_dangling_upvalues();
    mv::set_gc_mode(mv::GcMode::Default);
    mv::set_quarantine(false);
    mv::purge();
    vm::verif::set_fuel(None);
}

#[cfg(not(feature = "hooks"))]
fn hooks_end(_o: &mut Outcome) {}

fn end_of(result: Result<Result<Value, Error>, Box<dyn std::any::Any + Send>>) -> End {
    match result {
        Ok(Ok(v)) => End::Ok(format!("{}", v)),
        Ok(Err(e)) => End::Err(e.kind(), e.messages().clone()),
        Err(_) => End::Panic(
            LAST_PANIC
                .with(|p| p.borrow_mut().take())
                .unwrap_or_else(|| "<unknown panic>".into()),
        ),
    }
}

/// Host-side change of what the in-memory loader serves (between the snippets of a history): a module
/// that did not exist appears, or a broken one is repaired. `None` removes the path.
pub fn set_module(path: &str, text: Option<String>) {
    MODULES.with(|m| {
        let mut m = m.borrow_mut();
        match text {
            Some(t) => {
                m.insert(path.to_string(), t);
            }
            None => {
                m.remove(path);
            }
        }
    });
}

/// A reusable interpreter session (one `Vm`), for C15 histories; `run_source` is a one-snippet session.
pub struct Session {
    vm: Option<Vm>,
    cfg: RunCfg,
    dead: bool,
}

impl Session {
    pub fn new(cfg: RunCfg) -> Session {
        install_panic_hook();
        MODULES.with(|m| {
            let mut m = m.borrow_mut();
            m.clear();
            for (k, v) in &cfg.modules {
                m.insert(k.clone(), v.clone());
            }
        });
        OUTPUT.with(|o| o.borrow_mut().clear());
        hooks_begin(&cfg);
        QUIET_PANICS.with(|q| *q.borrow_mut() = true);
        let vm = panic::catch_unwind(|| {
            let mut vm = Vm::with_built_ins();
            vm.set_printer(capture_print);
            vm.set_module_loader(memory_loader);
            vm
        });
        QUIET_PANICS.with(|q| *q.borrow_mut() = false);
        match vm {
            Ok(vm) => Session {
                vm: Some(vm),
                cfg,
                dead: false,
            },
            Err(_) => Session {
                vm: None,
                cfg,
                dead: true,
            },
        }
    }

    pub fn set_fuel(&mut self, fuel: Option<u64>) {
        self.cfg.fuel = fuel;
        #[cfg(feature = "hooks")]
        vm::verif::set_fuel(fuel);
    }

    fn guarded<T>(
        &mut self,
        f: impl FnOnce(&mut Vm) -> T,
    ) -> Result<T, Box<dyn std::any::Any + Send>> {
        QUIET_PANICS.with(|q| *q.borrow_mut() = true);
        let vm = self.vm.as_mut().unwrap();
        let r = panic::catch_unwind(panic::AssertUnwindSafe(|| f(vm)));
        QUIET_PANICS.with(|q| *q.borrow_mut() = false);
        r
    }

    /// Runs one snippet; returns its printed lines and how it ended.
    pub fn feed(&mut self, src: &str) -> (Vec<String>, End) {
        if self.dead {
            return (vec![], End::Panic("interpreter construction panicked".into()));
        }
        #[cfg(feature = "hooks")]
        vm::verif::set_fuel(self.cfg.fuel);
        let source = src.to_string();
        let r = self.guarded(move |vm| vm::interpret(vm, source, None));
        let end = end_of(r);
        let out = OUTPUT.with(|o| std::mem::take(&mut *o.borrow_mut()));
        (out, end)
    }

    pub fn compile_only(&mut self, src: &str) -> End {
        if self.dead {
            return End::Panic("interpreter construction panicked".into());
        }
        let source = src.to_string();
        let r = self.guarded(move |vm| {
            yarel::compiler::compile(vm, source, None).map(|_| Value::None)
        });
        end_of(r)
    }

    pub fn reset(&mut self) -> Option<String> {
        if self.dead {
            return Some("dead".into());
        }
        let r = self.guarded(|vm| {
            vm.reset();
            vm.set_printer(capture_print);
        });
        match r {
            Ok(()) => None,
            Err(_) => Some(
                LAST_PANIC
                    .with(|p| p.borrow_mut().take())
                    .unwrap_or_else(|| "<unknown panic>".into()),
            ),
        }
    }

    pub fn vm(&mut self) -> Option<&mut Vm> {
        self.vm.as_mut()
    }

    /// Drops the interpreter and collects hook statistics.
    pub fn finish(mut self) -> Outcome {
        let mut o = Outcome {
            out: vec![],
            end: End::Ok(String::new()),
            fuel_exhausted: false,
            uas: vec![],
            uas_count: 0,
            collections: 0,
            swept: 0,
            fiber_mismatches: 0,
            dangling_upvalues: 0,
            executed: 0,
        };
        QUIET_PANICS.with(|q| *q.borrow_mut() = true);
        let vm = self.vm.take();
        let r = panic::catch_unwind(panic::AssertUnwindSafe(move || drop(vm)));
        QUIET_PANICS.with(|q| *q.borrow_mut() = false);
        if r.is_err() {
            o.end = End::Panic(format!(
                "drop: {}",
                LAST_PANIC
                    .with(|p| p.borrow_mut().take())
                    .unwrap_or_default()
            ));
        }
        hooks_end(&mut o);
        o
    }
}

pub fn run_source(src: &str, cfg: &RunCfg) -> Outcome {
    let mut s = Session::new(cfg.clone());
    let (out, end) = s.feed(src);
    let mut o = s.finish();
    o.out = out;
    if let End::Panic(p) = &o.end {
        // a panic while dropping the interpreter: keep it only if the run itself was clean
        if !matches!(end, End::Panic(_)) {
            o.end = End::Panic(p.clone());
            return o;
        }
    }
    if let End::Err(_, msgs) = &end {
        o.fuel_exhausted = is_fuel(msgs);
    }
    o.end = end;
    o
}

/// Replace every `0x[0-9a-f]+` by `[MEMADDR]`.
pub fn normalise_addr(s: &str) -> String {
    let b = s.as_bytes();
    let mut out = String::with_capacity(s.len());
    let mut i = 0;
    while i < b.len() {
        if b[i] == b'0' && i + 2 < b.len() + 0 && b.get(i + 1) == Some(&b'x') {
            let mut j = i + 2;
            while j < b.len() && (b[j].is_ascii_digit() || (b'a'..=b'f').contains(&b[j])) {
                j += 1;
            }
            // pointers print as 0x followed by many hex digits; short runs such as "0x0" are data
            if j >= i + 2 + 6 {
                out.push_str("[MEMADDR]");
                i = j;
                continue;
            }
        }
        // copy one UTF-8 char
        let ch_len = utf8_len(b[i]);
        out.push_str(&s[i..(i + ch_len).min(b.len())]);
        i += ch_len;
    }
    out
}

fn utf8_len(b: u8) -> usize {
    if b < 0x80 {
        1
    } else if b >> 5 == 0b110 {
        2
    } else if b >> 4 == 0b1110 {
        3
    } else if b >> 3 == 0b11110 {
        4
    } else {
        1
    }
}

pub fn kind_name(k: ErrorKind) -> &'static str {
    match k {
        ErrorKind::AttributeError => "AttributeError",
        ErrorKind::CompileError => "CompileError",
        ErrorKind::ImportError => "ImportError",
        ErrorKind::IndexError => "IndexError",
        ErrorKind::NameError => "NameError",
        ErrorKind::RuntimeError => "RuntimeError",
        ErrorKind::TypeError => "TypeError",
        ErrorKind::ValueError => "ValueError",
    }
}
