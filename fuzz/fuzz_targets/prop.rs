//! Coverage-guided stage for the model-based and differential properties: the input is one case of
//! the family named by VERIF_FUZZ_FAMILY of the property named by VERIF_FUZZ_PROP, decoded by the
//! same generator and judged by the same oracle as in the proptest-driven check.
#![no_main]
use libfuzzer_sys::fuzz_target;

fuzz_target!(|data: &[u8]| {
    yverif::yrun::install_panic_hook();
    let id = std::env::var("VERIF_FUZZ_PROP").expect("VERIF_FUZZ_PROP");
    let family = std::env::var("VERIF_FUZZ_FAMILY").expect("VERIF_FUZZ_FAMILY");
    if let Err(e) = yverif::fuzz::prop_case(&id, &family, data) {
        eprintln!("ORACLE VIOLATION: {}", e);
        std::process::abort();
    }
});
