//! C05–C09, C18: properties decided by differential runs against the reference interpreter.

use std::collections::BTreeMap;

use crate::diff::DiffResult;
use crate::profiles;
use crate::props::diffprop::DiffProp;

type Ev = BTreeMap<&'static str, u32>;

fn ev(e: &Ev, k: &str) -> u32 {
    e.get(k).copied().unwrap_or(0)
}

fn has(l: &[&'static str], k: &str) -> bool {
    l.iter().any(|x| *x == k)
}

fn nt_c05(_l: &[&'static str], e: &Ev, _d: &DiffResult) -> bool {
    ev(e, "break_exec") + ev(e, "continue_exec") + ev(e, "return_exec") + ev(e, "short_circuit") > 0
        || e.keys().any(|k| k.starts_with("err:"))
}

fn nt_c06(_l: &[&'static str], e: &Ev, _d: &DiffResult) -> bool {
    ev(e, "captured_write") > 0 && ev(e, "captured_read") > 0
}

fn nt_c07(_l: &[&'static str], e: &Ev, _d: &DiffResult) -> bool {
    ev(e, "super_call") > 0 || ev(e, "inherited_lookup") > 0 || ev(e, "bound_call") > 0
}

fn nt_c08(_l: &[&'static str], e: &Ev, _d: &DiffResult) -> bool {
    ev(e, "caught_nested") > 0
        || ev(e, "caught_from_callee") > 0
        || ev(e, "finally_pending_throw") + ev(e, "finally_pending_exit") > 0
}

fn nt_c09(_l: &[&'static str], e: &Ev, d: &DiffResult) -> bool {
    (ev(e, "fiber_yielded") >= 2 && d.fiber_switches >= 3)
        || ((ev(e, "fiber_call_finished") + ev(e, "fiber_call_running") + ev(e, "yield_at_root")) > 0
            && ev(e, "fiber_yielded") + ev(e, "fiber_returned") > 0)
}

fn nt_c18(l: &[&'static str], e: &Ev, _d: &DiffResult) -> bool {
    has(l, "iter_chain") && (ev(e, "for:tuple") + ev(e, "for:range") + ev(e, "for:str") + ev(e, "for:instance") + ev(e, "for:iter") > 0)
        || ev(e, "break_exec") + ev(e, "continue_exec") > 0 && ev(e, "for:vec") + ev(e, "for:range") > 0
}

pub fn c05() -> DiffProp {
    DiffProp {
        id: "C05",
        families: vec![
            ("expr", profiles::c05(), 24_000, 500_000, 600),
            ("expr_illtyped", { let mut p = profiles::c05(); p.illtyped = 6; p }, 6_000, 100_000, 600),
        ],
        rule: "cases: byte strings decoded by the grammar-based program generator (profile c05: every unary/binary/logical operator, ranges, indexing/slicing, interpolation, assignment and compound assignment, if/else-if/else, while, for, break, continue, blocks, return; operands of every value kind; minimal or redundant parentheses). Oracle: reference interpreter over the AST vs yarel on the rendered text: printed values, final outcome, error class and trace. Non-trivial: the run executed a break/continue/return/short-circuit or raised a built-in error; distinct by hash of the program text.",
        nontrivial: nt_c05,
        floors: vec![("gen:compound_assign", 2000), ("ev:short_circuit", 2000), ("ev:err:TypeError", 2000), ("ev:break_exec", 100), ("ev:continue_exec", 100), ("ev:err:IndexError", 300), ("ev:err:ValueError", 20)],
        assumptions: vec![],
    }
}

pub fn c06() -> DiffProp {
    DiffProp {
        id: "C06",
        families: vec![("scopes", profiles::c06(), 24_000, 500_000, 700)],
        rule: "cases: generated programs (profile c06: nested blocks, functions, lambdas and loops to depth 5, shadowing, closures stored in variables and called later, closures assigning captured variables, parameters and loop-body variables captured, global redefinition). Oracle: reference interpreter (variables are heap cells in persistent scope lists) vs yarel. Non-trivial: a variable was written from a call frame other than the one that declared it and a captured variable was read; distinct by program text.",
        nontrivial: nt_c06,
        floors: vec![("gen:shadow", 2000), ("gen:lambda", 3000), ("ev:captured_write", 300), ("ev:captured_read", 3000)],
        assumptions: vec![],
    }
}

pub fn c07() -> DiffProp {
    DiffProp {
        id: "C07",
        families: vec![("classes", profiles::c07(), 20_000, 400_000, 900)],
        rule: "cases: generated programs (profile c07: class hierarchies with overriding, fields shadowing methods, static methods and Self, default and explicit constructors with and without super.new, super.m() and bound super.m, self-dispatch, bound methods stored and called later, wrong arity, unknown members, type() and derives()). Oracle: reference interpreter vs yarel. Non-trivial: a super call, a method found in an ancestor, or a bound method call was executed; distinct by program text.",
        nontrivial: nt_c07,
        floors: vec![("gen:class_derived", 1500), ("ev:super_call", 300), ("ev:inherited_lookup", 1000), ("ev:bound_call", 1000), ("gen:static_method", 1000)],
        assumptions: vec!["super used inside a function nested in a method is excluded (recorded finding S1)"],
    }
}

pub fn c08() -> DiffProp {
    DiffProp {
        id: "C08",
        families: vec![
            ("exceptions", profiles::c08(), 20_000, 400_000, 800),
            ("exceptions_triggers", profiles::with_triggers(profiles::c08()), 4_000, 60_000, 800),
        ],
        rule: "cases: generated programs (profile c08: try/catch, try/finally, try/catch/finally nested and interleaved with loops, functions and closures; explicit throws of any value, built-in failures, throws from callees; rethrow). Family 'exceptions' keeps recorded-defect shapes off, 'exceptions_triggers' turns them on and counts failures that match a recorded finding. Oracle: reference interpreter (finally always runs once, then the saved outcome continues) vs yarel. Non-trivial: an exception was caught with >=2 try statements active, or from a callee, or a finally ran with a pending outcome; distinct by program text.",
        nontrivial: nt_c08,
        floors: vec![("ev:caught", 5000), ("ev:caught_nested", 500), ("ev:caught_from_callee", 200), ("ev:finally_normal", 500), ("ev:finally_pending_throw", 100)],
        assumptions: vec!["shapes of the recorded findings (KNOWN_FINDINGS.txt, signatures ref-mismatch+E*) are excluded from the bulk family by construction and counted in the trigger family"],
    }
}

pub fn c09() -> DiffProp {
    DiffProp {
        id: "C09",
        families: vec![("fibers", profiles::c09(), 16_000, 300_000, 800)],
        rule: "cases: generated programs (profile c09: fibers whose bodies yield from loops, nested function frames and try blocks, return values, take parameters; drivers that call with and without values, too few/many times, with wrong argument counts, query has_finished). Oracle: reference interpreter with stackful coroutines vs yarel. Non-trivial: >=2 yields and >=3 switches, or a rejected misuse next to successful transfers; distinct by program text.",
        nontrivial: nt_c09,
        floors: vec![("ev:fiber_yielded", 5000), ("ev:fiber_returned", 1000), ("ev:fiber_call_finished", 300), ("gen:yield_nested_frame", 500), ("gen:try_spans_yield", 500)],
        assumptions: vec![],
    }
}

pub fn c18() -> DiffProp {
    DiffProp {
        id: "C18",
        families: vec![("iteration", profiles::c18(), 20_000, 400_000, 700)],
        rule: "cases: generated programs (profile c18: for loops over vectors, tuples, ascending/descending/empty ranges, strings with multi-byte characters, non-iterables; chains of map/filter ending in collect/reduce/for; break/continue/return inside loops; push during iteration). Oracle: reference interpreter, whose map/filter/reduce/collect are a frozen copy of the core library evaluated by the same tree walker, vs yarel. Non-trivial: an adapter chain over a non-vector iterable, or a break/continue executed inside a for loop; distinct by program text.",
        nontrivial: nt_c18,
        floors: vec![("gen:iter_chain", 5000), ("ev:for:range", 2000), ("ev:for:str", 300), ("ev:for:tuple", 300), ("ev:for:iter", 500)],
        assumptions: vec![],
    }
}
