//! C12 generator: histories of HashMap operations over a pool of equal-but-differently-built keys.
//! Every result is printed; enumerations are printed one element per line between multiset markers.

use std::cell::{Cell, RefCell};
use std::rc::Rc;

use crate::ast::*;
use crate::rd::Rd;

fn n(x: f64) -> Expr {
    Expr::num(x)
}
fn s(x: &str) -> Expr {
    Expr::str(x)
}
fn add(a: Expr, b: Expr) -> Expr {
    Expr::bin(BinOp::Add, a, b)
}
fn tup(v: Vec<Expr>) -> Expr {
    Expr::TupleLit(v)
}

pub const POOL: usize = 47;
/// number of hashable key expressions (indices below this)
pub const HASHABLE: usize = 39;

/// key expression number `i`; several indices denote equal keys built differently
pub fn key_expr(i: usize) -> Expr {
    match i {
        0 => n(1.0),
        1 => Expr::bin(BinOp::Sub, n(2.0), n(1.0)),
        2 => add(n(0.5), n(0.5)),
        3 => n(0.0),
        4 => n(-0.0),
        5 => Expr::bin(BinOp::Mul, n(0.0), n(-1.0)),
        6 => s("ab"),
        7 => add(s("a"), s("b")),
        8 => Expr::index(s("xaby"), Expr::range(n(1.0), n(3.0))),
        9 => s(""),
        10 => tup(vec![n(1.0), n(2.0)]),
        11 => tup(vec![n(1.0), add(n(1.0), n(1.0))]),
        12 => tup(vec![n(2.0), n(1.0)]),
        13 => tup(vec![n(1.0), n(1.0)]),
        14 => tup(vec![n(2.0), n(2.0)]),
        15 => tup(vec![tup(vec![n(1.0)]), s("a")]),
        16 => tup(vec![tup(vec![Expr::bin(BinOp::Sub, n(3.0), n(2.0))]), add(s(""), s("a"))]),
        17 => tup(vec![n(0.0), n(1.0)]),
        18 => tup(vec![n(-0.0), n(1.0)]),
        19 => tup(vec![]),
        20 => Expr::bin(BinOp::Div, n(0.0), n(0.0)), // NaN
        21 => Expr::True,
        22 => Expr::False,
        23 => Expr::Nil,
        24 => Expr::var("Num"),
        25 => Expr::var("String"),
        26 => Expr::var("KeyClass"),
        27 => Expr::range(n(0.0), n(3.0)),
        28 => Expr::range(n(1.0), n(4.0)),
        29 => n(2.0),
        30 => n(3.0),
        31 => n(255.0),
        32 => n(-1.0),
        33 => s("1"),
        34 => n(1e19),
        35 => tup(vec![s("ab"), Expr::Nil, Expr::True]),
        // tuples that contain NaN: hashable; such a tuple equals itself (one object) but no other
        // tuple, so the same object offered again denotes its entry and a rebuilt one never does
        36 => tup(vec![Expr::bin(BinOp::Div, n(0.0), n(0.0)), n(1.0)]),
        37 => tup(vec![tup(vec![Expr::bin(BinOp::Div, n(0.0), n(0.0))]), s("a")]),
        38 => tup(vec![n(1.0), Expr::bin(BinOp::Div, n(0.0), n(0.0))]),
        // unhashable from here
        39 => Expr::VecLit(vec![n(1.0)]),
        40 => Expr::MapLit(vec![], ln()),
        41 => Expr::var("inst"),
        42 => Expr::var("func"),
        43 => tup(vec![n(1.0), Expr::VecLit(vec![])]),
        44 => Expr::invoke(Expr::VecLit(vec![n(1.0)]), "iter", vec![]),
        45 => Expr::get(s("x"), "len"),
        _ => tup(vec![tup(vec![Expr::MapLit(vec![], ln())])]),
    }
}

fn value_expr(rd: &mut Rd) -> Expr {
    match rd.below(6) {
        0 => s("v"),
        1 => Expr::Nil,
        2 => Expr::VecLit(vec![n(rd.below(3) as f64)]),
        _ => n(rd.below(20) as f64),
    }
}

fn guarded(e: Expr, counter: &mut usize) -> Stmt {
    *counter += 1;
    let ev = format!("e{}", counter);
    Stmt::new(StmtKind::Try(
        vec![Stmt::print(e)],
        Some((ev.clone(), vec![Stmt::print(Expr::callv("type", vec![Expr::var(&ev)]))])),
        None,
    ))
}

fn enumerate(m: &str, what: &str, counter: &mut usize) -> Vec<Stmt> {
    *counter += 1;
    let x = format!("x{}", counter);
    vec![
        Stmt::print(s("<<ms")),
        Stmt::new(StmtKind::For(
            x.clone(),
            Expr::invoke(Expr::var(m), what, vec![]),
            vec![Stmt::print(Expr::var(&x))],
        )),
        Stmt::print(s(">>ms")),
    ]
}

pub fn program(data: &[u8]) -> (Program, Vec<&'static str>) {
    let mut rd = Rd::new(data, 10_000);
    let mut labels: Vec<&'static str> = Vec::new();
    let mut main: Vec<Stmt> = Vec::new();
    let mut counter = 0usize;
    // fixtures
    main.push(Stmt::new(StmtKind::Class(Rc::new(ClassDef {
        name: "KeyClass".into(),
        superclass: None,
        default_ctor: Some("new".into()),
        methods: vec![],
        attr_line: Cell::new(0),
    }))));
    main.push(Stmt::var("inst", Some(Expr::invoke(Expr::var("KeyClass"), "new", vec![]))));
    main.push(Stmt::var(
        "func",
        Some(Expr::Lambda(Rc::new(FnDef {
            name: RefCell::new("lambda-0".into()),
            params: vec![],
            body: Body::Expr(Box::new(n(1.0))),
            kind: FnKind::Lambda,
        }))),
    ));
    // a restricted pool per history makes equal keys meet often
    let pool_size = 4 + rd.below(14);
    let mut pool: Vec<usize> = Vec::new();
    for _ in 0..pool_size {
        let i = if rd.chance(1, 8) { HASHABLE + rd.below(POOL - HASHABLE) } else { rd.below(HASHABLE) };
        pool.push(i);
    }
    let dense = rd.chance(1, 6); // many distinct numeric keys: forces table growth
    // every pool key is also bound to a variable once, so that the very same object can be offered
    // again (an unhashable tuple rejected twice, a key looked up through itself)
    for (slot, i) in pool.iter().enumerate() {
        main.push(Stmt::var(&format!("key{}", slot), Some(key_expr(*i))));
    }
    let mut pick_key = |rd: &mut Rd| -> Expr {
        if dense && rd.chance(2, 3) {
            n(rd.below(48) as f64)
        } else {
            let slot = rd.below(pool.len());
            if rd.chance(1, 3) {
                Expr::var(&format!("key{}", slot))
            } else {
                key_expr(pool[slot])
            }
        }
    };
    // maps: literal construction (a literal evaluates all keys and values first, then inserts)
    // one history in twelve builds its second map from a literal with 100-255 entries (numeric keys
    // beyond the pool's, so that the pool keys still meet in it later)
    let big_literal = rd.chance(1, 12);
    let big_n = 100 + rd.below(156);
    for m in ["m0", "m1"] {
        let k = rd.below(5);
        let mut kvs = Vec::new();
        for _ in 0..k {
            kvs.push((pick_key(&mut rd), value_expr(&mut rd)));
        }
        if big_literal && m == "m1" {
            // (a literal holds at most 255 entries, the pool keys in front included)
            for i in 0..big_n.min(255 - kvs.len()) {
                kvs.push((n(1000.0 + i as f64), n(i as f64)));
            }
            labels.push("big_literal");
        }
        counter += 1;
        let ev = format!("e{}", counter);
        main.push(Stmt::var(m, Some(Expr::MapLit(vec![], ln()))));
        main.push(Stmt::new(StmtKind::Try(
            vec![Stmt::expr(Expr::assign_var(m, Expr::MapLit(kvs, ln())))],
            Some((ev.clone(), vec![Stmt::print(Expr::callv("type", vec![Expr::var(&ev)]))])),
            None,
        )));
        labels.push("map_literal");
        if big_literal && m == "m1" {
            main.push(Stmt::print(Expr::invoke(Expr::var(m), "len", vec![])));
            for i in [0usize, 1, big_n / 2, big_n - 1, big_n] {
                main.push(Stmt::print(Expr::invoke(Expr::var(m), "get", vec![n(1000.0 + i as f64)])));
                main.push(Stmt::print(Expr::invoke(Expr::var(m), "has_key", vec![n(1000.0 + i as f64)])));
            }
        }
    }
    let ops = 4 + rd.below(56);
    let mut removed = false;
    for _ in 0..ops {
        if rd.exhausted() {
            break;
        }
        let m = if rd.chance(3, 4) { "m0" } else { "m1" };
        match rd.below(16) {
            0..=4 => {
                let k = pick_key(&mut rd);
                let v = value_expr(&mut rd);
                main.push(guarded(Expr::invoke(Expr::var(m), "insert", vec![k, v]), &mut counter));
                labels.push("insert");
            }
            5 | 6 => {
                let k = pick_key(&mut rd);
                main.push(guarded(Expr::invoke(Expr::var(m), "remove", vec![k]), &mut counter));
                labels.push("remove");
                removed = true;
            }
            7..=9 => {
                let k = pick_key(&mut rd);
                main.push(guarded(Expr::invoke(Expr::var(m), "get", vec![k]), &mut counter));
                labels.push(if removed { "get_after_remove" } else { "get" });
            }
            10 | 11 => {
                let k = pick_key(&mut rd);
                main.push(guarded(Expr::invoke(Expr::var(m), "has_key", vec![k]), &mut counter));
                labels.push("has_key");
            }
            12 => {
                main.push(Stmt::print(Expr::invoke(Expr::var(m), "len", vec![])));
                labels.push("len");
            }
            13 => {
                let what = rd.pick_str(&["keys", "values", "items"]);
                main.extend(enumerate(m, what, &mut counter));
                labels.push("enumerate");
            }
            14 => {
                main.push(Stmt::print(Expr::bin(BinOp::Eq, Expr::var("m0"), Expr::var("m1"))));
                labels.push("map_eq");
            }
            _ => {
                if rd.chance(1, 3) {
                    main.push(Stmt::print(Expr::invoke(Expr::var(m), "clear", vec![])));
                    labels.push("clear");
                } else {
                    // wrong arity
                    main.push(guarded(Expr::invoke(Expr::var(m), "get", vec![]), &mut counter));
                }
            }
        }
    }
    // final full scan of both maps
    for m in ["m0", "m1"] {
        main.push(Stmt::print(Expr::invoke(Expr::var(m), "len", vec![])));
        main.extend(enumerate(m, "items", &mut counter));
    }
    (Program { main, modules: vec![] }, labels)
}
