//! Choice-sequence reader: every generator is a decoder from `&[u8]` to a structured case.
//! An exhausted input yields 0, the simplest alternative; indices are mapped monotonically
//! (`byte * n >> 8`) so that lowering a byte never jumps to a more complex alternative.

pub struct Rd<'a> {
    data: &'a [u8],
    pos: usize,
    /// remaining size budget: every structural choice spends some, so outputs are bounded
    pub budget: i64,
}

impl<'a> Rd<'a> {
    pub fn new(data: &'a [u8], budget: i64) -> Self {
        Rd {
            data,
            pos: 0,
            budget,
        }
    }

    pub fn exhausted(&self) -> bool {
        self.pos >= self.data.len()
    }

    pub fn consumed(&self) -> usize {
        self.pos
    }

    pub fn byte(&mut self) -> u8 {
        if self.pos < self.data.len() {
            let b = self.data[self.pos];
            self.pos += 1;
            b
        } else {
            0
        }
    }

    /// uniform-ish choice in 0..n (n <= 256 uses one byte, larger uses two)
    pub fn below(&mut self, n: usize) -> usize {
        if n <= 1 {
            return 0;
        }
        if n <= 256 {
            (self.byte() as usize * n) >> 8
        } else {
            let v = ((self.byte() as usize) << 8) | self.byte() as usize;
            (v * n) >> 16
        }
    }

    /// true with probability about num/den; false when exhausted
    pub fn chance(&mut self, num: usize, den: usize) -> bool {
        let b = self.byte() as usize;
        b * den >= 256 * (den - num)
    }

    pub fn flag(&mut self) -> bool {
        self.byte() >= 128
    }

    /// weighted choice: returns index into weights (weights may contain zeros)
    pub fn weighted(&mut self, weights: &[u32]) -> usize {
        let total: u32 = weights.iter().sum();
        if total == 0 {
            return 0;
        }
        let r = if total <= 256 {
            (self.byte() as u32 * total) >> 8
        } else {
            let v = ((self.byte() as u32) << 8) | self.byte() as u32;
            (v * total) >> 16
        };
        let mut acc = 0;
        for (i, w) in weights.iter().enumerate() {
            acc += *w;
            if r < acc {
                return i;
            }
        }
        weights.len() - 1
    }

    pub fn pick<'b, T>(&mut self, items: &'b [T]) -> &'b T {
        &items[self.below(items.len())]
    }

    pub fn pick_str(&mut self, items: &[&'static str]) -> &'static str {
        items[self.below(items.len())]
    }

    pub fn u64(&mut self) -> u64 {
        let mut v = 0u64;
        for _ in 0..8 {
            v = (v << 8) | self.byte() as u64;
        }
        v
    }

    pub fn spend(&mut self, n: i64) -> bool {
        self.budget -= n;
        self.budget > 0
    }

    pub fn rest(&mut self) -> &'a [u8] {
        let r = &self.data[self.pos.min(self.data.len())..];
        self.pos = self.data.len();
        r
    }
}

pub fn fnv64(data: &[u8]) -> u64 {
    let mut h: u64 = 0xcbf29ce484222325;
    for b in data {
        h ^= *b as u64;
        h = h.wrapping_mul(0x100000001b3);
    }
    h
}

/// splitmix64: derives independent seeds from (seed, property, worker, family)
pub fn mix(mut x: u64) -> u64 {
    x = x.wrapping_add(0x9e3779b97f4a7c15);
    let mut z = x;
    z = (z ^ (z >> 30)).wrapping_mul(0xbf58476d1ce4e5b9);
    z = (z ^ (z >> 27)).wrapping_mul(0x94d049bb133111eb);
    z ^ (z >> 31)
}
