//! The repository's test scripts as a corpus (read from /repo at run time).

use std::fs;
use std::path::{Path, PathBuf};

pub fn scripts_dir() -> PathBuf {
    let repo = std::env::var("VERIF_REPO").unwrap_or_else(|_| "/repo".to_string());
    Path::new(&repo).join("yarel/tests/scripts")
}

fn walk(dir: &Path, out: &mut Vec<PathBuf>) {
    if let Ok(rd) = fs::read_dir(dir) {
        let mut entries: Vec<_> = rd.flatten().map(|e| e.path()).collect();
        entries.sort();
        for p in entries {
            if p.is_dir() {
                walk(&p, out);
            } else if p.extension().map(|e| e == "yl").unwrap_or(false) {
                out.push(p);
            }
        }
    }
}

/// (relative path without extension, source) sorted by path
pub fn load_scripts() -> Vec<(String, String)> {
    let dir = scripts_dir();
    let mut files = Vec::new();
    walk(&dir, &mut files);
    let mut v = Vec::new();
    for f in files {
        if let Ok(src) = fs::read_to_string(&f) {
            let rel = f
                .strip_prefix(&dir)
                .unwrap_or(&f)
                .with_extension("")
                .to_string_lossy()
                .to_string();
            v.push((rel, src));
        }
    }
    v
}
