//! Runs a batch of programs, each on a fresh interpreter, and prints framed outcomes.
//! Batch format (text): records separated by lines "\x1e<id> <module-count>"; then for each module
//! "\x1f<path>" followed by its source; the main program is the module with path "main".
//! Output: "\x1eBEGIN <id>" before each program, then its printed values (one "\x1fP" record each),
//! then "\x1eEND <id> <Ok|kind>" followed by "\x1fM" records for messages.

use std::cell::RefCell;
use std::collections::HashMap;
use std::io::{Read, Write};

use yarel::error::{Error, ErrorKind};
use yarel::value::Value;
use yarel::vm::{self, Vm};

thread_local! {
    static OUTPUT: RefCell<Vec<String>> = RefCell::new(Vec::new());
    static MODULES: RefCell<HashMap<String, String>> = RefCell::new(HashMap::new());
}

fn capture_print(vm: &mut Vm, num_args: usize) -> Result<Value, Error> {
    if num_args != 1 {
        return Err(Error::with_message(ErrorKind::TypeError, "Expected one argument to 'print'."));
    }
    let text = format!("{}", vm.native_arg(1));
    OUTPUT.with(|o| o.borrow_mut().push(text));
    Ok(Value::None)
}

fn memory_loader(path: &str) -> Result<String, Error> {
    MODULES.with(|m| match m.borrow().get(path) {
        Some(src) => Ok(src.clone()),
        None => Err(Error::with_message(
            ErrorKind::ImportError,
            &format!("Unable to read file '{}.yl' (file not found).", path),
        )),
    })
}

fn normalise_addr(s: &str) -> String {
    let b = s.as_bytes();
    let mut out: Vec<u8> = Vec::with_capacity(b.len());
    let mut i = 0;
    while i < b.len() {
        if b[i] == b'0' && b.get(i + 1) == Some(&b'x') {
            let mut j = i + 2;
            while j < b.len() && (b[j].is_ascii_digit() || (b'a'..=b'f').contains(&b[j])) {
                j += 1;
            }
            if j >= i + 2 + 6 {
                out.extend_from_slice(b"[MEMADDR]");
                i = j;
                continue;
            }
        }
        out.push(b[i]);
        i += 1;
    }
    String::from_utf8(out).unwrap_or_default()
}

fn main() {
    // never outlive the check that started this process by much: if the parent was killed while a
    // program hangs (memory corruption in a broken build, say), leave after ten minutes
    std::thread::spawn(|| {
        std::thread::sleep(std::time::Duration::from_secs(600));
        std::process::exit(97);
    });
    let args: Vec<String> = std::env::args().collect();
    let mut input = String::new();
    std::fs::File::open(&args[1]).expect("batch file").read_to_string(&mut input).unwrap();
    let stdout = std::io::stdout();
    let run = move || {
        let mut out = stdout.lock();
        for rec in input.split('\u{1e}').skip(1) {
            let (head, rest) = rec.split_once('\n').unwrap_or((rec, ""));
            let id = head.split(' ').next().unwrap_or("").to_string();
            let mut main_src = String::new();
            MODULES.with(|m| m.borrow_mut().clear());
            for md in rest.split('\u{1f}').skip(1) {
                let (path, src) = md.split_once('\n').unwrap_or((md, ""));
                if path == "main" {
                    main_src = src.to_string();
                } else {
                    MODULES.with(|m| m.borrow_mut().insert(path.to_string(), src.to_string()));
                }
            }
            writeln!(out, "\u{1e}BEGIN {}", id).unwrap();
            out.flush().unwrap();
            OUTPUT.with(|o| o.borrow_mut().clear());
            let mut vm = Vm::with_built_ins();
            vm.set_printer(capture_print);
            vm.set_module_loader(memory_loader);
            let result = vm::interpret(&mut vm, main_src, None);
            drop(vm);
            let printed = OUTPUT.with(|o| std::mem::take(&mut *o.borrow_mut()));
            for p in printed {
                write!(out, "\u{1f}P{}", normalise_addr(&p)).unwrap();
            }
            match result {
                Ok(_) => write!(out, "\n\u{1e}END {} Ok", id).unwrap(),
                Err(e) => {
                    write!(out, "\n\u{1e}END {} {:?}", id, e.kind()).unwrap();
                    for m in e.messages() {
                        write!(out, "\u{1f}M{}", normalise_addr(m)).unwrap();
                    }
                }
            }
            writeln!(out).unwrap();
        }
        out.flush().unwrap();
    };
    // generous stack: deep recursion in the compiler is not what this runner measures
    std::thread::Builder::new().stack_size(256 << 20).spawn(run).unwrap().join().unwrap();
}
