//! C03, coverage-guided: any byte string (as lossy UTF-8) compiles to a function or to a
//! CompileError with at least one located message; compile() never panics. A panic aborts the
//! process and libFuzzer saves the input; the oracle violations below panic on purpose.
#![no_main]
use libfuzzer_sys::fuzz_target;
use yarel::error::ErrorKind;

fn located(msg: &str, lines: usize) -> bool {
    // [module "main", line N] Error…
    let p = "[module \"main\", line ";
    if !msg.starts_with(p) {
        return false;
    }
    let rest = &msg[p.len()..];
    let digits: String = rest.chars().take_while(|c| c.is_ascii_digit()).collect();
    match digits.parse::<usize>() {
        Ok(n) => n >= 1 && n <= lines + 1 && rest[digits.len()..].starts_with("] Error"),
        Err(_) => false,
    }
}

fuzz_target!(|data: &[u8]| {
    let text = String::from_utf8_lossy(data).to_string();
    let lines = text.matches('\n').count() + 1;
    let mut vm = yarel::vm::Vm::new();
    let r = yarel::compiler::compile(&mut vm, text.clone(), None);
    match r {
        Ok(_) => {}
        Err(e) => {
            if e.kind() != ErrorKind::CompileError {
                panic!("C03 oracle: compile() failed with {:?}, not CompileError", e.kind());
            }
            let msgs = e.messages();
            if msgs.is_empty() {
                panic!("C03 oracle: compile error without a message");
            }
            for m in msgs.iter() {
                if !located(m, lines) {
                    panic!("C03 oracle: message not located inside the text: {:?}", m);
                }
            }
        }
    }
});
