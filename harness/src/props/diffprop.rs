//! Shared implementation of the properties decided by the reference interpreter (oracle R):
//! generated program -> text -> yarel, AST -> reference; compare.

use std::collections::BTreeMap;

use crate::diff::*;
use crate::engine::*;
use crate::gen::{self, Profile};
use crate::prelude::RefCfg;
use crate::rd::fnv64;

pub const TRIGGERS: [&str; 10] = ["E2", "E3", "E4", "E5", "E6", "E8", "E9", "E10", "E11", "S1"];

pub type GenFn = Box<dyn Fn(&[u8]) -> (crate::ast::Program, Vec<&'static str>)>;

pub enum Source {
    Profile(Profile),
    Custom(GenFn),
}

pub struct Fam {
    pub name: &'static str,
    pub source: Source,
    pub quick: u64,
    pub thorough: u64,
    pub max_len: usize,
    /// Some(n): enumerated family with n cases (quick, thorough) instead of random bytes
    pub enumerated: Option<(u64, u64, bool)>,
    pub cfg: fn() -> DiffCfg,
    /// Some((render, run)): the family is judged by a validity predicate of its own instead of the
    /// reference interpreter
    pub direct: Option<(fn(&[u8]) -> String, fn(&[u8], &mut CaseCtx) -> Verdict)>,
}

impl Fam {
    pub fn profile(name: &'static str, p: Profile, quick: u64, thorough: u64, max_len: usize) -> Fam {
        Fam { name, source: Source::Profile(p), quick, thorough, max_len, enumerated: None, cfg: DiffCfg::default, direct: None }
    }
    pub fn custom(name: &'static str, g: GenFn, quick: u64, thorough: u64, max_len: usize) -> Fam {
        Fam { name, source: Source::Custom(g), quick, thorough, max_len, enumerated: None, cfg: DiffCfg::default, direct: None }
    }
    pub fn generate(&self, bytes: &[u8]) -> (crate::ast::Program, Vec<&'static str>) {
        match &self.source {
            Source::Profile(p) => gen::program(bytes, p.clone()),
            Source::Custom(g) => g(bytes),
        }
    }
}

pub struct DiffProp {
    pub id: &'static str,
    pub families: Vec<Fam>,
    pub rule: &'static str,
    /// non-trivial predicate over (generator labels, reference events, result)
    pub nontrivial: fn(&[&'static str], &BTreeMap<&'static str, u32>, &DiffResult) -> bool,
    pub floors: Vec<(&'static str, u64)>,
    pub assumptions: Vec<&'static str>,
}

pub fn trigger_suffix(events: &BTreeMap<&'static str, u32>) -> String {
    let mut s = String::new();
    for t in TRIGGERS {
        if events.get(t).copied().unwrap_or(0) > 0 {
            s.push('+');
            s.push_str(t);
        }
    }
    s
}

pub fn verdict_of(d: &DiffResult, nontrivial: bool, ctx: &mut CaseCtx) -> Verdict {
    match &d.verdict {
        DiffVerdict::Agree => {
            ctx.label("agree");
            if let Some(o) = &d.yarel {
                ctx.label(&format!("end:{}", o.kind_name()));
                if o.dangling_upvalues > 0 {
                    // the output happened to agree, but a captured variable's slot was discarded
                    // while its upvalue stayed open: the closure now names a slot that is not the
                    // variable any more
                    return Verdict::Fail {
                        sig: format!("dangling-upvalue{}", trigger_suffix(&d.events)),
                        detail: format!(
                            "at {} instruction boundaries an open upvalue pointed at or above the top of the value stack (a captured variable was discarded without being closed)\n{}",
                            o.dangling_upvalues,
                            describe(d)
                        ),
                    };
                }
            }
            Verdict::Pass {
                nontrivial,
                hash: fnv64(d.source.as_bytes()),
            }
        }
        DiffVerdict::Discard("compile error") => {
            // the generators only produce programs the language accepts (the reference interpreter has
            // just run this one): a rejection is a failure of the scanner or the compiler
            let msgs = match d.yarel.as_ref().map(|o| &o.end) {
                Some(crate::yrun::End::Err(_, m)) => m.clone(),
                _ => vec![],
            };
            Verdict::Fail {
                sig: "valid-program-rejected".into(),
                detail: format!("a generated program that the reference interpreter runs was rejected by the compiler: {:?}\n{}", msgs, describe(d)),
            }
        }
        DiffVerdict::Discard(w) => {
            ctx.label(&format!("discard:{}", w));
            Verdict::Discard(w)
        }
        DiffVerdict::Mismatch(m) => Verdict::Fail {
            sig: format!("ref-mismatch{}", trigger_suffix(&d.events)),
            detail: format!("{}\n{}", m, describe(d)),
        },
        DiffVerdict::Panic(p) => Verdict::Fail {
            sig: format!("panic:{}{}", crate::props::c03::sig_of_panic(p), trigger_suffix(&d.events)),
            detail: format!("yarel panicked: {}\n{}", p, describe(d)),
        },
    }
}

/// A pinned case: source text with its expected output, bypassing generator and reference.
/// Format of the case bytes (UTF-8):
///   //// sig: <signature reported when it fails>
///   //// expect-end: Ok | <ErrorKind name>
///   //// expect-out:
///   <expected printed lines>
///   //// source:
///   <program>
pub fn run_pinned(bytes: &[u8]) -> Verdict {
    use crate::yrun::{self, End, RunCfg};
    let text = String::from_utf8_lossy(bytes).to_string();
    let mut sig = "pinned-mismatch".to_string();
    let mut expect_end = "Ok".to_string();
    let mut expect_out: Vec<String> = Vec::new();
    let mut source = String::new();
    let mut mode = 0;
    for line in text.lines() {
        if let Some(r) = line.strip_prefix("//// sig:") {
            sig = r.trim().to_string();
        } else if let Some(r) = line.strip_prefix("//// expect-end:") {
            expect_end = r.trim().to_string();
        } else if line.starts_with("//// expect-out:") {
            mode = 1;
        } else if line.starts_with("//// source:") {
            mode = 2;
        } else if mode == 1 {
            expect_out.push(line.to_string());
        } else if mode == 2 {
            source.push_str(line);
            source.push('\n');
        }
    }
    let o = yrun::run_source(&source, &RunCfg::default());
    let out: Vec<String> = o
        .out
        .iter()
        .flat_map(|s| yrun::normalise_addr(s).lines().map(|l| l.to_string()).collect::<Vec<_>>())
        .collect();
    let end = match &o.end {
        End::Ok(_) => "Ok".to_string(),
        End::Err(k, _) => yrun::kind_name(*k).to_string(),
        End::Panic(p) => {
            return Verdict::Fail {
                sig: format!("panic:{}", crate::props::c03::sig_of_panic(p)),
                detail: format!("yarel panicked: {}\n{}", p, source),
            }
        }
    };
    if out != expect_out || end != expect_end {
        return Verdict::Fail {
            sig,
            detail: format!(
                "pinned case: expected output {:?} end {}, yarel printed {:?} end {} ({:?})\n{}",
                expect_out, expect_end, out, end, o.end, source
            ),
        };
    }
    Verdict::Pass {
        nontrivial: false,
        hash: fnv64(bytes),
    }
}

impl DiffProp {
    fn fam(&self, family: &str) -> Option<&Fam> {
        self.families.iter().find(|f| f.name == family)
    }
}

impl Property for DiffProp {
    fn id(&self) -> &'static str {
        self.id
    }

    fn families(&self, tier: Tier) -> Vec<Family> {
        self.families
            .iter()
            .map(|f| Family {
                name: f.name,
                kind: match f.enumerated {
                    Some((q, t, ex)) => FamilyKind::Enumerated {
                        count: if tier == Tier::Quick { q } else { t },
                        exhaustive: ex && (tier == Tier::Thorough || q == t),
                    },
                    None => FamilyKind::Random {
                        cases: if tier == Tier::Quick { f.quick } else { f.thorough },
                        max_len: f.max_len,
                    },
                },
            })
            .collect()
    }

    fn rule(&self) -> String {
        self.rule.to_string()
    }

    fn assumptions(&self) -> Vec<String> {
        let mut v: Vec<String> = vec![
            "the reference interpreter (harness/src/reval.rs, rnat.rs, prelude.rs) defines the intended behaviour; it was calibrated against the unchanged tree and the repository's tests".into(),
            "texts of built-in error messages are not compared, only class/kind and trace".into(),
        ];
        v.extend(self.assumptions.iter().map(|s| s.to_string()));
        v
    }

    fn render(&self, family: &str, bytes: &[u8]) -> String {
        if family == "pinned" {
            return String::from_utf8_lossy(bytes).to_string();
        }
        match self.fam(family) {
            Some(f) if f.direct.is_some() => (f.direct.as_ref().unwrap().0)(bytes),
            Some(f) => {
                let (prog, _) = f.generate(bytes);
                crate::astutil::fix_lambda_names(&prog);
                let (main, mods) = crate::pretty::render_program(&prog, &[]);
                let mut s = main;
                for (p, m) in mods {
                    s.push_str(&format!("\n--- module {} ---\n{}", p, m));
                }
                if s.len() > 6000 {
                    let mut cut = 6000;
                    while !s.is_char_boundary(cut) {
                        cut -= 1;
                    }
                    s.truncate(cut);
                    s.push_str("\n… (truncated)");
                }
                s
            }
            None => "<unknown family>".into(),
        }
    }

    fn run(&self, ctx: &mut CaseCtx) -> Verdict {
        if ctx.family == "pinned" {
            return run_pinned(ctx.bytes);
        }
        let fam = match self.fam(ctx.family) {
            Some(f) => f,
            None => return Verdict::Discard("unknown family"),
        };
        if let Some((_, run)) = &fam.direct {
            let bytes = ctx.bytes.to_vec();
            return run(&bytes, ctx);
        }
        let (prog, labels) = fam.generate(ctx.bytes);
        let d = run_diff(&prog, &[], &(fam.cfg)(), &RefCfg::default());
        for l in labels.iter() {
            ctx.label_n(&format!("gen:{}", l), 1);
        }
        for (k, v) in &d.events {
            ctx.label_n(&format!("ev:{}", k), *v as u64);
        }
        let nt = (self.nontrivial)(&labels, &d.events, &d);
        if nt {
            ctx.label("nontrivial");
        }
        verdict_of(&d, nt, ctx)
    }

    fn floors(&self, tier: Tier) -> Vec<(&'static str, u64)> {
        if tier == Tier::Quick {
            self.floors.clone()
        } else {
            self.floors.iter().map(|(l, n)| (*l, n * 5)).collect()
        }
    }
}
