//! C03 — compilation is total: any text yields a function or a located compile error.

use std::sync::OnceLock;

use yarel::error::ErrorKind;

use crate::corpus::load_scripts;
use crate::engine::*;
use crate::rd::{fnv64, Rd};
use crate::yrun::{self, End, RunCfg, Session};

pub const VOCAB: &[&str] = &[
    "(", ")", "{", "}", "[", "]", ",", ".", "..", "-", "-=", "+", "+=", ":", ";", "/", "/=", "*",
    "*=", "!", "!=", "=", "==", ">", ">=", "<", "<=", "&", "&=", "|", "|=", "^", "^=", "%", "%=",
    ">>", ">>=", "<<", "<<=", "&&", "||", "~", "#", "x", "foo", "Bar", "new", "\"s\"", "\"a${",
    "}b\"", "\"${", "}\"", "1", "2.5", "0", "Self", "catch", "class", "else", "false", "finally",
    "for", "fn", "if", "import", "as", "in", "nil", "return", "self", "super", "break",
    "continue", "throw", "true", "try", "var", "while", "#[constructor(new)]", "#[static]",
    "#[derive(Foo)]", "#[constructor]", "// c\n", "\n", "\"\\x41\"", "\"\\u00\"", "\"", "$", "\\",
    "@", "é", "😀", "print", "Fiber", "1.", ".5", "1..2", "|a|", "||",
];

static SCRIPTS: OnceLock<Vec<(String, String)>> = OnceLock::new();

pub fn scripts() -> &'static Vec<(String, String)> {
    SCRIPTS.get_or_init(load_scripts)
}

/// (script index, byte offset) for every char-boundary prefix of every script
fn prefix_table() -> &'static Vec<(u32, u32)> {
    static T: OnceLock<Vec<(u32, u32)>> = OnceLock::new();
    T.get_or_init(|| {
        let mut v = Vec::new();
        for (i, (_, src)) in scripts().iter().enumerate() {
            for (pos, _) in src.char_indices() {
                v.push((i as u32, pos as u32));
            }
            v.push((i as u32, src.len() as u32));
        }
        v
    })
}

/// crude tokenizer of our own: identifiers/numbers, strings (with escapes), comments, operators
pub fn crude_tokens(src: &str) -> Vec<String> {
    let b: Vec<char> = src.chars().collect();
    let mut out = Vec::new();
    let mut i = 0;
    while i < b.len() {
        let c = b[i];
        if c.is_ascii_alphanumeric() || c == '_' {
            let s = i;
            while i < b.len() && (b[i].is_ascii_alphanumeric() || b[i] == '_') {
                i += 1;
            }
            out.push(b[s..i].iter().collect());
        } else if c == '"' {
            let s = i;
            i += 1;
            while i < b.len() && b[i] != '"' {
                if b[i] == '\\' {
                    i += 1;
                }
                i += 1;
            }
            i = (i + 1).min(b.len());
            out.push(b[s..i].iter().collect());
        } else if c == '/' && i + 1 < b.len() && b[i + 1] == '/' {
            let s = i;
            while i < b.len() && b[i] != '\n' {
                i += 1;
            }
            out.push(b[s..i].iter().collect());
        } else if c.is_whitespace() {
            let s = i;
            while i < b.len() && b[i].is_whitespace() {
                i += 1;
            }
            out.push(b[s..i].iter().collect());
        } else {
            // two-char operators
            let two: String = b[i..(i + 2).min(b.len())].iter().collect();
            if ["..", "-=", "+=", "/=", "*=", "!=", "==", ">=", "<=", "&=", "|=", "^=", "%=", ">>", "<<", "&&", "||", "#["]
                .contains(&two.as_str())
            {
                out.push(two);
                i += 2;
            } else {
                out.push(c.to_string());
                i += 1;
            }
        }
    }
    out
}

const KEYWORDS: &[&str] = &[
    "as", "break", "catch", "class", "continue", "else", "false", "finally", "fn", "for", "if", "import", "in", "nil", "return", "self",
    "Self", "super", "throw", "true", "try", "var", "while",
];
const OTHER_LEXEMES: &[&str] = &[
    "0", "1.", "1.5", "1e", "1e5", ".5", "0x", "1..", "1..2", "\"", "\"a", "\"\\", "\"\\x", "\"\\x4", "\"\\u00a", "\"\\U0001F60", "\"${", "\"${1",
    "\"${1}", "\"a${\"b", "=", "==", "!", "!=", "<", "<<", "<=", ">", ">>", ">=", "&", "&&", "|", "||", ".", "..", "-", "-=", "+", "+=", "/", "//",
    "#", "#[", "#[x", "#[constructor(", "_", "x", "é", "€", "😀",
];
const FOLLOWERS: &[&str] = &["", " ", "\n", ";", "é", "€", "😀", "(", "\"", "_", "1", "=", "\u{800}"];
const CONTEXTS: &[&str] = &["", "var x = ", "print(", "class A { ", "fn f() { return "];

/// every keyword prefix, and every keyword prefix with one more identifier character
fn lexemes() -> &'static Vec<String> {
    static L: OnceLock<Vec<String>> = OnceLock::new();
    L.get_or_init(|| {
        let mut v: Vec<String> = Vec::new();
        for k in KEYWORDS {
            for n in 1..=k.len() {
                let p = &k[..n];
                for ext in ["", "x", "_", "1"] {
                    let t = format!("{}{}", p, ext);
                    if !v.contains(&t) {
                        v.push(t);
                    }
                }
            }
        }
        for o in OTHER_LEXEMES {
            v.push(o.to_string());
        }
        v
    })
}

fn lexeme_edge_count() -> u64 {
    (lexemes().len() * FOLLOWERS.len() * CONTEXTS.len()) as u64
}

const CHAR_POOL: &[&str] = &[
    "\"", "${", "}", "{", "\\", "\n", "(", ")", "[", "]", ";", ".", "é", "€", "😀", "\u{0}", "\u{7f}",
    "\t", "\r", "$", "\\x", "\\u", "\\U", "#", "//", "|", "a", "0", "9", " ", "\u{feff}", "\u{2028}",
];

pub struct C03;

impl C03 {
    pub fn new() -> Self {
        C03
    }

    fn text_for(&self, family: &str, bytes: &[u8]) -> Option<(String, Option<usize>)> {
        // returns (text, injected error line if a definite syntax error was injected)
        match family {
            "limit_programs" => {
                // the programs of C04's limit family that are not huge (parameter, argument, element,
                // local and capture counts at and around their limits): whole, cut in half, and cut a
                // few characters before the end - long lists are where narrowing conversions live
                let idx = {
                    let mut b = [0u8; 8];
                    let n = bytes.len().min(8);
                    b[..n].copy_from_slice(&bytes[..n]);
                    u64::from_le_bytes(b) as usize
                };
                let progs = small_limit_programs();
                if progs.is_empty() {
                    return None;
                }
                let src = &progs[(idx / 3) % progs.len()];
                let mut cut = match idx % 3 {
                    0 => src.len(),
                    1 => src.len() / 2,
                    _ => src.len().saturating_sub(12),
                };
                while !src.is_char_boundary(cut) {
                    cut -= 1;
                }
                Some((src[..cut].to_string(), None))
            }
            "prefix" | "prefix_stride" => {
                let idx = {
                    let mut b = [0u8; 8];
                    let n = bytes.len().min(8);
                    b[..n].copy_from_slice(&bytes[..n]);
                    u64::from_le_bytes(b) as usize
                };
                let t = prefix_table();
                if t.is_empty() {
                    return None;
                }
                let (si, pos) = t[idx % t.len()];
                Some((scripts()[si as usize].1[..pos as usize].to_string(), None))
            }
            "token_mut" => {
                let sc = scripts();
                if sc.is_empty() {
                    return None;
                }
                let mut rd = Rd::new(bytes, 1000);
                let si = rd.below(sc.len());
                let mut toks = crude_tokens(&sc[si].1);
                let k = 1 + rd.below(4);
                for _ in 0..k {
                    if toks.is_empty() {
                        break;
                    }
                    let pos = rd.below(toks.len());
                    match rd.below(5) {
                        0 => {
                            toks.remove(pos);
                        }
                        1 => {
                            let t = toks[pos].clone();
                            toks.insert(pos, t);
                        }
                        2 => {
                            let other = rd.below(toks.len());
                            toks.swap(pos, other);
                        }
                        3 => {
                            toks[pos] = rd.pick(VOCAB).to_string();
                        }
                        _ => {
                            toks.insert(pos, rd.pick(VOCAB).to_string());
                        }
                    }
                }
                Some((toks.concat(), None))
            }
            "char_mut" => {
                let sc = scripts();
                if sc.is_empty() {
                    return None;
                }
                let mut rd = Rd::new(bytes, 1000);
                let si = rd.below(sc.len());
                let mut chars: Vec<String> = sc[si].1.chars().map(|c| c.to_string()).collect();
                let k = 1 + rd.below(4);
                for _ in 0..k {
                    let pos = rd.below(chars.len() + 1);
                    match rd.below(3) {
                        0 if pos < chars.len() => {
                            chars.remove(pos);
                        }
                        1 if pos < chars.len() => {
                            chars[pos] = rd.pick(CHAR_POOL).to_string();
                        }
                        _ => {
                            chars.insert(pos.min(chars.len()), rd.pick(CHAR_POOL).to_string());
                        }
                    }
                }
                Some((chars.concat(), None))
            }
            "soup" => {
                let mut rd = Rd::new(bytes, 1000);
                let n = 1 + rd.below(40);
                let mut s = String::new();
                for _ in 0..n {
                    if rd.exhausted() {
                        break;
                    }
                    s.push_str(*rd.pick(VOCAB));
                    if rd.chance(3, 4) {
                        s.push(' ');
                    }
                }
                Some((s, None))
            }
            "nesting" => {
                let mut rd = Rd::new(bytes, 1000);
                let depth = 1 + rd.below(1000);
                let kind = rd.below(9);
                let closed = rd.chance(3, 4);
                let (open, inner, close): (&str, &str, &str) = match kind {
                    0 => ("(", "1", ")"),
                    1 => ("[", "1", "]"),
                    2 => ("{", "", "}"),
                    3 => ("{1:", "2", "}"),
                    4 => ("-", "1", ""),
                    5 => ("!", "x", ""),
                    6 => ("|| ", "1", ""),
                    7 => ("if true {", "", "}"),
                    _ => ("fn f() {", "", "}"),
                };
                let mut s = String::new();
                for _ in 0..depth {
                    s.push_str(open);
                }
                s.push_str(inner);
                if closed {
                    for _ in 0..depth {
                        s.push_str(close);
                    }
                }
                if kind != 2 && kind < 7 {
                    s.push(';');
                }
                Some((s, None))
            }
            "lexeme_edges" => {
                // one lexeme (keyword prefix, number form, string start, operator) directly followed by
                // the end of the text or by one character of each width, in five statement contexts
                let idx = {
                    let mut b = [0u8; 8];
                    let n = bytes.len().min(8);
                    b[..n].copy_from_slice(&bytes[..n]);
                    u64::from_le_bytes(b) as usize
                };
                let l = lexemes();
                let li = idx % l.len();
                let fi = (idx / l.len()) % FOLLOWERS.len();
                let ci = (idx / l.len() / FOLLOWERS.len()) % CONTEXTS.len();
                Some((format!("{}{}{}", CONTEXTS[ci], l[li], FOLLOWERS[fi]), None))
            }
            "raw" => Some((String::from_utf8_lossy(bytes).to_string(), None)),
            _ => None,
        }
    }
}

fn check_message(msg: &str, lines: usize) -> Result<usize, String> {
    // [module "main", line N] Error...: text
    let rest = msg
        .strip_prefix("[module \"main\", line ")
        .ok_or_else(|| format!("message not located: {:?}", msg))?;
    let end = rest.find(']').ok_or_else(|| format!("message not located: {:?}", msg))?;
    let n: usize = rest[..end]
        .parse()
        .map_err(|_| format!("bad line number in {:?}", msg))?;
    let after = &rest[end + 1..];
    if !after.starts_with(" Error") {
        return Err(format!("message lacks ' Error': {:?}", msg));
    }
    match after.find(": ") {
        Some(p) if after.len() > p + 2 => {}
        _ => return Err(format!("message has no text: {:?}", msg)),
    }
    if n < 1 || n > lines + 1 {
        return Err(format!("line {} outside 1..={} in {:?}", n, lines + 1, msg));
    }
    Ok(n)
}

pub fn count_tokens_before_error(text: &str, first_error_line: usize) -> usize {
    // crude: tokens on lines before the first error line
    let mut n = 0;
    for (i, l) in text.lines().enumerate() {
        if i + 1 > first_error_line {
            break;
        }
        n += crude_tokens(l).iter().filter(|t| !t.trim().is_empty()).count();
    }
    n
}

fn small_limit_programs() -> &'static Vec<String> {
    static CELL: std::sync::OnceLock<Vec<String>> = std::sync::OnceLock::new();
    CELL.get_or_init(|| crate::props::c04::limits().into_iter().map(|l| l.source).filter(|s| s.len() < 20_000).collect())
}

impl Property for C03 {
    fn id(&self) -> &'static str {
        "C03"
    }

    fn families(&self, tier: Tier) -> Vec<Family> {
        let total = prefix_table().len() as u64;
        match tier {
            Tier::Quick => vec![
                Family { name: "prefix_stride", kind: FamilyKind::Enumerated { count: total / 8, exhaustive: false } },
                Family { name: "token_mut", kind: FamilyKind::Random { cases: 30000, max_len: 24 } },
                Family { name: "char_mut", kind: FamilyKind::Random { cases: 24000, max_len: 24 } },
                Family { name: "soup", kind: FamilyKind::Random { cases: 30000, max_len: 96 } },
                Family { name: "nesting", kind: FamilyKind::Random { cases: 400, max_len: 8 } },
                Family { name: "raw", kind: FamilyKind::Random { cases: 8000, max_len: 64 } },
                Family { name: "lexeme_edges", kind: FamilyKind::Enumerated { count: lexeme_edge_count(), exhaustive: true } },
                Family { name: "limit_programs", kind: FamilyKind::Enumerated { count: 3 * small_limit_programs().len() as u64, exhaustive: true } },
            ],
            Tier::Thorough => vec![
                Family { name: "prefix", kind: FamilyKind::Enumerated { count: total, exhaustive: true } },
                Family { name: "token_mut", kind: FamilyKind::Random { cases: 200_000, max_len: 24 } },
                Family { name: "char_mut", kind: FamilyKind::Random { cases: 150_000, max_len: 24 } },
                Family { name: "soup", kind: FamilyKind::Random { cases: 200_000, max_len: 96 } },
                Family { name: "nesting", kind: FamilyKind::Random { cases: 4000, max_len: 8 } },
                Family { name: "raw", kind: FamilyKind::Random { cases: 50_000, max_len: 64 } },
                Family { name: "lexeme_edges", kind: FamilyKind::Enumerated { count: lexeme_edge_count(), exhaustive: true } },
                Family { name: "limit_programs", kind: FamilyKind::Enumerated { count: 3 * small_limit_programs().len() as u64, exhaustive: true } },
            ],
        }
    }

    fn rule(&self) -> String {
        "cases: (limit_programs) the programs of C04's limit family below 20 KB - parameter, argument, element, local and capture counts at and around their limits - whole, cut in half and cut a few characters before the end; char-boundary prefixes of the repository scripts (every 8th, seed-rotated, in quick; all in thorough), token- and character-level mutations of the scripts, token soup over the full vocabulary, nested constructs up to depth 1000, raw bytes as lossy UTF-8, and (lexeme_edges, exhaustive) every keyword prefix (also extended by one identifier character), number form, string/escape/interpolation start and operator directly followed by the end of the text or by one character of each UTF-8 width, in five statement contexts. Oracle: compile() returns without panic; Ok or Err(CompileError) with >=1 message, every message '[module \"main\", line N] Error…: …' with 1<=N<=lines+1; compiling twice gives the same verdict (accept / reject); an accepted function runs under instruction fuel without panic. Non-trivial: >=5 tokens precede the first reported error line, or the text is accepted and has >=1 statement token; distinct by hash of the text.".into()
    }

    fn assumptions(&self) -> Vec<String> {
        vec![
            "nesting explored up to depth 1000 per construct (yarel states no bound)".into(),
            "hangs are bounded by the worker wall-clock backstop and reported as inconclusive".into(),
        ]
    }

    fn render(&self, family: &str, bytes: &[u8]) -> String {
        match self.text_for(family, bytes) {
            Some((t, _)) => {
                if t.len() > 600 {
                    let mut cut = 600;
                    while !t.is_char_boundary(cut) {
                        cut -= 1;
                    }
                    format!("{}… [{} bytes]", &t[..cut], t.len())
                } else {
                    t
                }
            }
            None => "<no corpus>".into(),
        }
    }

    fn run(&self, ctx: &mut CaseCtx) -> Verdict {
        let family = ctx.family.to_string();
        let mut bytes = ctx.bytes.to_vec();
        if family == "prefix_stride" {
            // seed-independent stride of 8 with a rotating offset taken from the index itself
            let idx = ctx.index();
            bytes = (idx * 8 + (idx % 8)).to_le_bytes().to_vec();
        }
        let (text, _inj) = match self.text_for(&family, &bytes) {
            Some(x) => x,
            None => return Verdict::Discard("no corpus"),
        };
        let lines = text.matches('\n').count() + 1;
        let cfg = RunCfg { fuel: Some(20_000), ..RunCfg::default() };
        let mut s1 = Session::new(cfg.clone());
        let r1 = s1.compile_only(&text);
        let _ = s1.finish();
        let mut s2 = Session::new(cfg.clone());
        let r2 = s2.compile_only(&text);
        let _ = s2.finish();
        // verdict only: which of several simultaneous attribute errors is reported first depends on
        // hash-map order inside the compiler, and the property does not promise message determinism
        let norm = |e: &End| match e {
            End::Ok(_) => "ok".to_string(),
            End::Err(k, _) => format!("{:?}", k),
            End::Panic(p) => format!("panic:{}", p),
        };
        match &r1 {
            End::Panic(p) => {
                return Verdict::Fail {
                    sig: format!("compile-panic:{}", sig_of_panic(p)),
                    detail: format!("compile() panicked: {}", p),
                }
            }
            End::Err(k, msgs) => {
                if *k != ErrorKind::CompileError {
                    return Verdict::Fail {
                        sig: "compile-error-kind".into(),
                        detail: format!("compile() returned kind {:?}: {:?}", k, msgs),
                    };
                }
                if msgs.is_empty() {
                    return Verdict::Fail {
                        sig: "compile-error-no-message".into(),
                        detail: "compile error without messages".into(),
                    };
                }
                let mut first_line = usize::MAX;
                for m in msgs {
                    // a message may span lines when the offending token does (multi-line strings are
                    // reported by content); check the first line of each message only
                    match check_message(m, lines) {
                        Ok(n) => first_line = first_line.min(n),
                        Err(e) => {
                            return Verdict::Fail {
                                sig: "compile-message-not-located".into(),
                                detail: e,
                            }
                        }
                    }
                }
                ctx.label(if msgs.len() >= 2 { "errors>=2" } else { "errors=1" });
                if norm(&r1) != norm(&r2) {
                    return Verdict::Fail {
                        sig: "compile-nondeterministic".into(),
                        detail: format!("first: {}\nsecond: {}", norm(&r1), norm(&r2)),
                    };
                }
                let nt = count_tokens_before_error(&text, first_line) >= 5;
                ctx.label("rejected");
                Verdict::Pass { nontrivial: nt, hash: fnv64(text.as_bytes()) }
            }
            End::Ok(_) => {
                if norm(&r1) != norm(&r2) {
                    return Verdict::Fail {
                        sig: "compile-nondeterministic".into(),
                        detail: format!("first: {}\nsecond: {}", norm(&r1), norm(&r2)),
                    };
                }
                ctx.label("accepted");
                // an accepted function must run without panicking (under fuel)
                let o = yrun::run_source(&text, &cfg);
                if let End::Panic(p) = &o.end {
                    return Verdict::Fail {
                        sig: format!("accepted-run-panic:{}", sig_of_panic(p)),
                        detail: format!("accepted text panics when run: {}", p),
                    };
                }
                let toks = crude_tokens(&text)
                    .iter()
                    .filter(|t| !t.trim().is_empty() && !t.starts_with("//"))
                    .count();
                Verdict::Pass { nontrivial: toks >= 2, hash: fnv64(text.as_bytes()) }
            }
        }
    }

    fn hang_signature(&self) -> Option<&'static str> {
        // compilation must terminate: a small text that keeps the compiler busy for a minute of
        // CPU time (normal: microseconds) is reported, with the text as the replay
        Some("compile-does-not-terminate")
    }

    fn floors(&self, _tier: Tier) -> Vec<(&'static str, u64)> {
        vec![("accepted", 200), ("rejected", 2000), ("errors>=2", 100)]
    }
}

/// message text with digits removed + file: stable across runs
pub fn sig_of_panic(p: &str) -> String {
    let mut s: String = p
        .chars()
        .map(|c| if c.is_ascii_digit() { '#' } else { c })
        .collect();
    s = s.replace(' ', "_");
    if s.len() > 80 {
        let mut cut = 80;
        while !s.is_char_boundary(cut) {
            cut -= 1;
        }
        s.truncate(cut);
    }
    s
}
