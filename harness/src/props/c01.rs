//! C01 — GC safety: a program's output never depends on when, how often, or whether the collector
//! runs, and nothing reachable is ever swept.

use crate::engine::*;
use crate::gen;
use crate::profiles;
use crate::rd::{fnv64, Rd};
use crate::yrun::{self, End, GcCfg, Outcome, RunCfg};

pub struct C01;

const CHURN: &str = "fn churn() { var j = []; for i in 0..12 { j.push([i, (i, i)]); } return j.len(); }\n#[constructor(new)]\nclass Box_ { fn get(self) { return self.v; } fn set(self, v) { self.v = v; return self; } }\nfn fresh_class() { class Fresh { fn m(self) { return [1]; } } return Fresh; }\nfn evr() { var r = 700..703; var k = 1; while k <= 12 { var q = (0 - k)..11; k = k + 1; } return r; }\n";

/// fresh objects that nothing else references (expression text, is_hashable)
const OBJECTS: &[(&str, bool)] = &[
    ("(1, [2, 3])", false),
    ("(1, (2, 3))", true),
    ("[1, [2], (3,)]", false),
    ("{(1, 2): [3]}", false),
    ("Box_.new().set([4])", false),
    ("|| [7, 8]", false),
    ("(4..9)", true),
    ("[1, 2].iter()", false),
    ("Box_.new().set((5,)).get", false),
    ("Fiber.new(|| [1])", false),
    ("(\"a\" + \"b\", 1 / 3)", true),
    ("[].push", false),
    // a class nothing names any more, and a range that the interpreter's cache of recently built
    // ranges no longer holds: both hashable, both reachable through the edge alone
    ("fresh_class()", true),
    ("evr()", true),
    ("(evr(), fresh_class())", true),
];

/// (name, template): `@O` is replaced by the object expression; `churn();` marks where garbage is made
const EDGES: &[(&str, &str, bool)] = &[
    ("map_key", "var h = {}; h.insert(@O, 1); churn(); print(h.keys()); print(h.len()); for k in h.keys() { print(h.get(k)); }", true),
    ("map_value", "var h = {}; h.insert(1, @O); churn(); print(h.get(1)); print(h.values());", false),
    ("map_literal", "var h = {(1, 2): @O}; churn(); print(h.items());", false),
    ("map_literal_key", "var h = {@O: 1}; churn(); print(h.items());", true),
    ("vec_nested", "var h = [[@O]]; churn(); print(h[0][0]); print(h);", false),
    ("tuple_nested", "var h = ((@O,), 1); churn(); print(h[0][0]); print(h);", false),
    ("field", "var h = Box_.new(); h.v = @O; churn(); print(h.v); print(h.get());", false),
    ("global_reassigned", "var h = @O; var g = [h]; h = nil; churn(); print(g[0]);", false),
    ("local_class_instance", "fn mk() { #[constructor(new)] class L { fn m(self) { return [5, @O]; } } return L.new(); } var h = mk(); churn(); print(h.m()); print(type(h)); print(type(type(h)));", false),
    ("superclass_link", "fn mk() { class A { fn m(self) { return @O; } } #[constructor(new), derive(A)] class B { } return B; } var h = mk(); churn(); var o = h.new(); churn(); print(o.m()); print(o.derives(Object)); print(o.derives(h)); print(type(o));", false),
    ("superclass_chain", "fn mk() { class A { } #[derive(A)] class B { } #[constructor(new), derive(B)] class C { } return C.new(); } var h = mk(); churn(); print(h.derives(Object)); print(h.derives(Num)); print(type(h));", false),
    ("static_method", "fn mk() { class S { #[static] fn s() { return @O; } } return S; } var h = mk(); churn(); print(h.s()); print(h);", false),
    ("closed_variable", "fn mk() { var x = @O; return || x; } var h = mk(); churn(); print(h()); print(h());", false),
    ("closed_variable_shared", "fn mk() { var x = @O; return (|| x, |v| x = v); } var h = mk(); churn(); print(h[0]()); h[1]([9]); churn(); print(h[0]());", false),
    ("open_variable", "fn outer() { var x = @O; var g = || x; churn(); return g(); } print(outer());", false),
    ("open_variable_nested", "fn outer() { var x = @O; fn mid() { return || x; } var g = mid(); churn(); return g(); } print(outer());", false),
    ("bound_receiver", "var h = Box_.new().set(@O).get; churn(); print(h());", false),
    ("bound_function", "fn mk() { #[constructor(new)] class L { fn m(self) { return @O; } } return L.new().m; } var h = mk(); churn(); print(h());", false),
    ("bound_native_receiver", "var h = [@O].pop; churn(); print(h());", false),
    ("vec_iter", "var h = [@O, 2].iter(); churn(); print(h.next()); print(h.next()); print(type(h.next()));", false),
    ("tuple_iter", "var h = (@O, 2).iter(); churn(); print(h.next()); print(h.next());", false),
    ("range_iter", "var h = (3..6).iter(); churn(); print(h.next()); print(h.next());", false),
    ("string_iter", "var h = (\"a\" + \"é€\").iter(); churn(); print(h.next()); print(h.next()); print(h.next());", false),
    ("map_iter", "var h = [1, 2].iter().map(|x| [x, @O]); churn(); print(h.next()); churn(); print(h.collect());", false),
    ("filter_iter", "var h = [[1], [], [2]].iter().filter(|x| x.len() > 0); churn(); print(h.next()); churn(); print(h.collect());", false),
    ("suspended_fiber_stack", "var h = Fiber.new(|| { var x = @O; Fiber.yield(1); return x; }); h.call(); churn(); print(h.call());", false),
    ("suspended_fiber_temp", "var h = Fiber.new(|| [@O, Fiber.yield(1), [2]]); h.call(); churn(); print(h.call([3]));", false),
    ("caller_chain", "var a = Fiber.new(|| { var x = @O; var b = Fiber.new(|| { churn(); return [1]; }); var r = b.call(); return [x, r]; }); print(a.call());", false),
    ("yield_value", "var h = Fiber.new(|| { Fiber.yield(@O); }); var r = h.call(); churn(); print(r);", false),
    ("pending_return", "fn f() { try { return @O; } finally { churn(); print(\"fin\"); } } print(f());", false),
    ("thrown_value", "try { throw @O; } catch e { churn(); print(e); }", false),
    ("thrown_through_frames", "fn t() { var pad = [1]; throw @O; } fn u() { t(); } try { u(); } catch e { churn(); print(e); }", false),
    ("thrown_through_finally", "try { try { throw @O; } finally { print(\"fin\"); } } catch e { churn(); print(e); }", false),
    ("error_object", "try { [1] + @O; } catch e { churn(); print(type(e)); print(e.derives(Error)); }", false),
    ("argument_temporaries", "fn f(a, b, c) { churn(); return [a, b, c]; } print(f(@O, [1], (2,)));", false),
    ("nested_literals", "print([[1, @O], {1: [2]}, ((3,), [4]), \"${[5, @O]}\"]);", false),
    ("interpolation", "var s = \"<${[@O]}|${(1, [2])}|${{1: [2]}}>\"; churn(); print(s.len() > 0);", false),
    ("split_items", "print(\"a,b,c\".split(\",\")); print({(1, 2): [3]}.items()); print({(1, 2): [3]}.keys()); print(\"aé\".to_bytes()); print(\"aé\".to_code_points());", false),
    ("slices", "var v = [@O, [1], [2]]; print(v[0..2]); print((@O, 1, 2)[1..3]); print(\"héllo\"[1..3]);", false),
    ("module_attribute", "import \"m0\"; churn(); print(m0.val); print(m0.get()());", false),
    ("class_in_progress", "fn mk() { #[constructor(new)] class Big { fn a(self) { return [1]; } fn b(self) { return (2,); } fn c(self) { return || 3; } #[static] fn d() { return [4]; } } return Big.new(); } var h = mk(); churn(); print(h.a()); print(h.b()); print(h.c()()); print(type(h).d());", false),
    ("range_cache", "var rs = []; for i in 0..12 { rs.push(i..(i + 1)); } churn(); print(rs); print(rs[0] == 0..1);", false),
    ("range_iter_evicted", "var h = (100..104).iter(); var k = 1; while k <= 12 { var r = (0 - k)..6; k = k + 1; } churn(); print(h.next()); churn(); print(h.collect());", false),
    ("range_loop_evicted", "var total = 0; for i in 200..203 { var k = 1; while k <= 12 { var r = (0 - k)..(6 + i); k = k + 1; } churn(); total = total + i; } print(total);", false),
    ("range_in_container_evicted", "var h = [300..303, (400..401, 1)]; var k = 1; while k <= 12 { var r = (0 - k)..7; k = k + 1; } churn(); print(h); print(h[0].iter().collect());", false),
    ("range_map_iter_evicted", "var h = (500..503).iter().map(|x| [x]); var k = 1; while k <= 12 { var r = (0 - k)..8; k = k + 1; } churn(); print(h.collect());", false),
    ("operators_on_temporaries", "fn mkv() { var r = []; r.push([@O]); return r; } try { print([@O, [1]] + [[2], @O]); } catch e { print(type(e)); } try { print((@O, [1]) + ((3,), @O)); } catch e { print(type(e)); } try { print(mkv() + mkv()); } catch e { print(type(e)); } try { print([[@O]] * 2); } catch e { print(type(e)); } try { print([@O] - [@O]); } catch e { print(type(e)); } print([@O, [1]] == [@O, [1]]); print((@O, (2,)) != (@O, (2,))); try { print(\"s\" + [@O]); } catch e { print(type(e)); } try { print([@O] + \"s\"); } catch e { print(type(e)); } try { print([[@O]] < [[@O]]); } catch e { print(type(e)); }", false),
    ("failed_module_survivor", "var h = nil; try { import \"mthrow\"; } catch e { h = e; } churn(); print(h.describe()); import \"m0\"; churn(); print(h.describe()); print(h.again()());", false),
    ("failed_module_function", "var h = nil; try { import \"mthrow\"; } catch e { h = e.again; } churn(); import \"m0\"; churn(); print(h()());", false),
    ("suspended_fiber_closure", "var g = nil; fn mk() { var f = Fiber.new(|| { var x = @O; g = || x; Fiber.yield(1); return 2; }); f.call(); return f; } var keepf = mk(); churn(); print(g()); print(keepf.call());", false),
    ("abandoned_suspended_fiber_closure", "var g = nil; fn mk() { var f = Fiber.new(|| { var x = @O; g = || x; Fiber.yield(1); return 2; }); f.call(); } mk(); churn(); print(g());", false),
    ("abandoned_fiber_closure", "var g = nil; fn mk() { var f = Fiber.new(|| { var x = @O; g = || x; return 1; }); f.call(); } mk(); churn(); print(g());", false),
];

fn sole_edge(index: usize) -> Option<(String, Vec<(String, String)>, String)> {
    let e = index / OBJECTS.len();
    let o = index % OBJECTS.len();
    let (name, tpl, needs_hash) = EDGES.get(e)?;
    let (obj, hashable) = OBJECTS[o];
    if *needs_hash && !hashable {
        return None;
    }
    if !tpl.contains("@O") && o > 0 {
        return None;
    }
    let body = tpl.replace("@O", obj);
    let modules = vec![
        ("m0".to_string(), format!("var val = {};\nfn get() {{ return || val; }}\n", obj)),
        // a module whose top-level code throws an instance of its own class: what survives the failed
        // import (the instance, its class, its methods) still uses the module's globals
        (
            "mthrow".to_string(),
            format!("var tag = {};\nfn helper() {{ return [tag]; }}\n#[constructor(new)]\nclass ME {{\n  fn describe(self) {{ return [tag, helper()]; }}\n  fn again(self) {{ return || [tag, helper]; }}\n}}\nthrow ME.new();\nvar never = 1;\n", obj),
        ),
    ];
    Some((format!("{}{}\n", CHURN, body), modules, format!("{} x {}", name, obj)))
}

fn outcome_key(o: &Outcome) -> (Vec<String>, String) {
    let out: Vec<String> = o.out.iter().map(|s| yrun::normalise_addr(s)).collect();
    let end = match &o.end {
        End::Ok(_) => "Ok".to_string(),
        End::Err(k, m) => format!("{:?} {:?}", k, m.iter().map(|s| yrun::normalise_addr(s)).collect::<Vec<_>>()),
        End::Panic(p) => format!("PANIC {}", p),
    };
    (out, end)
}

impl C01 {
    fn case(&self, family: &str, bytes: &[u8]) -> Option<(String, Vec<(String, String)>, String, u64)> {
        match family {
            "sole_edge" => {
                let idx = {
                    let mut b = [0u8; 8];
                    let n = bytes.len().min(8);
                    b[..n].copy_from_slice(&bytes[..n]);
                    u64::from_le_bytes(b) as usize
                };
                let (s, m, n) = sole_edge(idx)?;
                Some((s, m, n, 0x5555_5555_5555_5555 ^ (idx as u64).wrapping_mul(0x9e3779b97f4a7c15)))
            }
            _ => {
                if bytes.len() < 10 {
                    return None;
                }
                let sched = u64::from_le_bytes([bytes[0], bytes[1], bytes[2], bytes[3], bytes[4], bytes[5], bytes[6], bytes[7]]);
                let rest = &bytes[8..];
                let prog = match family {
                    "alloc_loops" => {
                        let p = crate::gen_alloc::plan_n(rest, 120, 60, crate::gen_alloc::KINDS_WITH_RANGES);
                        crate::gen_alloc::program(&p, p.iterations.min(120))
                    }
                    "fibers" => gen::program(rest, profiles::c09()).0,
                    "classes" => gen::program(rest, profiles::c07()).0,
                    "scopes" => gen::program(rest, profiles::c06()).0,
                    "iteration" => gen::program(rest, profiles::c18()).0,
                    "maps" => crate::gen_map::program(rest).0,
                    _ => gen::program(rest, profiles::mixed()).0,
                };
                // skip programs the reference interpreter declines (runaway growth)
                let r = crate::prelude::run_program(&prog, &crate::prelude::RefCfg::default());
                if matches!(r.end, crate::prelude::RefEnd::Discard(_)) {
                    return None;
                }
                // programs that run into a recorded exception-machinery defect leave the
                // interpreter in a corrupt state: not a GC question
                if !crate::props::diffprop::trigger_suffix(&r.events).is_empty() {
                    return None;
                }
                crate::astutil::fix_lambda_names(&prog);
                let (main, mods) = crate::pretty::render_program(&prog, &[]);
                Some((main, mods, String::new(), sched))
            }
        }
    }
}

impl Property for C01 {
    fn id(&self) -> &'static str {
        "C01"
    }

    fn families(&self, tier: Tier) -> Vec<Family> {
        let q = tier == Tier::Quick;
        let n = |a: u64, b: u64| if q { a } else { b };
        vec![
            Family { name: "sole_edge", kind: FamilyKind::Enumerated { count: (EDGES.len() * OBJECTS.len()) as u64, exhaustive: true } },
            Family { name: "mixed", kind: FamilyKind::Random { cases: n(12000, 160_000), max_len: 700 } },
            Family { name: "fibers", kind: FamilyKind::Random { cases: n(8000, 100_000), max_len: 700 } },
            Family { name: "classes", kind: FamilyKind::Random { cases: n(8000, 100_000), max_len: 700 } },
            Family { name: "scopes", kind: FamilyKind::Random { cases: n(8000, 100_000), max_len: 700 } },
            Family { name: "iteration", kind: FamilyKind::Random { cases: n(6000, 80_000), max_len: 700 } },
            Family { name: "maps", kind: FamilyKind::Random { cases: n(6000, 80_000), max_len: 200 } },
            Family { name: "alloc_loops", kind: FamilyKind::Random { cases: n(1500, 20_000), max_len: 40 } },
        ]
    }

    fn rule(&self) -> String {
        format!("cases: (sole_edge, exhaustive) {} edge kinds x {} fresh objects: an object is made reachable through exactly one kind of edge (map key/value, nested vec/tuple element, field, local class and its method table, superclass link, static method, closed and open captured variables, bound method receiver/function, each iterator's iterable, MapIter/FilterIter fields, stack of a suspended fiber, caller chain, yielded value, pending return value in a finally, thrown value in flight, error objects, argument temporaries, nested literals, interpolation, split/items/keys/slices results, module attribute, class under construction, range cache), garbage is churned, then the object is used and printed; (mixed, fibers, classes, scopes, iteration, maps, alloc_loops) generated programs of every profile. Each case runs four times under hook control in the checked build: never collect; collect at every allocation with swept objects quarantined; collect at a random subset of allocation points (64-bit cyclic schedule taken from the case) with quarantine; and, when those were clean, collect at every allocation with swept memory really freed, so that addresses are reused. Oracle: zero dereferences of a swept object (events recorded by the three gc_box accessors, during marking or by the mutator) and identical printed values, outcome, error kind and messages across the four runs. Non-trivial: the collect-always run swept at least one object and printed something; distinct by program text.", EDGES.len(), OBJECTS.len())
    }

    fn assumptions(&self) -> Vec<String> {
        vec![
            "collect-at-every-allocation dominates other schedules for 'freed too early'; random subsets are sampled".into(),
            "a raw pointer into a swept fiber's value stack (open captured variable of a collected fiber) is not seen by the quarantine, whose memory stays valid; see DESIGN.md".into(),
        ]
    }

    fn render(&self, family: &str, bytes: &[u8]) -> String {
        match self.case(family, bytes) {
            Some((s, _, n, _)) => format!("{}\n{}", n, if s.len() > 3000 {
                let mut cut = 3000;
                while !s.is_char_boundary(cut) {
                    cut -= 1;
                }
                s[..cut].to_string()
            } else {
                s
            }),
            None => "<skipped combination>".into(),
        }
    }

    fn run(&self, ctx: &mut CaseCtx) -> Verdict {
        let family = ctx.family.to_string();
        let (src, mods, name, sched) = match self.case(&family, ctx.bytes) {
            Some(x) => x,
            None => return Verdict::Discard("combination not applicable"),
        };
        let base = RunCfg { fuel: Some(3_000_000), modules: mods, ..RunCfg::default() };
        let never = yrun::run_source(&src, &RunCfg { gc: GcCfg::Never, quarantine: false, ..base.clone() });
        if never.fuel_exhausted {
            return Verdict::Discard("fuel");
        }
        if let End::Err(_, m) = &never.end {
            if crate::diff::is_compile_error(m) {
                return Verdict::Discard("compile error");
            }
        }
        let always = yrun::run_source(&src, &RunCfg { gc: GcCfg::Default, quarantine: true, ..base.clone() });
        let some = yrun::run_source(&src, &RunCfg { gc: GcCfg::Schedule(sched | 1), quarantine: true, ..base.clone() });
        for (label, o) in [("collect-always", &always), ("scheduled", &some)] {
            if o.uas_count > 0 {
                let mut types = o.uas.clone();
                types.sort();
                types.dedup();
                let sig = if types.iter().any(|t| t.contains("open upvalue into the value stack")) {
                    "use-after-sweep:fiber-stack-upvalue".to_string()
                } else {
                    format!("use-after-sweep:{}", types.first().map(|t| t.rsplit("::").next().unwrap_or(t).trim_end_matches('>').to_string()).unwrap_or_default())
                };
                return Verdict::Fail {
                    sig,
                    detail: format!("{} run: {} dereferences of swept objects {:?}\n{}\n{}", label, o.uas_count, types, name, src),
                };
            }
        }
        let k0 = outcome_key(&never);
        for (label, o) in [("collect-always", &always), ("scheduled", &some)] {
            if let End::Panic(p) = &o.end {
                return Verdict::Fail {
                    sig: format!("panic:{}", crate::props::c03::sig_of_panic(p)),
                    detail: format!("{} run panicked: {}\n{}\n{}", label, p, name, src),
                };
            }
            let k = outcome_key(o);
            if k != k0 {
                return Verdict::Fail {
                    sig: "output-depends-on-collection".into(),
                    detail: format!("never-collect run: {:?}\n{} run: {:?}\n{}\n{}", k0, label, k, name, src),
                };
            }
        }
        if let End::Panic(p) = &never.end {
            return Verdict::Fail {
                sig: format!("panic:{}", crate::props::c03::sig_of_panic(p)),
                detail: format!("never-collect run panicked: {}\n{}", p, src),
            };
        }
        // fourth run, only after the quarantined runs were clean: collect at every allocation and
        // really free what is swept, so that the allocator hands the same addresses out again. A
        // table keyed by the address of an object that has died (a cache, a memo) then finds a
        // stranger; with quarantine no address is ever reused and such an entry can never hit.
        let freeing = yrun::run_source(&src, &RunCfg { gc: GcCfg::Default, quarantine: false, ..base.clone() });
        if let End::Panic(p) = &freeing.end {
            return Verdict::Fail {
                sig: format!("panic:{}", crate::props::c03::sig_of_panic(p)),
                detail: format!("collect-always run with swept memory really freed panicked: {}\n{}\n{}", p, name, src),
            };
        }
        let kf = outcome_key(&freeing);
        if kf != k0 {
            return Verdict::Fail {
                sig: "output-depends-on-address-reuse".into(),
                detail: format!("never-collect run: {:?}\ncollect-always run with swept memory really freed (addresses reused): {:?}\n{}\n{}", k0, kf, name, src),
            };
        }
        ctx.label_n("collections", always.collections as u64 + some.collections as u64);
        ctx.label_n("swept", always.swept as u64);
        if family == "sole_edge" {
            ctx.label("edge_case");
        }
        let nontrivial = always.swept >= 1 && !always.out.is_empty();
        Verdict::Pass { nontrivial, hash: fnv64(src.as_bytes()) }
    }

    fn floors(&self, _tier: Tier) -> Vec<(&'static str, u64)> {
        vec![("edge_case", 300), ("swept", 100_000)]
    }
}

#[allow(dead_code)]
fn unused(_: Rd) {}
