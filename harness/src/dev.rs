//! Developer tool (not a registered check): generate programs for a profile and show disagreements.

use std::collections::BTreeMap;

use crate::diff::*;
use crate::gen;
use crate::prelude::RefCfg;
use crate::profiles;
use crate::rd::mix;

pub fn main(args: &[String]) -> i32 {
    let prof_name = args.get(2).map(|s| s.as_str()).unwrap_or("c05");
    if let Ok(path) = std::env::var("DEV_BYTES") {
        // one case from a file of raw generator bytes: program, verdict, time per stage
        let bytes = std::fs::read(&path).expect("DEV_BYTES file");
        let prof = profiles::by_name(prof_name).expect("profile");
        let t0 = std::time::Instant::now();
        let (p, _) = gen::program(&bytes, prof);
        crate::astutil::fix_lambda_names(&p);
        let t1 = t0.elapsed();
        let r = crate::prelude::run_program(&p, &RefCfg::default());
        let t2 = t0.elapsed();
        println!("{}", crate::pretty::render(&p.main));
        println!("generate {:?}, reference {:?} -> {:?} ({} steps, {} prints)", t1, t2 - t1, r.end, r.steps, r.out.len());
        return 0;
    }
    let seed: u64 = args.get(3).and_then(|s| s.parse().ok()).unwrap_or(1);
    let count: u64 = args.get(4).and_then(|s| s.parse().ok()).unwrap_or(200);
    let show: usize = args.get(5).and_then(|s| s.parse().ok()).unwrap_or(3);
    let len: usize = args.get(6).and_then(|s| s.parse().ok()).unwrap_or(400);
    crate::yrun::install_panic_hook();
    let mut tally: BTreeMap<String, u64> = BTreeMap::new();
    let mut events: BTreeMap<&'static str, u64> = BTreeMap::new();
    let mut labels: BTreeMap<&'static str, u64> = BTreeMap::new();
    let mut shown = 0;
    for i in 0..count {
        let mut bytes = Vec::with_capacity(len);
        let mut s = mix(seed ^ mix(i));
        let l = (s % len as u64) as usize + 8;
        for _ in 0..l {
            s = mix(s);
            bytes.push((s >> 24) as u8);
        }
        let prof = match profiles::by_name(prof_name) {
            Some(p) => p,
            None => {
                eprintln!("unknown profile");
                return 2;
            }
        };
        let (p, labs) = gen::program(&bytes, prof);
        for l in labs {
            *labels.entry(l).or_insert(0) += 1;
        }
        let d = run_diff(&p, &[], &DiffCfg::default(), &RefCfg::default());
        for (k, v) in &d.events {
            *events.entry(k).or_insert(0) += *v as u64;
        }
        let key = match &d.verdict {
            DiffVerdict::Agree => "agree".to_string(),
            DiffVerdict::Discard(w) => format!("discard: {}", w),
            DiffVerdict::Mismatch(_) => "MISMATCH".to_string(),
            DiffVerdict::Panic(p) => format!("PANIC {}", p),
        };
        *tally.entry(key).or_insert(0) += 1;
        let bad = matches!(d.verdict, DiffVerdict::Mismatch(_) | DiffVerdict::Panic(_))
            || (matches!(d.verdict, DiffVerdict::Discard("compile error")) && std::env::var("SHOW_CE").is_ok());
        if bad && shown < show {
            shown += 1;
            println!("================ case {} ================", i);
            println!("{}", describe(&d));
        }
        if std::env::var("SHOW_ALL").is_ok() && shown < show {
            shown += 1;
            println!("================ case {} ================", i);
            println!("{}", describe(&d));
        }
    }
    println!("verdicts: {:#?}", tally);
    if std::env::var("SHOW_EVENTS").is_ok() {
        println!("events: {:?}", events);
        println!("labels: {:?}", labels);
    }
    0
}
