//! C15 — an interpreter can be reused: failed runs leave no residue; reset gives a new interpreter.

use std::rc::Rc;

use crate::ast::*;
use crate::diff::{compare_outcome, DiffCfg, DiffVerdict};
use crate::engine::*;
use crate::gen::{Gen, Kind};
use crate::prelude::{new_interp, run_snippet, RefCfg, RefEnd, RefOutcome};
use crate::pretty::render;
use crate::profiles;
use crate::props::diffprop::trigger_suffix;
use crate::rd::fnv64;
use crate::yrun::{self, End, Outcome, RunCfg, Session};

pub struct C15;

pub enum Snippet {
    Code(Vec<Stmt>, &'static str),
    Bad(&'static str),
    Reset,
    /// host action between two snippets: the loader starts to serve this module (it was missing, or
    /// its text did not compile), as when a user creates or repairs the file while the REPL is open
    Provide(&'static str),
    /// the host replaces the text it serves for a module by a second edition (another tag, a counter
    /// that starts elsewhere): a module already loaded stays what it is; after a reset the next import
    /// loads what the host serves now
    Replace(&'static str),
}

const BAD: &[&str] = &["var = 3;", "fn f( { }", "print(1;", "class { }", "\"unterminated", "var ok_before = 1; print(ok_before; var never = 2;", "}", "return 1;"];

const MODULES: &[(&str, &str)] = &[
    ("ma", "print(\"load ma\");\nvar tag = \"ma\";\nvar count = 0;\nfn bump() { count = count + 1; return count; }\nfn fail() { return nil + 1; }\n"),
    ("mb", "print(\"load mb\");\nimport \"ma\";\nvar tag = \"mb\";\nfn both() { return [tag, ma.tag, ma.bump()]; }\n"),
];

fn parse_free_modules() -> Vec<(String, ModuleSrc)> {
    // the same modules as ASTs for the reference interpreter
    let pr = |t: &str| Stmt::print(Expr::str(t));
    let ret = |e: Expr| Stmt::new(StmtKind::Return(Some(e)));
    let fdef = |name: &str, body: Vec<Stmt>| {
        Stmt::new(StmtKind::Fn(Rc::new(FnDef {
            name: std::cell::RefCell::new(name.to_string()),
            params: vec![],
            body: Body::Block(body),
            kind: FnKind::Function,
        })))
    };
    let ma = vec![
        pr("load ma"),
        Stmt::var("tag", Some(Expr::str("ma"))),
        Stmt::var("count", Some(Expr::Num(0.0))),
        fdef("bump", vec![
            Stmt::expr(Expr::assign_var("count", Expr::bin(BinOp::Add, Expr::var("count"), Expr::Num(1.0)))),
            ret(Expr::var("count")),
        ]),
        fdef("fail", vec![ret(Expr::bin(BinOp::Add, Expr::Nil, Expr::Num(1.0)))]),
    ];
    let mb = vec![
        pr("load mb"),
        Stmt::new(StmtKind::Import("ma".into(), None)),
        Stmt::var("tag", Some(Expr::str("mb"))),
        fdef("both", vec![ret(Expr::VecLit(vec![
            Expr::var("tag"),
            Expr::get(Expr::var("ma"), "tag"),
            Expr::invoke(Expr::var("ma"), "bump", vec![]),
        ]))]),
    ];
    // line numbers of module statements: set by rendering once
    let _ = render(&ma);
    let _ = render(&mb);
    // a module whose top-level code fails part-way: its first import ends in that error; whatever a
    // later import of it answers, the top-level code does not run a second time on this interpreter
    let mfail = vec![
        pr("load mfail"),
        Stmt::var("tag", Some(Expr::str("mfail"))),
        Stmt::new(StmtKind::Throw(Expr::str("mfail gives up"))),
        pr("never reached in mfail"),
    ];
    let _ = render(&mfail);
    vec![("ma".to_string(), ModuleSrc::Ast(ma)), ("mb".to_string(), ModuleSrc::Ast(mb)), ("mfail".to_string(), ModuleSrc::Ast(mfail))]
}

/// Modules the loader does not serve correctly at first: "mc" is missing, "md" does not compile.
const LATE: [&str; 2] = ["mc", "md"];

fn late_module(name: &str) -> Vec<Stmt> {
    late_module_edition(name, 1)
}

fn late_module_edition(name: &str, edition: u32) -> Vec<Stmt> {
    let (load, tag, start) = if edition <= 1 {
        (format!("load {}", name), name.to_string(), 0.0)
    } else {
        (format!("load {} (edition {})", name, edition), format!("{} edition {}", name, edition), 100.0 * edition as f64)
    };
    let body = vec![
        Stmt::print(Expr::str(&load)),
        Stmt::var("tag", Some(Expr::str(&tag))),
        Stmt::var("count", Some(Expr::Num(start))),
        Stmt::new(StmtKind::Fn(Rc::new(FnDef {
            name: std::cell::RefCell::new("bump".to_string()),
            params: vec![],
            body: Body::Block(vec![
                Stmt::expr(Expr::assign_var("count", Expr::bin(BinOp::Add, Expr::var("count"), Expr::Num(1.0)))),
                Stmt::new(StmtKind::Return(Some(Expr::var("count")))),
            ]),
            kind: FnKind::Function,
        }))),
    ];
    let _ = render(&body);
    body
}

pub fn history(bytes: &[u8]) -> (Vec<Snippet>, Vec<&'static str>) {
    let mut prof = profiles::mixed();
    prof.w_fiber = 0;
    prof.user_errors = false;
    prof.tracer = false;
    prof.size = 400;
    prof.guard = 8;
    let mut g = Gen::new(bytes, prof);
    let n = 2 + g.rd.below(11);
    let mut v = Vec::new();
    let mut labels = Vec::new();
    let mut failed_before = false;
    for _ in 0..n {
        if g.rd.exhausted() {
            break;
        }
        match g.rd.below(20) {
            0 | 1 => {
                v.push(Snippet::Bad(g.rd.pick_str(BAD)));
                labels.push("compile_error");
                failed_before = true;
            }
            2 => {
                // a global defined before the reset must be gone after it, a module loads afresh
                // (also names bound to built-in functions and bound natives: what a global holds must
                // not decide whether the reset drops it)
                v.push(Snippet::Code(
                    vec![
                        Stmt::var("before_reset", Some(Expr::str("defined before reset"))),
                        Stmt::var("alias_print", Some(Expr::var("print"))),
                        Stmt::var("alias_type", Some(Expr::var("type"))),
                        Stmt::var("alias_bound", Some(Expr::get(Expr::VecLit(vec![Expr::Num(1.0)]), "len"))),
                        Stmt::var("alias_class", Some(Expr::var("Error"))),
                        Stmt::expr(Expr::callv("alias_print", vec![Expr::callv("alias_type", vec![Expr::callv("alias_bound", vec![])])])),
                    ],
                    "code",
                ));
                if g.rd.flag() {
                    v.push(Snippet::Code(
                        vec![
                            Stmt::new(StmtKind::Import("ma".into(), None)),
                            Stmt::print(Expr::invoke(Expr::var("ma"), "fail", vec![])),
                        ],
                        "throw_in_module_function",
                    ));
                    labels.push("throw_in_module_function");
                    failed_before = true;
                }
                v.push(Snippet::Reset);
                labels.push("reset");
                // the generator forgets every global: they are gone
                g.forget_globals();
                v.push(Snippet::Code(
                    vec![
                        Stmt::new(StmtKind::Try(
                            vec![Stmt::print(Expr::var("before_reset"))],
                            Some(("er".into(), vec![Stmt::print(Expr::callv("type", vec![Expr::var("er")]))])),
                            None,
                        )),
                        Stmt::new(StmtKind::Try(
                            vec![Stmt::expr(Expr::callv("alias_print", vec![Expr::str("alias survived the reset")]))],
                            Some(("er".into(), vec![Stmt::print(Expr::callv("type", vec![Expr::var("er")]))])),
                            None,
                        )),
                        Stmt::new(StmtKind::Try(
                            vec![Stmt::print(Expr::callv("alias_type", vec![Expr::Num(1.0)]))],
                            Some(("er".into(), vec![Stmt::print(Expr::callv("type", vec![Expr::var("er")]))])),
                            None,
                        )),
                        Stmt::new(StmtKind::Try(
                            vec![Stmt::print(Expr::callv("alias_bound", vec![]))],
                            Some(("er".into(), vec![Stmt::print(Expr::callv("type", vec![Expr::var("er")]))])),
                            None,
                        )),
                        Stmt::new(StmtKind::Try(
                            vec![Stmt::print(Expr::var("alias_class"))],
                            Some(("er".into(), vec![Stmt::print(Expr::callv("type", vec![Expr::var("er")]))])),
                            None,
                        )),
                        Stmt::new(StmtKind::Import("ma".into(), None)),
                        Stmt::print(Expr::invoke(Expr::var("ma"), "bump", vec![])),
                        Stmt::print(Expr::callv("type", vec![Expr::invoke(Expr::var("Error"), "new", vec![Expr::Num(1.0)])])),
                        // the core library's own methods still work (and reach nothing that was reclaimed)
                        Stmt::print(Expr::invoke(
                            Expr::invoke(
                                Expr::invoke(Expr::VecLit(vec![Expr::Num(1.0), Expr::Num(2.0), Expr::Num(3.0)]), "iter", vec![]),
                                "map",
                                vec![Expr::Lambda(Rc::new(FnDef {
                                    name: std::cell::RefCell::new("lambda-0".into()),
                                    params: vec!["q".into()],
                                    body: Body::Expr(Box::new(Expr::bin(BinOp::Add, Expr::var("q"), Expr::Num(1.0)))),
                                    kind: FnKind::Lambda,
                                }))],
                            ),
                            "collect",
                            vec![],
                        )),
                        Stmt::print(Expr::invoke(
                            Expr::invoke(Expr::str("ab"), "iter", vec![]),
                            "reduce",
                            vec![
                                Expr::Lambda(Rc::new(FnDef {
                                    name: std::cell::RefCell::new("lambda-0".into()),
                                    params: vec!["a".into(), "b".into()],
                                    body: Body::Expr(Box::new(Expr::bin(BinOp::Add, Expr::var("a"), Expr::var("b")))),
                                    kind: FnKind::Lambda,
                                })),
                                Expr::str(""),
                            ],
                        )),
                    ],
                    "probe_after_reset",
                ));
                labels.push("probe_after_reset");
            }
            3..=7 => {
                // a snippet that fails at run time after completing some definitions
                let k0 = 1 + g.rd.below(2);
                let mut s = g.stmts(k0);
                let kind = g.rd.below(11);
                let tag: &'static str;
                match kind {
                    8 => {
                        // the failure happens in another fiber while the root fiber sits inside a
                        // try block: the root's handler must not outlive the run
                        let handler = if g.rd.flag() {
                            (Some(("ex".to_string(), vec![Stmt::print(Expr::str("must not catch"))])), None)
                        } else {
                            (None, Some(vec![Stmt::print(Expr::str("root finally does not run: the run is over"))]))
                        };
                        s.push(Stmt::new(StmtKind::Block(vec![
                            Stmt::var("fbz", Some(Expr::invoke(Expr::var("Fiber"), "new", vec![Expr::Lambda(Rc::new(FnDef {
                                name: std::cell::RefCell::new("lambda-0".into()),
                                params: vec![],
                                body: Body::Block(vec![Stmt::new(StmtKind::Throw(Expr::str("dies in fiber")))]),
                                kind: FnKind::Lambda,
                            }))]))),
                            Stmt::new(StmtKind::Try(vec![Stmt::print(Expr::invoke(Expr::var("fbz"), "call", vec![]))], handler.0, handler.1)),
                        ])));
                        tag = "throw_in_fiber_under_root_try";
                    }
                    9 | 10 => {
                        // the failure happens inside a function of an imported module
                        s.push(Stmt::new(StmtKind::Import("ma".into(), None)));
                        s.push(Stmt::print(Expr::invoke(Expr::var("ma"), "fail", vec![])));
                        tag = "throw_in_module_function";
                    }
                    0 => {
                        s.push(Stmt::new(StmtKind::Throw(Expr::str("top-level throw"))));
                        tag = "throw_top";
                    }
                    1 => {
                        let f = g.fresh_pub("thrower");
                        s.push(Stmt::new(StmtKind::Fn(Rc::new(FnDef {
                            name: std::cell::RefCell::new(f.clone()),
                            params: vec!["n".into()],
                            body: Body::Block(vec![
                                Stmt::new(StmtKind::If(
                                    Expr::bin(BinOp::Gt, Expr::var("n"), Expr::Num(0.0)),
                                    vec![Stmt::new(StmtKind::Return(Some(Expr::callv(&f, vec![Expr::bin(BinOp::Sub, Expr::var("n"), Expr::Num(1.0))]))))],
                                    None,
                                )),
                                Stmt::new(StmtKind::Throw(Expr::invoke(Expr::var("Error"), "new", vec![Expr::str("deep")]))),
                            ]),
                            kind: FnKind::Function,
                        }))));
                        g.declare_pub(&f, Kind::Fn(1), false);
                        s.push(Stmt::expr(Expr::callv(&f, vec![Expr::Num(3.0)])));
                        tag = "throw_nested";
                    }
                    2 => {
                        // inside a fiber (local to a block)
                        s.push(Stmt::new(StmtKind::Block(vec![
                            Stmt::var("fbx", Some(Expr::invoke(Expr::var("Fiber"), "new", vec![Expr::Lambda(Rc::new(FnDef {
                                name: std::cell::RefCell::new("lambda-0".into()),
                                params: vec![],
                                body: Body::Block(vec![
                                    Stmt::expr(Expr::invoke(Expr::var("Fiber"), "yield", vec![Expr::Num(1.0)])),
                                    Stmt::new(StmtKind::Throw(Expr::str("in fiber"))),
                                ]),
                                kind: FnKind::Lambda,
                            }))]))),
                            Stmt::print(Expr::invoke(Expr::var("fbx"), "call", vec![])),
                            Stmt::print(Expr::invoke(Expr::var("fbx"), "call", vec![])),
                        ])));
                        tag = "throw_in_fiber";
                    }
                    3 => {
                        s.push(Stmt::new(StmtKind::Try(
                            vec![Stmt::new(StmtKind::Throw(Expr::Num(7.0)))],
                            None,
                            Some(vec![Stmt::print(Expr::str("finally before dying"))]),
                        )));
                        tag = "throw_in_try_finally";
                    }
                    4 => {
                        // during class definition: the superclass is not a class
                        let k = g.fresh_pub("Broken");
                        s.push(Stmt::var("notaclass", Some(Expr::Num(3.0))));
                        s.push(Stmt::new(StmtKind::Class(Rc::new(ClassDef {
                            name: k,
                            superclass: Some("notaclass".into()),
                            default_ctor: None,
                            methods: vec![],
                            attr_line: std::cell::Cell::new(0),
                        }))));
                        tag = "throw_in_class_def";
                    }
                    5 => {
                        s.push(Stmt::new(StmtKind::Import("no/such/module".into(), None)));
                        tag = "import_missing";
                    }
                    6 => {
                        s.push(Stmt::print(Expr::bin(BinOp::Add, Expr::Nil, Expr::Num(1.0))));
                        tag = "builtin_error";
                    }
                    _ => {
                        // inside a constructor
                        let k = g.fresh_pub("Ctor");
                        s.push(Stmt::new(StmtKind::Class(Rc::new(ClassDef {
                            name: k.clone(),
                            superclass: None,
                            default_ctor: None,
                            methods: vec![Rc::new(FnDef {
                                name: std::cell::RefCell::new("new".into()),
                                params: vec![],
                                body: Body::Block(vec![
                                    Stmt::expr(Expr::assign(Target::Prop(Expr::SelfE, "a".into()), Expr::Num(1.0))),
                                    Stmt::new(StmtKind::Throw(Expr::str("in constructor"))),
                                ]),
                                kind: FnKind::Init,
                            })],
                            attr_line: std::cell::Cell::new(0),
                        }))));
                        s.push(Stmt::expr(Expr::invoke(Expr::var(&k), "new", vec![])));
                        tag = "throw_in_ctor";
                    }
                }
                // statements after the failure never run
                s.push(Stmt::var("never_defined", Some(Expr::Num(1.0))));
                v.push(Snippet::Code(s, tag));
                labels.push(tag);
                failed_before = true;
            }
            8 | 9 => {
                // imports persist across snippets
                let m = g.rd.pick_str(&["ma", "mb"]);
                let s = vec![
                    Stmt::new(StmtKind::Import(m.to_string(), None)),
                    Stmt::print(Expr::get(Expr::var(m), "tag")),
                    if m == "ma" {
                        Stmt::print(Expr::invoke(Expr::var("ma"), "bump", vec![]))
                    } else {
                        Stmt::print(Expr::invoke(Expr::var("mb"), "both", vec![]))
                    },
                ];
                v.push(Snippet::Code(s, "import"));
                labels.push("import");
            }
            13 => {
                // a range kept in a global is the same value as the same bounds written in a later
                // snippet, exactly as it would be later in one program (equality, map key, tuple)
                let rk = g.fresh_pub("grk");
                let a = g.rd.below(4) as f64;
                let b = a + 1.0 + g.rd.below(5) as f64;
                g.note_range(a as i64, b as i64);
                let lit = || Expr::range(Expr::Num(a), Expr::Num(b));
                v.push(Snippet::Code(
                    vec![Stmt::var(&rk, Some(lit())), Stmt::print(Expr::bin(BinOp::Eq, Expr::var(&rk), lit()))],
                    "code",
                ));
                v.push(Snippet::Code(
                    vec![
                        Stmt::print(Expr::bin(BinOp::Eq, Expr::var(&rk), lit())),
                        Stmt::print(Expr::bin(BinOp::Eq, Expr::TupleLit(vec![Expr::var(&rk), Expr::Num(1.0)]), Expr::TupleLit(vec![lit(), Expr::Num(1.0)]))),
                        Stmt::print(Expr::invoke(Expr::invoke(Expr::var(&rk), "iter", vec![]), "collect", vec![])),
                    ],
                    "range_across_snippets",
                ));
                labels.push("range_across_snippets");
            }
            12 => {
                // a snippet that ends normally after a return inside a finally block swallowed an
                // exception in flight: the next snippet's finally blocks must see nothing pending
                let f = g.fresh_pub("sw");
                let thrower: Stmt = match g.rd.below(3) {
                    0 => Stmt::new(StmtKind::Throw(Expr::str("swallowed"))),
                    1 => Stmt::expr(Expr::bin(BinOp::Add, Expr::Nil, Expr::Num(1.0))),
                    _ => Stmt::expr(Expr::invoke(Expr::VecLit(vec![]), "pop", vec![])),
                };
                v.push(Snippet::Code(
                    vec![
                        Stmt::new(StmtKind::Fn(Rc::new(FnDef {
                            name: std::cell::RefCell::new(f.clone()),
                            params: vec![],
                            body: Body::Block(vec![Stmt::new(StmtKind::Try(
                                vec![thrower],
                                None,
                                Some(vec![Stmt::new(StmtKind::Return(Some(Expr::str("from finally"))))]),
                            ))]),
                            kind: FnKind::Function,
                        }))),
                        Stmt::print(Expr::callv(&f, vec![])),
                    ],
                    "swallow_in_finally",
                ));
                labels.push("swallow_in_finally");
                v.push(Snippet::Code(
                    vec![
                        Stmt::new(StmtKind::Try(
                            vec![Stmt::print(Expr::str("probe body"))],
                            None,
                            Some(vec![Stmt::print(Expr::str("probe finally"))]),
                        )),
                        Stmt::print(Expr::str("after probe")),
                    ],
                    "probe_after_swallow",
                ));
                labels.push("probe_after_swallow");
            }
            11 => {
                // a fiber held by a global dies of an uncaught error in one snippet; later snippets see
                // a finished fiber, not one that still has frames, handlers or a caller
                let wk = g.fresh_pub("gwk");
                let yields = g.rd.below(3);
                let mut body: Vec<Stmt> = Vec::new();
                for k in 0..yields {
                    body.push(Stmt::expr(Expr::invoke(Expr::var("Fiber"), "yield", vec![Expr::Num(k as f64)])));
                }
                let in_try = g.rd.chance(1, 3);
                let dying: Stmt = match g.rd.below(3) {
                    0 => Stmt::new(StmtKind::Throw(Expr::str("dies"))),
                    1 => Stmt::var("x", Some(Expr::bin(BinOp::Add, Expr::Nil, Expr::Num(1.0)))),
                    _ => Stmt::expr(Expr::invoke(Expr::VecLit(vec![]), "pop", vec![])),
                };
                if in_try {
                    // a finally-only handler inside the fiber is still installed when it dies
                    body.push(Stmt::new(StmtKind::Try(vec![dying], None, Some(vec![Stmt::print(Expr::str("fiber finally"))]))));
                } else {
                    body.push(dying);
                }
                body.push(Stmt::new(StmtKind::Return(Some(Expr::str("unreachable")))));
                v.push(Snippet::Code(
                    vec![
                        Stmt::var(&wk, Some(Expr::invoke(Expr::var("Fiber"), "new", vec![Expr::Lambda(Rc::new(FnDef {
                            name: std::cell::RefCell::new("lambda-0".into()),
                            params: vec![],
                            body: Body::Block(body),
                            kind: FnKind::Lambda,
                        }))]))),
                        Stmt::print(Expr::invoke(Expr::var(&wk), "has_finished", vec![])),
                    ],
                    "code",
                ));
                for _ in 0..yields {
                    v.push(Snippet::Code(vec![Stmt::print(Expr::invoke(Expr::var(&wk), "call", vec![]))], "code"));
                }
                // sometimes the fiber that dies is called by another global fiber, from inside a try
                // block: that outer fiber is waiting for the result when the run ends, and nothing of
                // its activation (the rest of the try block, its handler, what follows) may run later
                let outer = if g.rd.chance(1, 2) { Some(g.fresh_pub("gwo")) } else { None };
                if let Some(wo) = &outer {
                    let inner_call = Stmt::print(Expr::invoke(Expr::var(&wk), "call", vec![]));
                    let mut ob: Vec<Stmt> = vec![Stmt::print(Expr::str("outer starts"))];
                    let after = Stmt::print(Expr::str("ran on behind the failed call"));
                    match g.rd.below(3) {
                        0 => ob.extend(vec![inner_call, after]),
                        1 => ob.push(Stmt::new(StmtKind::Try(
                            vec![inner_call, after],
                            Some(("eo".into(), vec![Stmt::print(Expr::str("outer handler ran"))])),
                            None,
                        ))),
                        _ => ob.push(Stmt::new(StmtKind::Try(vec![inner_call, after], None, Some(vec![Stmt::print(Expr::str("outer finally ran"))])))),
                    }
                    ob.push(Stmt::print(Expr::str("outer committed")));
                    v.push(Snippet::Code(
                        vec![Stmt::var(wo, Some(Expr::invoke(Expr::var("Fiber"), "new", vec![Expr::Lambda(Rc::new(FnDef {
                            name: std::cell::RefCell::new("lambda-0".into()),
                            params: vec![],
                            body: Body::Block(ob),
                            kind: FnKind::Lambda,
                        }))])))],
                        "code",
                    ));
                }
                let dying_call = outer.clone().unwrap_or_else(|| wk.clone());
                v.push(Snippet::Code(
                    vec![Stmt::print(Expr::invoke(Expr::var(&dying_call), "call", vec![])), Stmt::var("never_defined", Some(Expr::Num(1.0)))],
                    "global_fiber_dies",
                ));
                labels.push("global_fiber_dies");
                failed_before = true;
                if let Some(wo) = &outer {
                    // between the failure and the probe of the fiber that died, other snippets may run
                    v.push(Snippet::Code(
                        vec![Stmt::new(StmtKind::Try(
                            vec![Stmt::print(Expr::invoke(Expr::var(wo), "call", vec![]))],
                            Some(("ew".into(), vec![Stmt::print(Expr::callv("type", vec![Expr::var("ew")]))])),
                            None,
                        ))],
                        "probe_waiting_fiber",
                    ));
                    labels.push("probe_waiting_fiber");
                }
                let probe = vec![
                    Stmt::print(Expr::invoke(Expr::var(&wk), "has_finished", vec![])),
                    Stmt::new(StmtKind::Try(
                        vec![Stmt::print(Expr::invoke(Expr::var(&wk), "call", vec![]))],
                        Some(("ef".into(), vec![Stmt::print(Expr::callv("type", vec![Expr::var("ef")]))])),
                        None,
                    )),
                    Stmt::print(Expr::invoke(Expr::var(&wk), "has_finished", vec![])),
                ];
                v.push(Snippet::Code(probe, "probe_dead_fiber"));
                labels.push("probe_dead_fiber");
            }
            10 => {
                // try/finally and a fiber after earlier failures: nothing may be left in flight
                let s = vec![
                    Stmt::new(StmtKind::Try(
                        vec![Stmt::print(Expr::str("try body"))],
                        None,
                        Some(vec![Stmt::print(Expr::str("finally body"))]),
                    )),
                    Stmt::new(StmtKind::Block(vec![
                        Stmt::var("fby", Some(Expr::invoke(Expr::var("Fiber"), "new", vec![Expr::Lambda(Rc::new(FnDef {
                            name: std::cell::RefCell::new("lambda-0".into()),
                            params: vec![],
                            body: Body::Expr(Box::new(Expr::invoke(Expr::var("Fiber"), "yield", vec![Expr::str("y")]))),
                            kind: FnKind::Lambda,
                        }))]))),
                        Stmt::print(Expr::invoke(Expr::var("fby"), "call", vec![])),
                        Stmt::print(Expr::invoke(Expr::var("fby"), "call", vec![Expr::Num(5.0)])),
                        Stmt::print(Expr::invoke(Expr::var("fby"), "has_finished", vec![])),
                    ])),
                    Stmt::new(StmtKind::Try(
                        vec![Stmt::new(StmtKind::Throw(Expr::str("caught later")))],
                        Some(("e".into(), vec![Stmt::print(Expr::var("e"))])),
                        Some(vec![Stmt::print(Expr::str("finally 2"))]),
                    )),
                ];
                v.push(Snippet::Code(s, if failed_before { "probe_after_failure" } else { "probe" }));
                labels.push(if failed_before { "probe_after_failure" } else { "probe" });
            }
            16 => {
                // a module whose top-level code throws, imported without and with a guard, possibly in
                // several snippets
                let guarded = g.rd.chance(1, 2);
                let import = Stmt::new(StmtKind::Import("mfail".to_string(), None));
                let s = if guarded {
                    vec![
                        Stmt::new(StmtKind::Try(vec![import, Stmt::print(Expr::str("mfail imported"))], Some(("fe".into(), vec![Stmt::print(Expr::callv("type", vec![Expr::var("fe")]))])), None)),
                        Stmt::print(Expr::str("after the guarded import of mfail")),
                    ]
                } else {
                    vec![import, Stmt::print(Expr::str("mfail imported"))]
                };
                v.push(Snippet::Code(s, "import_failing_module"));
                labels.push("import_failing_module");
                failed_before = failed_before || !guarded;
            }
            18 => {
                // the value that ends an iteration is an ordinary instance, new each time: what one
                // snippet writes on the one it got is not on the one a later snippet gets (also after
                // a failed snippet or a reset in between), and two of them are different objects
                let (ia, ib) = (g.fresh_pub("it"), g.fresh_pub("it"));
                let (sa, sb) = (g.fresh_pub("fin"), g.fresh_pub("fin"));
                let first = vec![
                    Stmt::var(&ia, Some(Expr::invoke(Expr::VecLit(vec![Expr::Num(1.0)]), "iter", vec![]))),
                    Stmt::expr(Expr::invoke(Expr::var(&ia), "next", vec![])),
                    Stmt::var(&sa, Some(Expr::invoke(Expr::var(&ia), "next", vec![]))),
                    Stmt::print(Expr::callv("type", vec![Expr::var(&sa)])),
                    Stmt::expr(Expr::assign(Target::Prop(Expr::var(&sa), "note".into()), Expr::str("left by an earlier snippet"))),
                    Stmt::print(Expr::get(Expr::var(&sa), "note")),
                ];
                v.push(Snippet::Code(first, "code"));
                let reset_between = match g.rd.below(3) {
                    0 => false,
                    1 => {
                        v.push(Snippet::Code(vec![Stmt::new(StmtKind::Throw(Expr::str("fails between")))], "code"));
                        failed_before = true;
                        false
                    }
                    _ => {
                        v.push(Snippet::Reset);
                        labels.push("reset");
                        g.forget_globals();
                        true
                    }
                };
                let src: Expr = if g.rd.flag() { Expr::VecLit(vec![Expr::Num(2.0)]) } else { Expr::range(Expr::Num(0.0), Expr::Num(1.0)) };
                let mut second = vec![
                    Stmt::var(&ib, Some(Expr::invoke(src, "iter", vec![]))),
                    Stmt::expr(Expr::invoke(Expr::var(&ib), "next", vec![])),
                    Stmt::var(&sb, Some(Expr::invoke(Expr::var(&ib), "next", vec![]))),
                    Stmt::print(Expr::callv("type", vec![Expr::var(&sb)])),
                    Stmt::new(StmtKind::Try(
                        vec![Stmt::print(Expr::get(Expr::var(&sb), "note"))],
                        Some(("en".into(), vec![Stmt::print(Expr::callv("type", vec![Expr::var("en")]))])),
                        None,
                    )),
                ];
                if !reset_between {
                    second.push(Stmt::print(Expr::bin(BinOp::Eq, Expr::var(&sa), Expr::var(&sb))));
                    second.push(Stmt::print(Expr::get(Expr::var(&sa), "note")));
                }
                v.push(Snippet::Code(second, "iteration_end_value_probe"));
                labels.push("iteration_end_value_probe");
            }
            17 => {
                // a global of main named like a built-in (a variable or a function), defined in one
                // snippet and read in a later one: a definition persists, whatever its name
                let name = g.rd.pick_str(&["clock", "Nil", "Bool", "BuiltIn", "Method", "BuiltInMethod"]);
                let as_fn = g.rd.flag();
                let mine = Expr::str(&format!("my own {}", name));
                let define = if as_fn {
                    Stmt::new(StmtKind::Fn(Rc::new(FnDef {
                        name: std::cell::RefCell::new(name.to_string()),
                        params: vec![],
                        body: Body::Block(vec![Stmt::new(StmtKind::Return(Some(mine)))]),
                        kind: FnKind::Function,
                    })))
                } else {
                    Stmt::var(name, Some(mine))
                };
                v.push(Snippet::Code(vec![define], "code"));
                match g.rd.below(3) {
                    0 => {}
                    1 => v.push(Snippet::Code(vec![Stmt::print(Expr::str("between"))], "code")),
                    _ => {
                        v.push(Snippet::Code(vec![Stmt::new(StmtKind::Throw(Expr::str("fails between")))], "code"));
                        failed_before = true;
                    }
                }
                let read = if as_fn { Expr::callv(name, vec![]) } else { Expr::var(name) };
                v.push(Snippet::Code(vec![Stmt::print(read)], "redefined_builtin_probe"));
                labels.push("redefined_builtin_probe");
            }
            14 | 15 => {
                // a module that is missing (mc) or does not compile (md) when first imported: the
                // failed import must leave nothing behind, so that the same statement succeeds once
                // the host serves a good text; imported again later it is the same loaded module
                let m = g.rd.pick_str(&LATE);
                let guarded = g.rd.chance(1, 3);
                let import = Stmt::new(StmtKind::Import(m.to_string(), None));
                let uses = vec![Stmt::print(Expr::get(Expr::var(m), "tag")), Stmt::print(Expr::invoke(Expr::var(m), "bump", vec![]))];
                let s = if guarded {
                    let mut body = vec![import];
                    body.extend(uses);
                    vec![Stmt::new(StmtKind::Try(body, Some(("le".into(), vec![Stmt::print(Expr::callv("type", vec![Expr::var("le")]))])), None))]
                } else {
                    let mut body = vec![import];
                    body.extend(uses);
                    body
                };
                v.push(Snippet::Code(s, "import_late"));
                labels.push("import_late");
                if g.rd.chance(1, 2) {
                    v.push(Snippet::Provide(m));
                    labels.push("provide_module");
                    let again = vec![
                        Stmt::new(StmtKind::Import(m.to_string(), None)),
                        Stmt::print(Expr::get(Expr::var(m), "tag")),
                        Stmt::print(Expr::invoke(Expr::var(m), "bump", vec![])),
                    ];
                    v.push(Snippet::Code(again.clone(), "import_late"));
                    if g.rd.chance(1, 2) {
                        // the host moves on to a second edition of the text: the loaded module stays,
                        // and an interpreter that has been reset loads the new one like a fresh one would
                        v.push(Snippet::Replace(m));
                        labels.push("replace_module");
                        v.push(Snippet::Code(again.clone(), "import_after_replace"));
                        if g.rd.chance(2, 3) {
                            v.push(Snippet::Reset);
                            labels.push("reset");
                            g.forget_globals();
                            v.push(Snippet::Code(again, "import_new_edition_after_reset"));
                            labels.push("import_new_edition_after_reset");
                        }
                    }
                }
            }
            _ => {
                let k = 1 + g.rd.below(4);
                let s = g.stmts(k);
                v.push(Snippet::Code(s, "code"));
                labels.push("code");
            }
        }
    }
    (v, labels)
}

fn render_history(h: &[Snippet]) -> String {
    let mut s = String::new();
    for (i, sn) in h.iter().enumerate() {
        s.push_str(&format!("--- snippet {} ---\n", i + 1));
        match sn {
            Snippet::Code(st, tag) => {
                let p = Program { main: st.clone(), modules: vec![] };
                crate::astutil::fix_lambda_names(&p);
                s.push_str(&format!("// {}\n{}", tag, render(st)));
            }
            Snippet::Bad(t) => s.push_str(&format!("{}\n", t)),
            Snippet::Reset => s.push_str("<reset()>\n"),
            Snippet::Provide(m) => s.push_str(&format!("<host: the loader now serves a good text for module {}>\n", m)),
            Snippet::Replace(m) => s.push_str(&format!("<host: the loader now serves a second edition of module {}>\n", m)),
        }
    }
    s
}

impl Property for C15 {
    fn id(&self) -> &'static str {
        "C15"
    }

    fn families(&self, tier: Tier) -> Vec<Family> {
        vec![Family {
            name: "histories",
            kind: FamilyKind::Random { cases: if tier == Tier::Quick { 80_000 } else { 800_000 }, max_len: 900 },
        }]
    }

    fn rule(&self) -> String {
        "cases: histories of 2-12 snippets fed to one interpreter through vm::interpret (as the REPL does): generated code that defines and uses globals, functions and classes across snippets; snippets that do not compile; snippets that complete some definitions and then end in an uncaught error (top-level throw, throw from nested calls, inside a fiber, inside try/finally, during a class definition, in a constructor, a missing import, a built-in error); imports of two modules (one importing the other) that must persist; imports of a module that is missing and of one that does not compile, guarded and unguarded, followed — as a host action between snippets — by the loader starting to serve a good text, after which the same import must load it (once) and later imports find it loaded; the host then replacing that text by a second edition, which a loaded module ignores and an interpreter that was reset loads like a new one; probes with try/finally, try/catch/finally and a fiber; the value that ends an iteration written to in one snippet and obtained again in a later one (after nothing, a failed snippet or a reset); and reset(). Oracle: the reference interpreter fed the same history piecewise (a brand-new reference interpreter after reset), compared per snippet: printed values, outcome, error kind, report and trace; a panic in any snippet is a violation. Non-trivial: a failing snippet is followed by a probe or by code using earlier definitions; distinct by the rendered history.".into()
    }

    fn assumptions(&self) -> Vec<String> {
        vec![
            "a fiber that was waiting for another fiber's result when its run ended in an uncaught error must refuse later calls with a RuntimeError (its activation belongs to the failed run); whether it counts as finished is not compared".into(),
            "the importable modules ma and mb do not throw; mfail always does, and a second import of it is compared with the reference model (the module stays registered as 'being loaded', so the import is refused and its top-level code never runs again)".into(),
        ]
    }

    fn render(&self, _family: &str, bytes: &[u8]) -> String {
        render_history(&history(bytes).0)
    }

    fn run(&self, ctx: &mut CaseCtx) -> Verdict {
        let (h, labels) = history(ctx.bytes);
        for l in &labels {
            ctx.label(&format!("gen:{}", l));
        }
        // the module texts are the rendered ASTs, so that lines agree
        let mut mods_ast = parse_free_modules();
        mods_ast.push(("md".to_string(), ModuleSrc::Bad("var = 3;\n".to_string())));
        let mods_text: Vec<(String, String)> = mods_ast
            .iter()
            .map(|(p, m)| match m {
                ModuleSrc::Ast(b) => (p.clone(), render(b)),
                ModuleSrc::Bad(t) => (p.clone(), t.clone()),
            })
            .collect();
        let _ = MODULES;
        let rcfg = RefCfg::default();
        let (mut sh, mut rctx, mut rmain) = new_interp(&rcfg, &mods_ast);
        let mut session = Session::new(RunCfg { fuel: Some(3_000_000), modules: mods_text.clone(), quarantine: true, ..RunCfg::default() });
        let mut rendered = String::new();
        let mut failure_seen = false;
        let mut nontrivial = false;
        let dcfg = DiffCfg::default();
        let mut result: Option<Verdict> = None;
        for (i, sn) in h.iter().enumerate() {
            match sn {
                Snippet::Reset => {
                    rendered.push_str(&format!("--- snippet {}: reset()\n", i + 1));
                    if let Some(p) = session.reset() {
                        result = Some(Verdict::Fail { sig: format!("panic:{}", crate::props::c03::sig_of_panic(&p)), detail: format!("reset() panicked: {}\n{}", p, rendered) });
                        break;
                    }
                    drop(rctx);
                    sh.teardown();
                    let (a, b, c) = new_interp(&rcfg, &mods_ast);
                    sh = a;
                    rctx = b;
                    rmain = c;
                }
                Snippet::Provide(m) => {
                    rendered.push_str(&format!("--- after snippet {}: the loader now serves a good text for module {}\n", i, m));
                    let body = late_module(m);
                    yrun::set_module(m, Some(render(&body)));
                    sh.sources.borrow_mut().insert(m.to_string(), ModuleSrc::Ast(body.clone()));
                    // what the host serves outlives a reset of the interpreter
                    mods_ast.retain(|(p, _)| p != m);
                    mods_ast.push((m.to_string(), ModuleSrc::Ast(body)));
                }
                Snippet::Replace(m) => {
                    rendered.push_str(&format!("--- after snippet {}: the loader now serves a second edition of module {}\n", i, m));
                    let body = late_module_edition(m, 2);
                    yrun::set_module(m, Some(render(&body)));
                    sh.sources.borrow_mut().insert(m.to_string(), ModuleSrc::Ast(body.clone()));
                    mods_ast.retain(|(p, _)| p != m);
                    mods_ast.push((m.to_string(), ModuleSrc::Ast(body)));
                }
                Snippet::Bad(text) => {
                    rendered.push_str(&format!("--- snippet {} (does not compile)\n{}\n", i + 1, text));
                    let (out, end) = session.feed(text);
                    failure_seen = true;
                    match end {
                        End::Err(yarel::error::ErrorKind::CompileError, ref m) if crate::diff::is_compile_error(m) && out.is_empty() => {}
                        End::Panic(p) => {
                            result = Some(Verdict::Fail { sig: format!("panic:{}", crate::props::c03::sig_of_panic(&p)), detail: format!("snippet {} panicked: {}\n{}", i + 1, p, rendered) });
                            break;
                        }
                        other => {
                            result = Some(Verdict::Fail { sig: "bad-snippet-not-rejected".into(), detail: format!("snippet {} should be a compile error, got {:?} with output {:?}\n{}", i + 1, other, out, rendered) });
                            break;
                        }
                    }
                }
                Snippet::Code(stmts, tag) => {
                    let p = Program { main: stmts.clone(), modules: vec![] };
                    crate::astutil::fix_lambda_names(&p);
                    let src = render(stmts);
                    rendered.push_str(&format!("--- snippet {} ({})\n{}", i + 1, tag, src));
                    sh.events.borrow_mut().clear();
                    sh.pending_finally.set(0);
                    sh.e11_armed.set(false);
                    sh.steps.set(0);
                    sh.text_bytes.set(0);
                    rctx.fs.try_depth.set(0);
                    let rend = run_snippet(&rctx, &rmain, stmts);
                    let rout = RefOutcome {
                        out: std::mem::take(&mut *sh.out.borrow_mut()),
                        end: rend.clone(),
                        events: sh.events.borrow().clone(),
                        max_depth: 0,
                        fiber_switches: 0,
                        distinct_ranges: sh.ranges.borrow().len(),
                        range_identity_observed: true,
                        steps: sh.steps.get(),
                    };
                    if let RefEnd::Discard(w) = &rend {
                        ctx.label(&format!("discard:{}", w));
                        result = Some(Verdict::Discard("reference declined a snippet"));
                        break;
                    }
                    let (out, end) = session.feed(&src);
                    let fuel = matches!(&end, End::Err(_, m) if yrun::is_fuel(m));
                    let o = Outcome { out, end, fuel_exhausted: fuel, uas: vec![], uas_count: 0, collections: 0, swept: 0, fiber_mismatches: 0, dangling_upvalues: 0, executed: 0 };
                    match compare_outcome(&rout, &o, &dcfg) {
                        DiffVerdict::Agree => {}
                        DiffVerdict::Discard(w) => {
                            ctx.label(&format!("discard:{}", w));
                            result = Some(Verdict::Discard("snippet discarded"));
                            break;
                        }
                        DiffVerdict::Mismatch(m) => {
                            result = Some(Verdict::Fail {
                                sig: format!("ref-mismatch{}", trigger_suffix(&rout.events)),
                                detail: format!("snippet {}: {}\nexpected output {:?} end {:?}\nyarel output {:?} end {:?}\n{}", i + 1, m, rout.out, rout.end, o.out, o.end, rendered),
                            });
                            break;
                        }
                        DiffVerdict::Panic(p) => {
                            result = Some(Verdict::Fail {
                                sig: format!("panic:{}{}", crate::props::c03::sig_of_panic(&p), trigger_suffix(&rout.events)),
                                detail: format!("snippet {} panicked: {}\n{}", i + 1, p, rendered),
                            });
                            break;
                        }
                    }
                    if matches!(rend, RefEnd::Err(_)) {
                        failure_seen = true;
                    } else if failure_seen && (*tag == "probe_after_failure" || *tag == "code" || *tag == "import" || *tag == "import_late") {
                        nontrivial = true;
                    }
                }
            }
        }
        let fin = session.finish();
        drop(rctx);
        sh.teardown();
        if let Some(r) = result {
            return r;
        }
        if let End::Panic(p) = &fin.end {
            return Verdict::Fail { sig: format!("panic:{}", crate::props::c03::sig_of_panic(p)), detail: format!("dropping the interpreter panicked: {}\n{}", p, rendered) };
        }
        // swept objects are quarantined for the whole history: a later snippet (after a failure or a
        // reset) that reaches an object the collector has reclaimed is reported even when the freed
        // memory still happens to hold the old contents
        if fin.uas_count > 0 {
            let sig = if fin.uas.iter().all(|t| t.contains("open upvalue into the value stack")) {
                "use-after-sweep:fiber-stack-upvalue".to_string()
            } else {
                "use-after-sweep".to_string()
            };
            return Verdict::Fail { sig, detail: format!("{} dereferences of swept objects {:?} during the history\n{}", fin.uas_count, fin.uas, rendered) };
        }
        ctx.label_n("snippets", h.len() as u64);
        Verdict::Pass { nontrivial, hash: fnv64(rendered.as_bytes()) }
    }

    fn floors(&self, _tier: Tier) -> Vec<(&'static str, u64)> {
        vec![
            ("snippets", 30_000),
            ("gen:compile_error", 2_000),
            ("gen:reset", 1_000),
            ("gen:throw_in_fiber", 300), ("gen:probe_waiting_fiber", 500), ("gen:redefined_builtin_probe", 1_000), ("gen:import_new_edition_after_reset", 300), ("gen:iteration_end_value_probe", 1_000),
            ("gen:throw_in_try_finally", 300),
            ("gen:probe_after_failure", 1_000),
            ("gen:import", 2_000), ("gen:import_late", 2_000), ("gen:import_failing_module", 1_500), ("gen:provide_module", 1_000),
        ]
    }
}
