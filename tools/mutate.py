#!/usr/bin/env python3
"""mutate.py <scratch-repo> <scratch-verif> <log> <seed> <count>

Mechanical mutation run, independent of /repo and /verif: <scratch-repo> is a git worktree of /repo,
<scratch-verif> a copy of /verif whose Cargo paths point at it. For <count> pseudo-random sites in
yarel/src/*.rs one small mutation is applied (relational operator flipped, +-1 changed, && / ||
swapped, a boolean literal flipped, a call statement deleted); mutants that still compile and leave
the test-suite picture unchanged (3 passed; 543 passed, 1 failed) are run against the quick checks,
cheapest first, until one reports a violation. One log line per mutant.
"""
import os, random, re, subprocess, sys, time

repo, verif, log, seed, count = sys.argv[1], sys.argv[2], sys.argv[3], int(sys.argv[4]), int(sys.argv[5])
FILES = ["vm.rs", "compiler.rs", "scanner.rs", "object.rs", "value.rs", "core.rs", "memory.rs", "utils.rs", "hash.rs", "chunk.rs", "stack.rs", "class_store.rs", "error.rs"]
ORDER = ["C05", "C06", "C07", "C08", "C09", "C18", "C12", "C13", "C14", "C15", "C17", "C02", "C01", "C04", "C03", "C11", "C19", "C16", "C10"]
HOOK_COMMITS = {"c6c30f5", "92da5a9", "f1a1e07", "748368d", "b4f9cb9", "50e3bac", "cef4d7b"}
ENV = dict(os.environ, CARGO_NET_OFFLINE="true", VERIF_REPO=repo)

REL = [(" < ", " <= "), (" <= ", " < "), (" > ", " >= "), (" >= ", " > "), (" == ", " != "), (" != ", " == "),
       (" + 1", " + 0"), (" - 1", " - 0"), (" + 1", " + 2"), (" && ", " || "), (" || ", " && "), ("true", "false"), ("false", "true")]

def sites():
    out = []
    for f in FILES:
        p = os.path.join(repo, "yarel/src", f)
        if not os.path.exists(p):
            continue
        lines = open(p).read().split("\n")
        # lines added by the hook commits are not yarel's own code
        hook_lines = set()
        try:
            bl = subprocess.run(["git", "blame", "-s", "--abbrev=7", "yarel/src/" + f], cwd=repo, stdout=subprocess.PIPE).stdout.decode(errors="replace").split("\n")
            for k, b in enumerate(bl):
                if b[:7] in HOOK_COMMITS or b[1:8] in HOOK_COMMITS:
                    hook_lines.add(k)
        except Exception:
            pass
        in_verif = 0
        in_tests = False
        for i, l in enumerate(lines):
            s = l.strip()
            if "mod tests" in s or "#[cfg(test)]" in s:
                in_tests = True
            if in_tests or i in hook_lines:
                continue
            if 'feature = "verif_hooks"' in s or "pub mod verif" in s:
                in_verif = 40  # skip the hook code that follows
            if in_verif > 0:
                in_verif -= 1
                continue
            if s.startswith("//") or s.startswith("#[") or s.startswith("use ") or "debug_assert" in s or "panic!" in s or "expect(" in s:
                continue
            for a, b in REL:
                for m in re.finditer(re.escape(a), l):
                    # skip generics / arrows / comments / string literals (rough)
                    before = l[:m.start()]
                    if before.count('"') % 2 == 1 or "//" in before:
                        continue
                    if a.strip() in ("<", ">") and ("->" in l[m.start() - 2:m.end() + 1] or "<" + ">" in l):
                        continue
                    out.append((f, i, m.start(), a, b))
            # statement deletion: a line that is just a method call statement
            if re.match(r"^(self|[a-z_]+)(\.[a-z_]+)+\(.*\);$", s) and not s.startswith("return") and "=" not in s.split("(")[0]:
                out.append((f, i, -1, "DELETE", s))
    return out

def sh(cmd, cwd, timeout):
    try:
        r = subprocess.run(cmd, cwd=cwd, shell=True, env=ENV, stdout=subprocess.PIPE, stderr=subprocess.STDOUT, timeout=timeout)
        return r.returncode, r.stdout.decode(errors="replace")
    except subprocess.TimeoutExpired:
        subprocess.run("pkill -9 -f 'deps/test-'; pkill -9 -f 'deps/yarel'", shell=True)
        return 124, "TIMEOUT"

def main():
    rnd = random.Random(seed)
    all_sites = sites()
    rnd.shuffle(all_sites)
    with open(log, "a") as L:
        L.write("# %d candidate sites, seed %d\n" % (len(all_sites), seed))
        L.flush()
        done = 0
        for (f, i, col, a, b) in all_sites:
            if done >= count:
                break
            p = os.path.join(repo, "yarel/src", f)
            sh("git checkout -q -- .", repo, 60)
            lines = open(p).read().split("\n")
            orig = lines[i]
            if a == "DELETE":
                lines[i] = orig[:len(orig) - len(orig.lstrip())] + "// deleted: " + orig.strip()
                desc = "delete `%s`" % orig.strip()
            else:
                lines[i] = orig[:col] + b + orig[col + len(a):]
                desc = "`%s` -> `%s` in `%s`" % (a.strip(), b.strip(), orig.strip())
            open(p, "w").write("\n".join(lines))
            tag = "%s:%d %s" % (f, i + 1, desc[:150])
            rc, out = sh("cargo build --offline -p yarel --features verif_hooks", repo, 900)
            if rc != 0:
                L.write("NOCOMPILE %s\n" % tag); L.flush(); continue
            rc, out = sh("bash -c 'ulimit -v 12000000; timeout 900 cargo test --workspace --no-fail-fast --offline 2>&1' | grep -E '^test result|FAILED|panicked|error'", repo, 1000)
            ok = "543 passed; 1 failed" in out and "3 passed; 0 failed" in out
            if not ok:
                L.write("KILLED-BY-TESTS %s\n" % tag); L.flush(); done += 1; continue
            caught = None
            t0 = time.time()
            for cid in ORDER:
                rc, out = sh("bash -c 'set -o pipefail; ./check %s quick 2>&1 | tail -40'" % cid, verif, 3000)
                if rc == 1:
                    sig = ""
                    m = re.search(r"VIOLATION[^\n]*\n([^\n]*)", out)
                    if m:
                        sig = m.group(1).strip()[:160]
                    caught = (cid, sig)
                    break
                if rc not in (0, 1):
                    L.write("  note %s: %s rc=%d %s\n" % (tag[:40], cid, rc, out.strip().split("\n")[-1][:120])); L.flush()
            if caught:
                L.write("CAUGHT %s | by %s | %s | %.0fs\n" % (tag, caught[0], caught[1], time.time() - t0))
            else:
                L.write("SURVIVED %s | %.0fs\n" % (tag, time.time() - t0))
            L.flush()
            done += 1
        sh("git checkout -q -- .", repo, 60)
        L.write("# done\n")

main()
