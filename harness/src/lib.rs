pub mod engine;
pub mod rd;
pub mod yrun;
pub mod corpus;
pub mod props;
