//! C11 — strings are equal exactly when their contents are equal.

use std::collections::HashMap;

use crate::engine::*;
use crate::rd::{fnv64, Rd};
use crate::yrun::{self, End, RunCfg, Session};

pub struct C11;

/// the interpreter's string hash: FNV-1a-style over the bytes followed by 0xff (str's Hash impl)
fn fnv_str(s: &str) -> u64 {
    let mut h: u64 = 2166136261;
    for b in s.bytes().chain(std::iter::once(0xffu8)) {
        h ^= b as u64;
        h = (h as u128 * 16777619) as u64;
    }
    h
}

#[derive(Clone, Copy, Debug)]
enum HashFn {
    /// every text hashes to the same value
    Constant,
    /// only the low `k` bits are shared; the rest depends on the text
    LowBits(u32),
    /// the real hash
    Real,
    /// real hash with its low 12 bits cleared: everything starts probing at slot 0 of any table
    RealHighOnly,
    /// the low `k` bits place every text within `spread` slots of the end of any table of up to 2^k
    /// slots (the rest depends on the text): dense runs of entries that wrap around the end of the
    /// table, which a growth then re-inserts starting with the wrapped part
    NearEnd(u32, u64),
    /// two clusters: half of the texts home at the last slot, half `gap` slots before it
    TwoClusters(u32, u64),
    /// the low `k` bits are zero (k up to 48), the rest depends on the text: whatever a table derives
    /// from the low half of a hash - a tag, a bucket, a fingerprint - is the same trivial value for
    /// every text, the all-zero one
    LowZero(u32),
}

fn hash_with(f: HashFn, text: &str) -> u64 {
    match f {
        HashFn::Constant => 0x1234_5678_9abc_def0,
        HashFn::LowBits(k) => (fnv_str(text) << k) | ((1u64 << k) - 1),
        HashFn::Real => fnv_str(text),
        HashFn::RealHighOnly => fnv_str(text) & !0xfff,
        HashFn::NearEnd(k, spread) => {
            let h = fnv_str(text);
            let mask = (1u64 << k) - 1;
            (h << k) | (mask.wrapping_sub((h >> 40) % spread) & mask)
        }
        HashFn::LowZero(k) => fnv_str(text) << k,
        HashFn::TwoClusters(k, gap) => {
            let h = fnv_str(text);
            let mask = (1u64 << k) - 1;
            (h << k) | (mask.wrapping_sub(if (h >> 33) & 1 == 0 { 0 } else { gap }) & mask)
        }
    }
}

fn text_of(i: usize) -> String {
    match i % 7 {
        0 => format!("k{}", i),
        1 => format!("{}", i),
        2 => format!("é{}€", i),
        3 => format!("key_{}_{}", i, i * 31),
        4 => format!("{}😀", i),
        5 => "x".repeat(i % 40) + &i.to_string(),
        _ => format!("K{}", i),
    }
}

#[cfg(feature = "hooks")]
fn run_table(ops: &[(usize, bool)], f: HashFn) -> Result<(usize, usize, usize), (String, String)> {
    // ops: (text index, is_lookup_only)
    use yarel::vm::verif_strings::Store;
    let mut s = Session::new(RunCfg::default());
    let vm = s.vm().ok_or(("vm".to_string(), "no vm".to_string()))?;
    let mut store = Store::new(vm);
    let mut model: HashMap<(u64, String), usize> = HashMap::new();
    let mut addrs: HashMap<usize, String> = HashMap::new();
    let mut growths = 0;
    let mut cap = 4usize;
    let mut max_chain = 0usize;
    let mut chain: HashMap<u64, usize> = HashMap::new();
    for (step, (ti, lookup)) in ops.iter().enumerate() {
        let text = text_of(*ti);
        let h = hash_with(f, &text);
        let key = (h, text.clone());
        if *lookup {
            let got = store.get(h, &text);
            let want = model.get(&key).copied();
            if got != want {
                return Err((
                    "intern-lookup-wrong".into(),
                    format!("step {}: get({:#x}, {:?}) returned {:?}, the model says {:?}", step, h, text, got, want),
                ));
            }
            continue;
        }
        let (addr, created) = store.intern(h, &text);
        match model.get(&key) {
            Some(prev) => {
                if created || addr != *prev {
                    return Err((
                        "intern-duplicate-entry".into(),
                        format!("step {}: {:?} (hash {:#x}) was interned before at {:#x}, now {} at {:#x}", step, text, h, prev, if created { "created again" } else { "found" }, addr),
                    ));
                }
            }
            None => {
                if !created {
                    return Err((
                        "intern-conflates-texts".into(),
                        format!("step {}: {:?} (hash {:#x}) is new, but the table returned the existing entry {:?}", step, text, h, addrs.get(&addr)),
                    ));
                }
                if let Some(other) = addrs.get(&addr) {
                    return Err(("intern-address-reused".into(), format!("step {}: new entry for {:?} shares the address of {:?}", step, text, other)));
                }
                model.insert(key.clone(), addr);
                addrs.insert(addr, text.clone());
                let c = chain.entry(h & 0xfff).or_insert(0);
                *c += 1;
                max_chain = max_chain.max(*c);
                if model.len() + 1 > (cap as f64 * 0.75) as usize {
                    cap *= 2;
                    growths += 1;
                }
            }
        }
        // the entry reads back with the right contents and cached hash
        match store.read(h, &text) {
            Some((t, hh)) if t == text && hh == h => {}
            other => return Err(("intern-entry-corrupt".into(), format!("step {}: entry for {:?} reads back as {:?}", step, text, other))),
        }
    }
    // after everything (and every growth): each key is still found at its address, and only there
    for ((h, text), addr) in &model {
        if store.get(*h, text) != Some(*addr) {
            return Err(("intern-entry-lost".into(), format!("{:?} (hash {:#x}) interned at {:#x} is now {:?}", text, h, addr, store.get(*h, text))));
        }
    }
    drop(store);
    let _ = s.finish();
    Ok((model.len(), growths, max_chain))
}

/// API level: Vm::new_gc_obj_string — pointer identity <=> byte equality, across growth
fn run_api(bytes: &[u8]) -> Result<(usize, usize), (String, String)> {
    let mut rd = Rd::new(bytes, 1000);
    let mut s = Session::new(RunCfg::default());
    let n = 200 + rd.below(3000);
    let stride = 1 + rd.below(50);
    // (drawn here: the loop below uses up the case's bytes)
    let with_reset = rd.chance(1, 2);
    let held_count = 1 + rd.below(40);
    let churn_after = 50 + rd.below(500);
    let mut seen: HashMap<String, usize> = HashMap::new();
    let mut by_addr: HashMap<usize, String> = HashMap::new();
    let vm = s.vm().ok_or(("vm".to_string(), String::new()))?;
    let mut repeats = 0;
    for i in 0..n {
        // revisit earlier texts often, built differently (a fresh String each time)
        let idx = if rd.chance(1, 3) && i > 0 { (i * 7919) % i } else { i * stride };
        let text = if rd.chance(1, 8) { colliding_text(idx) } else { text_of(idx) };
        let g = vm.new_gc_obj_string(&text);
        let addr = &*g as *const _ as *const () as usize;
        if g.as_str() != text {
            return Err(("api-wrong-contents".into(), format!("asked for {:?}, got {:?}", text, g.as_str())));
        }
        match seen.get(&text) {
            Some(prev) => {
                repeats += 1;
                if *prev != addr {
                    return Err(("api-equal-contents-two-objects".into(), format!("{:?} was at {:#x}, now a second object at {:#x}", text, prev, addr)));
                }
            }
            None => {
                if let Some(other) = by_addr.get(&addr) {
                    return Err(("api-different-contents-one-object".into(), format!("{:?} and {:?} share one object", text, other)));
                }
                seen.insert(text.clone(), addr);
                by_addr.insert(addr, text);
            }
        }
    }
    // strings the host still holds when it resets the interpreter: a text built afterwards with the
    // same bytes must be the very object the host holds (otherwise the two would compare unequal in a
    // program that is handed both). Only held strings are checked; what the interpreter does with
    // strings nobody holds is its own business.
    if with_reset {
        let k = held_count;
        let mut held: Vec<(String, yarel::memory::Root<yarel::object::ObjString>)> = Vec::new();
        for j in 0..k {
            let text = if j % 2 == 0 { text_of(j * stride) } else { format!("held-{}-é", j) };
            let g = vm.new_gc_obj_string(&text);
            held.push((text, g.as_root()));
        }
        vm.reset();
        // some churn, so that freed memory (if any) is reused
        for j in 0..churn_after {
            let _ = vm.new_gc_obj_string(&format!("after-reset-{}", j));
        }
        for (text, root) in &held {
            let again = vm.new_gc_obj_string(text);
            let a = &**root as *const _ as *const () as usize;
            let b = &*again as *const _ as *const () as usize;
            if root.as_str() != text.as_str() {
                return Err(("api-held-string-changed".into(), format!("a string the host holds across reset() read {:?} before and {:?} after", text, root.as_str())));
            }
            if a != b {
                return Err((
                    "api-equal-contents-two-objects".into(),
                    format!("{:?}: the host holds this string across reset(); the same bytes built afterwards are a second object ({:#x} vs {:#x})", text, a, b),
                ));
            }
        }
        drop(held);
    }
    let _ = s.finish();
    Ok((seen.len(), repeats))
}

/// texts whose real hashes agree in the low 12 bits (found by search, cached)
fn colliding_text(i: usize) -> String {
    use std::sync::OnceLock;
    static C: OnceLock<Vec<String>> = OnceLock::new();
    let v = C.get_or_init(|| {
        let mut buckets: HashMap<u64, Vec<String>> = HashMap::new();
        let mut best: Vec<String> = Vec::new();
        for k in 0..200_000usize {
            let t = format!("c{}", k);
            let b = buckets.entry(fnv_str(&t) & 0xfff).or_default();
            b.push(t);
            if b.len() > best.len() {
                best = b.clone();
            }
        }
        best
    });
    v[i % v.len()].clone()
}

const ROUTE_NAMES: &[&str] = &[
    "literal", "escape", "concat", "interpolation", "interp_two", "slice", "split", "replace", "from", "from_utf8", "from_code_points",
    "from_ascii", "iteration", "slice_concat", "slice_of_longer", "split_piece",
];

/// the text of an expression that builds `t` (lower-case ASCII letters, no '#', ',') by route `r`;
/// `k` shifts split points and the byte offset at which slices start inside their source string
fn route_expr(r: &str, t: &str, k: usize) -> String {
    let n = t.len();
    let h = 1 + k % (n - 1).max(1);
    let h = h.min(n - 1).max(1);
    let pad: String = "qwertyu".chars().take(k % 8).collect();
    let bytes_list = t.bytes().map(|b| b.to_string()).collect::<Vec<_>>().join(", ");
    match r {
        "literal" => format!("\"{}\"", t),
        "escape" => format!("\"\\x{:02x}{}\"", t.as_bytes()[0], &t[1..]),
        "concat" => format!("\"{}\" + \"{}\"", &t[..h], &t[h..]),
        "interpolation" => format!("\"${{\"{}\"}}{}\"", &t[..h], &t[h..]),
        "interp_two" => format!("\"{}${{\"{}\"}}${{\"{}\"}}\"", &t[..1], &t[1..h.max(1)], &t[h.max(1)..]),
        "slice" => format!("\"{}{}x\"[{}..{}]", pad, t, pad.len(), pad.len() + n),
        "split" => format!("\"{},z\".split(\",\")[0]", t),
        "replace" => format!("\"#{}\".replace(\"#\", \"{}\")", &t[1..], &t[..1]),
        "from" => format!("String.from(\"{}\")", t),
        "from_utf8" => format!("String.from_utf8([{}])", bytes_list),
        "from_code_points" => format!("String.from_code_points([{}])", bytes_list),
        "from_ascii" => format!("String.from_ascii([{}])", bytes_list),
        "iteration" => format!("join(\"{}\")", t),
        "slice_concat" => format!("\"{}\"[0..{}] + \"{}\"[{}..{}]", t, h, t, h, n),
        // a slice that starts at byte offset k inside a longer string, and a split piece that does
        "slice_of_longer" => format!("(\"{}\" + \"{}\" + \"tail\")[{}..{}]", pad, t, pad.len(), pad.len() + n),
        _ => format!("\"{},{},z\".split(\",\")[1]", pad, t),
    }
}

fn near_miss(t: &str, which: usize) -> String {
    let n = t.len();
    match which % 6 {
        0 => format!("\"{}d\"", &t[..n - 1].replace('d', "e")),
        1 => format!("\"{}\"", &t[..n - 1]),
        2 => format!("\"{}{}\"", t, &t[n - 1..]),
        3 => format!("\"{}{}\"", t[..1].to_uppercase(), &t[1..]),
        4 => format!("\"{} \"", t),
        _ if n > 200 => format!("\"{}\" + \"{}\"", &t[..n / 2], &t[n / 2 + 1..]),
        _ => format!("String.from_utf8([{}])", t.bytes().enumerate().map(|(i, b)| if i == n / 2 { (b ^ 1).to_string() } else { b.to_string() }).collect::<Vec<_>>().join(", ")),
    }
}

/// language level: equal contents built by different routes, with string churn, used as map keys and
/// as names across separately compiled snippets
fn run_language(bytes: &[u8]) -> Result<usize, (String, String)> {
    let mut rd = Rd::new(bytes, 1000);
    let mut s = Session::new(RunCfg { fuel: Some(30_000_000), modules: vec![("modx".into(), "var abc = \"module attr\";\nfn abcf() { return abc; }\n".into())], ..RunCfg::default() });
    let churn = 50 + rd.below(3000);
    // contents: short, or long enough for any word-at-a-time path of the hash function (>= 32 bytes),
    // at lengths around multiples of 8
    let len = *rd.pick(&[3usize, 3, 8, 15, 31, 32, 33, 39, 40, 47, 64, 100, 255, 256, 1023, 1024, 1025, 1030, 2000, 4100]);
    let salt = rd.below(26);
    let t: String = (0..len).map(|i| (b'a' + ((i * 7 + salt + i / 26) % 26) as u8) as char).collect();
    // (a literal vector has at most 255 elements: the byte-list routes are for short contents)
    let routes: Vec<&str> = ROUTE_NAMES.iter().copied().filter(|r| len <= 200 || !matches!(*r, "from_utf8" | "from_code_points" | "from_ascii")).collect();
    let n1 = routes[rd.below(routes.len())];
    let n2 = routes[rd.below(routes.len())];
    let mut r1 = (n1, route_expr(n1, &t, rd.below(8)));
    let mut r2 = (n2, route_expr(n2, &t, rd.below(8)));
    let mut t = t;
    if rd.chance(1, 4) {
        // contents that are the text of a number, a boolean or nil, produced by converting the value
        // (String.from, an interpolation that consists of that one expression, nested interpolations,
        // arithmetic first) or written out
        const VALUES: &[(&str, &str)] = &[("42", "42"), ("7", "7"), ("0", "0"), ("255", "255"), ("0.5", "0.5"), ("1000000", "1000000"), ("true", "true"), ("false", "false"), ("nil", "nil"), ("(40 + 2)", "42"), ("(1 / 2)", "0.5"), ("-3", "-3")];
        let (expr, text) = VALUES[rd.below(VALUES.len())];
        let vroute = |rd: &mut Rd| -> (&'static str, String) {
            match rd.below(9) {
                0 => ("value_literal", format!("\"{}\"", text)),
                1 => ("value_from", format!("String.from({})", expr)),
                2 | 3 => ("value_interp_single", format!("\"${{{}}}\"", expr)),
                4 => ("value_interp_nested", format!("\"${{\"${{{}}}\"}}\"", expr)),
                5 if text.len() > 1 => ("value_concat", format!("\"{}\" + \"{}\"", &text[..1], &text[1..])),
                6 => ("value_interp_string", format!("\"${{\"{}\"}}\"", text)),
                7 => ("value_interp_fn", format!("(|v| \"${{v}}\")({})", expr)),
                _ => ("value_slice", format!("\"<{}>\"[1..{}]", text, 1 + text.len())),
            }
        };
        r1 = vroute(&mut rd);
        r2 = vroute(&mut rd);
        t = text.to_string();
    }
    let mut miss = near_miss(&t, rd.below(6));
    if miss == format!("\"{}\"", t) {
        miss = format!("\"{}~\"", t);
    }
    let prelude = "fn join(s) { var r = \"\"; for c in s { r = r + c; } return r; }\nfn churn(n) { var keep = []; for i in 0..n { keep.push(\"s\" + String.from(i)); } return keep.len(); }\n";
    let snippets: Vec<(String, Vec<String>)> = vec![
        (prelude.to_string(), vec![]),
        // names defined before the churn
        ("var abc = \"global value\";\n#[constructor(new)] class K { fn abc(self) { return \"method value\"; } }\nvar o = K.new();\no.abd = \"field abd\";\nimport \"modx\";\n".to_string(), vec![]),
        (format!("var a = {};\nprint(churn({}));\nvar b = {};\nvar z = {};\n", r1.1, churn, r2.1, miss), vec![churn.to_string()]),
        (
            "print(a == b);\nprint(a != b);\nprint(a == z);\nprint(a.len() == b.len());\nvar m = {};\nm.insert(a, 1);\nprint(m.get(b));\nprint(m.has_key(z));\nm.insert(b, 2);\nprint(m.len());\nm.insert(z, 3);\nprint(m.len());\nprint((a, 1) == (b, 1));\nprint({(a,): 1}.get((b,)));\n".to_string(),
            vec!["true", "false", "false", "true", "1", "false", "1", "2", "true", "1"].into_iter().map(String::from).collect(),
        ),
        // names across separately compiled snippets, after the table has grown
        (
            "print(abc);\nprint(o.abc());\nprint(o.abd);\nprint(modx.abc);\nprint(modx.abcf());\no.abc = \"field shadows\";\nprint(o.abc);\nabc = \"reassigned\";\nprint(abc);\n".to_string(),
            vec!["global value", "method value", "field abd", "module attr", "module attr", "field shadows", "reassigned"].into_iter().map(String::from).collect(),
        ),
    ];
    // messages of built-in errors are strings like any other: two of them with the same bytes are equal
    // and select the same map entry (the texts themselves are not pinned, only the relation to bytes)
    let mut snippets = snippets;
    {
        const FAILS: &[&str] = &["[][3];", "nil + 1;", "\"abc\".find(1);", "undefined_name_zq;", "(1).nope;", "[1].push();", "\"é\"[1];", "(0..3)[9];", "Fiber.yield(1);"];
        let f1 = FAILS[rd.below(FAILS.len())];
        let f2 = if rd.chance(2, 3) { f1 } else { FAILS[rd.below(FAILS.len())] };
        let src = format!(
            "var ea = nil;\nvar eb = nil;\ntry {{ {} }} catch e {{ ea = e.context; }}\nprint(churn({}));\ntry {{ {} }} catch e {{ eb = e.context; }}\nprint((ea == eb) == (ea.to_bytes() == eb.to_bytes()));\nprint({{ea: 1}}.has_key(eb) == (ea == eb));\nprint(ea == String.from_utf8(ea.to_bytes()));\nprint({{(ea, 1): 1}}.has_key((String.from_utf8(eb.to_bytes()), 1)) == (ea == eb));\nprint((ea + \"\") == ea);\n",
            f1, 10 + churn % 200, f2
        );
        snippets.push((src, vec![(10 + churn % 200).to_string(), "true".into(), "true".into(), "true".into(), "true".into(), "true".into()]));
    }
    let mut all = String::new();
    for (src, expect) in &snippets {
        all.push_str(src);
        let (out, end) = s.feed(src);
        match &end {
            End::Ok(_) => {}
            End::Panic(p) => return Err((format!("panic:{}", crate::props::c03::sig_of_panic(p)), format!("{}\n{}", p, all))),
            End::Err(k, m) => return Err(("language-level-error".into(), format!("{:?} {:?}\n{}", k, m, all))),
        }
        if &out != expect {
            return Err((
                "equal-strings-not-equal".into(),
                format!("routes {} and {} (near miss {}): expected {:?}, printed {:?}\n{}", r1.0, r2.0, miss, expect, out, all),
            ));
        }
    }
    let _ = s.finish();
    let _ = yrun::kind_name;
    Ok(churn)
}

/// The texts of numbers, converted in an order the case chooses (with repeats): each conversion gives
/// the text of *that* number whatever was converted before - `0` after `-0`, 256 after 0, 1 after
/// NaN - by String.from, by an interpolation consisting of the number and by one with text around it;
/// the texts select map entries and compare with literals by their bytes.
fn number_texts_case(bytes: &[u8]) -> (String, Vec<String>) {
    const NUMS: &[(&str, f64)] = &[
        ("0", 0.0), ("(0 * -1)", -0.0), ("1", 1.0), ("-1", -1.0), ("2", 2.0), ("10", 10.0), ("255", 255.0), ("256", 256.0), ("257", 257.0),
        ("0.5", 0.5), ("-0.5", -0.5), ("100", 100.0), ("1000000", 1000000.0), ("(0 / 0)", f64::NAN), ("(1 / 0)", f64::INFINITY), ("(-1 / 0)", f64::NEG_INFINITY),
        ("512", 512.0), ("65536", 65536.0), ("(3 - 3)", 0.0), ("(-0.25 * 0)", -0.0), ("1.5", 1.5), ("4294967296", 4294967296.0),
    ];
    let mut rd = Rd::new(bytes, 200);
    let n = 4 + rd.below(20);
    let mut src = String::from("var table = {\"0\": \"zero\", \"-0\": \"negative zero\", \"1\": \"one\", \"256\": \"two five six\"};\n");
    let mut want = Vec::new();
    for k in 0..n {
        // zeros of both signs meet often
        let i = if rd.chance(1, 3) { [0usize, 1, 18, 19][rd.below(4)] } else { rd.below(NUMS.len()) };
        let (e, v) = NUMS[i];
        let d = crate::rv::num_display(v);
        match rd.below(4) {
            0 => {
                src.push_str(&format!("var s{k} = String.from({e});\nprint(s{k});\nprint(s{k} == \"{d}\");\nprint(table.get(s{k}));\n", k = k, e = e, d = d));
                want.push(d.clone());
                want.push("true".to_string());
                want.push(match d.as_str() { "0" => "zero", "-0" => "negative zero", "1" => "one", "256" => "two five six", _ => "nil" }.to_string());
            }
            1 => {
                src.push_str(&format!("print(\"${{{}}}\");\n", e));
                want.push(d.clone());
            }
            2 => {
                src.push_str(&format!("print(\"<${{{}}}|${{{}}}>\");\n", e, e));
                want.push(format!("<{}|{}>", d, d));
            }
            _ => {
                src.push_str(&format!("print(String.from({}).len());\n", e));
                want.push(d.len().to_string());
            }
        }
    }
    (src, want)
}

fn run_number_texts(bytes: &[u8]) -> Result<usize, (String, String)> {
    let (src, want) = number_texts_case(bytes);
    let o = crate::yrun::run_source(&src, &RunCfg::default());
    if let End::Panic(p) = &o.end {
        return Err((format!("panic:{}", crate::props::c03::sig_of_panic(p)), format!("yarel panicked: {}\n{}", p, src)));
    }
    if !matches!(o.end, End::Ok(_)) || o.out != want {
        let at = o.out.iter().zip(want.iter()).position(|(a, b)| a != b).unwrap_or(o.out.len().min(want.len()));
        return Err((
            "number-text-depends-on-history".into(),
            format!("line {} of the output is {:?}, the number's text is {:?} (end {:?})\n{}", at + 1, o.out.get(at), want.get(at), o.end, src),
        ));
    }
    Ok(want.len())
}

fn table_ops(family: &str, bytes: &[u8]) -> (Vec<(usize, bool)>, HashFn) {
    match family {
        "table_exhaustive" => {
            // index -> (hash function, sequence of up to 6 operations over 4 texts; op = text*2 + lookup)
            let mut b = [0u8; 8];
            let n = bytes.len().min(8);
            b[..n].copy_from_slice(&bytes[..n]);
            let mut i = u64::from_le_bytes(b);
            let f = [HashFn::Constant, HashFn::LowBits(3), HashFn::Real][(i % 3) as usize];
            i /= 3;
            let mut ops = Vec::new();
            let len = 1 + (i % 6) as usize;
            i /= 6;
            for _ in 0..len {
                let o = (i % 8) as usize;
                i /= 8;
                ops.push((o / 2, o % 2 == 1 && !ops.is_empty()));
            }
            (ops, f)
        }
        _ => {
            let mut rd = Rd::new(bytes, 1000);
            let f = match rd.below(10) {
                9 => HashFn::LowZero([8u32, 16, 32, 33, 48][rd.below(5)]),
                0 => HashFn::Constant,
                1 => HashFn::LowBits(2 + rd.below(12) as u32),
                2 => HashFn::RealHighOnly,
                3 => HashFn::LowBits(1),
                4 | 5 => HashFn::NearEnd(6 + rd.below(7) as u32, 2 + rd.below(90) as u64),
                6 => HashFn::TwoClusters(6 + rd.below(7) as u32, 3 + rd.below(120) as u64),
                _ => HashFn::Real,
            };
            // lengths up to 3x a growth point (4, 8, ... 4096 slots)
            let growth = 1usize << (2 + rd.below(11));
            let n = growth / 2 + rd.below(growth * 3);
            let n = if matches!(f, HashFn::Constant) { n.min(600) } else { n };
            let universe = (n / 2).max(3);
            let mut ops = Vec::with_capacity(n);
            for k in 0..n {
                let t = match rd.below(4) {
                    0 => k % universe,
                    1 => (k * 31) % universe,
                    _ => rd.below(universe),
                };
                ops.push((t, rd.chance(1, 4)));
            }
            (ops, f)
        }
    }
}

impl Property for C11 {
    fn id(&self) -> &'static str {
        "C11"
    }

    fn families(&self, tier: Tier) -> Vec<Family> {
        let q = tier == Tier::Quick;
        vec![
            Family { name: "table_exhaustive", kind: FamilyKind::Enumerated { count: if q { 3 * 6 * 8u64.pow(4) } else { 3 * 6 * 8u64.pow(6) }, exhaustive: !q } },
            Family { name: "table_random", kind: FamilyKind::Random { cases: if q { 2_500 } else { 60_000 }, max_len: 64 } },
            Family { name: "api", kind: FamilyKind::Random { cases: if q { 400 } else { 8_000 }, max_len: 64 } },
            Family { name: "language", kind: FamilyKind::Random { cases: if q { 1_500 } else { 30_000 }, max_len: 16 } },
            Family { name: "number_texts", kind: FamilyKind::Random { cases: if q { 3_000 } else { 60_000 }, max_len: 40 } },
        ]
    }

    fn rule(&self) -> String {
        "cases: (table_exhaustive) every history of up to 6 intern/lookup operations over 4 texts under 3 hash functions (all texts one hash; shared low bits; the real hash) — thorough enumerates all of them, quick those whose last two operations are the simplest; (table_random) histories of up to 3x each growth point (4..4096 slots) on the interpreter's own intern-table type driven through a hook with harness-chosen hash functions: identical full hashes, identical low k bits (long probe chains, wrap-around), low bits that place every text within 2-91 slots of the end of the table or in two clusters there (dense runs wrapping around the end, re-inserted by the next growth), real hashes with the low 12 bits cleared, hashes whose low 8-48 bits are all zero, real hashes; (api) 200-3200 calls of Vm::new_gc_obj_string over multi-byte texts, revisits, and texts found by search to collide in the low 12 bits of the real hash; (language) the same contents (3-4100 bytes, lengths around multiples of 8, beyond 32, and around 256, 1024 and 4096) built by two of 16 routes (literal, escapes, +, interpolation, slices and split pieces that start at every byte offset 0-7 inside their source string, replace, String.from, from_utf8, from_code_points, from_ascii, iteration; a quarter of the cases use the text of a number, boolean or nil produced by String.from, by an interpolation consisting of that one expression, nested or inside a lambda, by concatenation, slicing or written out) with 50-3000 strings of churn in between and a one-byte near miss, compared with ==, used as map keys alone and inside tuples, names (global, method, field, module attribute) resolved across separately compiled snippets on one interpreter, and the messages of two caught built-in errors (equal exactly when their bytes are, as values and as map keys); (api) additionally holds 1-40 strings as roots across Vm::reset() and requires the same bytes built afterwards to be the very objects held. (number_texts) 4-23 conversions of numbers to text in an order the case chooses, with repeats - zeros of both signs written several ways, 1, -1, 255, 256, 257, 512, 65536, 2^32, fractions, NaN, infinities - by String.from (compared with the literal, used as a map key, measured) and by interpolations with and without text around the number; each must give that number's text whatever was converted before. Oracle: intern-set model keyed by (hash, bytes): same key <=> same entry, new key <=> new distinct entry, every entry still found after every growth; pointer identity <=> byte equality at the API; outputs known by construction at language level. Non-trivial: the history crosses a growth with a collision chain of >=3 entries, or any api/language case; distinct by the case bytes.".into()
    }

    fn render(&self, family: &str, bytes: &[u8]) -> String {
        match family {
            "table_exhaustive" | "table_random" => {
                let (ops, f) = table_ops(family, bytes);
                format!("{:?}, {} operations: {:?}…", f, ops.len(), &ops[..ops.len().min(16)])
            }
            "number_texts" => number_texts_case(bytes).0,
            _ => format!("{} case {}", family, hex(&bytes[..bytes.len().min(16)])),
        }
    }

    fn run(&self, ctx: &mut CaseCtx) -> Verdict {
        let family = ctx.family.to_string();
        let bytes = ctx.bytes.to_vec();
        match family.as_str() {
            "table_exhaustive" | "table_random" => {
                #[cfg(feature = "hooks")]
                {
                    let (ops, f) = table_ops(&family, &bytes);
                    match run_table(&ops, f) {
                        Ok((entries, growths, chain)) => {
                            ctx.label_n("table_ops", ops.len() as u64);
                            ctx.label_n("growths", growths as u64);
                            if chain >= 3 {
                                ctx.label("chain>=3");
                            }
                            let _ = entries;
                            Verdict::Pass { nontrivial: growths >= 1 && chain >= 3, hash: fnv64(&bytes) }
                        }
                        Err((sig, detail)) => Verdict::Fail { sig, detail: format!("{}\nhash function {:?}, operations {:?}", detail, f, &ops[..ops.len().min(40)]) },
                    }
                }
                #[cfg(not(feature = "hooks"))]
                Verdict::Discard("built without hooks")
            }
            "api" => match run_api(&bytes) {
                Ok((distinct, repeats)) => {
                    ctx.label_n("api_strings", distinct as u64);
                    ctx.label_n("api_repeats", repeats as u64);
                    Verdict::Pass { nontrivial: true, hash: fnv64(&bytes) }
                }
                Err((sig, detail)) => Verdict::Fail { sig, detail },
            },
            "number_texts" => match run_number_texts(&bytes) {
                Ok(n) => {
                    ctx.label_n("number_texts", n as u64);
                    Verdict::Pass { nontrivial: true, hash: fnv64(&bytes) }
                }
                Err((sig, detail)) => Verdict::Fail { sig, detail },
            },
            _ => match run_language(&bytes) {
                Ok(churn) => {
                    ctx.label_n("language_churn", churn as u64);
                    Verdict::Pass { nontrivial: true, hash: fnv64(&bytes) }
                }
                Err((sig, detail)) => Verdict::Fail { sig, detail },
            },
        }
    }

    fn floors(&self, _tier: Tier) -> Vec<(&'static str, u64)> {
        vec![("table_ops", 500_000), ("growths", 5_000), ("chain>=3", 1_000), ("api_strings", 100_000), ("language_churn", 100_000), ("number_texts", 20_000)]
    }
}
