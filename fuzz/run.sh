#!/bin/bash
# fuzz/run.sh <target> <workers> <runs-per-worker> <seed> <max_len> <property-id> <family>[,<family>...]
# Coverage-guided stage: builds the libFuzzer target against /repo's current tree, runs <workers>
# independent campaigns (seeds seed*64+i+1, fixed -runs, own corpus directory seeded with the
# repository's scripts plus the empty input), and converts any crash artifact into a replay file
# for `./check <ID> --replay`. Prints one JSON line "FUZZSTATS {...}" and exits 0 (nothing found),
# 1 (crash or oracle violation, with a VIOLATION line) or 2 (could not build / run).
set -u
TARGET="$1"; WORKERS="$2"; RUNS="$3"; SEED="$4"; MAXLEN="$5"; PID_="$6"; FAMILY="$7"
ROOT="$(cd "$(dirname "$0")/.." && pwd)"
export CARGO_NET_OFFLINE=true
export CARGO_TARGET_DIR="$ROOT/target/fuzz"
cp /repo/Cargo.lock "$ROOT/fuzz/Cargo.lock" 2>/dev/null
mkdir -p "$ROOT/target"
if ! cargo +nightly fuzz build --fuzz-dir "$ROOT/fuzz" "$TARGET" >"$ROOT/target/build-fuzz-$TARGET.log" 2>&1; then
  echo "INCONCLUSIVE: building the libFuzzer target $TARGET failed; see target/build-fuzz-$TARGET.log"; tail -5 "$ROOT/target/build-fuzz-$TARGET.log"; exit 2
fi
BIN="$CARGO_TARGET_DIR/x86_64-unknown-linux-gnu/release/$TARGET"
[ -x "$BIN" ] || { echo "INCONCLUSIVE: $BIN missing"; exit 2; }
W="$ROOT/work/fuzz-$TARGET-$$"
rm -rf "$W"; mkdir -p "$W/seedcorpus" "$W/artifacts"
# starting corpus: the repository's scripts (small valid and invalid programs) and the empty input
i=0
if [ "$TARGET" = "compile" ]; then
  for f in $(find /repo/yarel/tests/scripts -name '*.yl' | sort); do
    if [ "$(stat -c %s "$f")" -le "$MAXLEN" ]; then cp "$f" "$W/seedcorpus/s$i.yl"; i=$((i+1)); fi
  done
else
  # structured targets decode bytes through the generators: start from pseudo-random strings of
  # full length (a pure function of the seed) so that whole programs exist from the first run on
  python3 - "$W/seedcorpus" "$SEED" "$MAXLEN" <<'PY'
import sys,hashlib
d,seed,maxlen=sys.argv[1],int(sys.argv[2]),int(sys.argv[3])
for k in range(256):
    n=64+(k*37)%max(1,maxlen-64)
    out=b''; c=0
    while len(out)<n:
        out+=hashlib.sha256(b'%d/%d/%d'%(seed,k,c)).digest(); c+=1
    open('%s/r%03d'%(d,k),'wb').write(out[:n])
PY
  i=256
fi
: > "$W/seedcorpus/empty"
start=$(date +%s)
pids=()
# a comma-separated family list spreads the workers over the families (worker k gets family k mod n);
# the `prop` target reads the property and the family of its campaign from the environment
IFS=',' read -r -a FAMILIES <<< "$FAMILY"
for k in $(seq 0 $((WORKERS-1))); do
  mkdir -p "$W/corpus$k"
  ( cd "$W" && VERIF_FUZZ_PROP="$PID_" VERIF_FUZZ_FAMILY="${FAMILIES[$((k % ${#FAMILIES[@]}))]}" "$BIN" "corpus$k" seedcorpus -runs="$RUNS" -seed=$((SEED*64+k+1)) -max_len="$MAXLEN" -len_control=0 \
      -timeout=$([ "$TARGET" = "compile" ] && echo 60 || echo 300) -rss_limit_mb=4096 -malloc_limit_mb=2048 -print_final_stats=1 -artifact_prefix="artifacts/w$k-" \
      >"log$k.txt" 2>&1 ) &
  pids+=($!)
done
fail=0
for p in "${pids[@]}"; do wait "$p" || fail=1; done
end=$(date +%s)
execs=0; cov=0; corp=0
for k in $(seq 0 $((WORKERS-1))); do
  e=$(grep -a 'stat::number_of_executed_units' "$W/log$k.txt" | tail -1 | awk '{print $2}'); execs=$((execs+${e:-0}))
  c=$(grep -a -o 'cov: [0-9]*' "$W/log$k.txt" | tail -1 | awk '{print $2}'); [ "${c:-0}" -gt "$cov" ] && cov=$c
  n=$(ls "$W/corpus$k" | wc -l); corp=$((corp+n))
done
echo "FUZZSTATS {\"target\":\"$TARGET\",\"workers\":$WORKERS,\"runs_per_worker\":$RUNS,\"executions\":$execs,\"max_edge_coverage\":$cov,\"new_corpus_entries\":$corp,\"seed_inputs\":$((i+1)),\"max_len\":$MAXLEN,\"families\":\"$FAMILY\",\"seed\":$SEED,\"wall_s\":$((end-start))}"
rc=0
skipped=0
arts=$(ls "$W/artifacts" 2>/dev/null)
if [ -n "$arts" ]; then
  mkdir -p "$ROOT/replays/new"
  for a in $arts; do
    kind=${a#w*-}; kind=${kind%%-*}
    out="$ROOT/replays/new/$PID_-libfuzzer-$a.json"
    wk=$(echo "$a" | sed 's/^w\([0-9]*\)-.*/\1/')
    python3 - "$W/artifacts/$a" "$out" "$PID_" "${FAMILIES[$((wk % ${#FAMILIES[@]}))]}" <<'PY'
import sys,json
b=open(sys.argv[1],'rb').read()
json.dump({"property":sys.argv[3],"family":sys.argv[4],"bytes_hex":b.hex(),"note":"libFuzzer artifact "+sys.argv[1].split('/')[-1]},open(sys.argv[2],'w'),indent=1)
PY
    case "$kind" in
      slow) rm -f "$out"; skipped=$((skipped+1)) ;;   # slow-unit: a report, not a failure
      oom) rm -f "$out"; skipped=$((skipped+1)); echo "note: libFuzzer worker stopped on its memory limit (resource limit, not a verdict)" ;;
      timeout)
        if [ "$TARGET" = "compile" ]; then
          # termination is part of C03: a compilation that does not finish in 60 s is a violation
          echo "VIOLATION property=$PID_ replay=$out"; echo "  compile-does-not-terminate (libFuzzer -timeout=60)"; rc=1
        else
          rm -f "$out"; skipped=$((skipped+1)); echo "note: a libFuzzer worker stopped on a case slower than its time limit (resource limit, not a verdict)"
        fi ;;
      *)   k=$(echo "$a" | sed 's/^w\([0-9]*\)-.*/\1/'); grep -a -m3 -E "panicked at|ERROR: AddressSanitizer|ERROR: libFuzzer|C[0-9][0-9] oracle" "$W/log$k.txt" | cut -c1-300
           echo "VIOLATION property=$PID_ replay=$out"; rc=1 ;;
    esac
  done
elif [ $fail = 1 ]; then
  echo "INCONCLUSIVE: a libFuzzer worker exited abnormally without an artifact; logs in $W"; tail -3 "$W"/log*.txt | cut -c1-200 | tail -20; exit 2
fi
[ $skipped -gt 0 ] && echo "note: $skipped resource-limit artifacts (slow unit, time or memory limit) were set aside"
[ $rc = 0 ] && rm -rf "$W"
exit $rc
