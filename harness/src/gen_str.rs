//! C13 generators: exhaustive small-scope sweeps of indexing, slicing and string functions over
//! strings mixing 1-, 2-, 3- and 4-byte characters, plus random longer cases.

use crate::ast::*;
use crate::rd::Rd;

pub const ALPHABET: [&str; 4] = ["a", "é", "€", "😀"];

/// the `i`-th string over the alphabet in length-then-lexicographic order
pub fn nth_string(mut i: u64) -> String {
    let mut len = 0u32;
    let mut block = 1u64;
    while i >= block {
        i -= block;
        len += 1;
        block *= 4;
    }
    let mut s = String::new();
    let mut digits = Vec::new();
    for _ in 0..len {
        digits.push((i % 4) as usize);
        i /= 4;
    }
    for d in digits.iter().rev() {
        s.push_str(ALPHABET[*d]);
    }
    s
}

/// code points at the edges of the UTF-8 encoding lengths and of the surrogate gap
pub const BOUNDARY: [char; 12] = [
    '\u{7f}', '\u{80}', '\u{7ff}', '\u{800}', '\u{e01}', '\u{fff}', '\u{1000}', '\u{d7ff}', '\u{e000}', '\u{ffff}', '\u{10000}',
    '\u{10ffff}',
];

/// the `i`-th string over the boundary code points in length-then-lexicographic order
pub fn nth_boundary_string(mut i: u64) -> String {
    let k = BOUNDARY.len() as u64;
    let mut len = 0u32;
    let mut block = 1u64;
    while i >= block {
        i -= block;
        len += 1;
        block *= k;
    }
    let mut digits = Vec::new();
    for _ in 0..len {
        digits.push((i % k) as usize);
        i /= k;
    }
    digits.iter().rev().map(|d| BOUNDARY[*d]).collect()
}

pub fn boundary_count_upto(chars: u32) -> u64 {
    (0..=chars).map(|k| (BOUNDARY.len() as u64).pow(k)).sum()
}

pub fn count_upto(chars: u32) -> u64 {
    (0..=chars).map(|k| 4u64.pow(k)).sum()
}

fn n(x: f64) -> Expr {
    Expr::num(x)
}

fn specials() -> Vec<Expr> {
    vec![
        n(0.5),
        n(-0.5),
        Expr::bin(BinOp::Div, n(0.0), n(0.0)),
        Expr::bin(BinOp::Div, n(1.0), n(0.0)),
        Expr::bin(BinOp::Div, n(-1.0), n(0.0)),
        n(9223372036854775808.0),
        n(-9223372036854775808.0),
        n(9007199254740992.0),
        n(1e300),
    ]
}

struct B {
    out: Vec<Stmt>,
    counter: usize,
}

impl B {
    fn op(&mut self, e: Expr) {
        self.counter += 1;
        let ev = format!("e{}", self.counter);
        self.out.push(Stmt::new(StmtKind::Try(
            vec![Stmt::print(e)],
            Some((ev.clone(), vec![Stmt::print(Expr::callv("type", vec![Expr::var(&ev)]))])),
            None,
        )));
    }
}

fn needles() -> Vec<String> {
    (0..count_upto(2)).map(nth_string).collect()
}

/// every operation on one subject string
pub fn string_sweep(subject: &str, full: bool) -> Program {
    let mut b = B { out: Vec::new(), counter: 0 };
    b.out.push(Stmt::var("s", Some(Expr::str(subject))));
    let s = || Expr::var("s");
    let len = subject.len() as i64;
    let cc = subject.chars().count() as i64;
    // indexing
    for k in (-len - 2)..=(len + 2) {
        b.op(Expr::index(s(), n(k as f64)));
    }
    for sp in specials() {
        b.op(Expr::index(s(), sp));
    }
    // slicing: all pairs for short strings, a stride for long ones
    let lo = -len - 1;
    let hi = len + 1;
    let span = hi - lo + 1;
    let stride = if full || span * span <= 400 { 1 } else { (span * span / 400).max(1) };
    let mut c = 0;
    for a in lo..=hi {
        for e in lo..=hi {
            c += 1;
            if c % stride == 0 {
                b.op(Expr::index(s(), Expr::range(n(a as f64), n(e as f64))));
            }
        }
    }
    b.op(Expr::index(s(), Expr::range(n(0.5), n(1.0))));
    b.op(Expr::index(s(), Expr::range(n(0.0), Expr::bin(BinOp::Div, n(1.0), n(0.0)))));
    b.op(Expr::index(s(), Expr::range(Expr::bin(BinOp::Div, n(-1.0), n(0.0)), n(1.0))));
    b.op(Expr::index(s(), Expr::Nil));
    b.op(Expr::index(s(), Expr::str("a")));
    // simple queries
    for m in ["len", "count_chars", "is_alpha", "is_digit", "is_hexdigit", "to_bytes", "to_code_points"] {
        b.op(Expr::invoke(s(), m, vec![]));
    }
    b.op(Expr::invoke(s(), "len", vec![n(1.0)]));
    // iteration
    b.out.push(Stmt::new(StmtKind::For("c".into(), s(), vec![Stmt::print(Expr::var("c"))])));
    // char_byte_index
    for k in (-cc - 1)..=(cc + 1) {
        b.op(Expr::invoke(s(), "char_byte_index", vec![n(k as f64)]));
    }
    for sp in specials().into_iter().take(3) {
        b.op(Expr::invoke(s(), "char_byte_index", vec![sp]));
    }
    b.op(Expr::invoke(s(), "char_byte_index", vec![Expr::str("a")]));
    // find / replace / split / starts / ends over all needles of <= 2 characters
    let mut nd = needles();
    // the subject's own characters as needles (matters for subjects outside the base alphabet)
    for ch in subject.chars() {
        let t = ch.to_string();
        if !nd.contains(&t) {
            nd.push(t);
        }
    }
    for needle in &nd {
        let ne = || Expr::str(needle);
        for st in lo..=hi {
            b.op(Expr::invoke(s(), "find", vec![ne(), n(st as f64)]));
        }
        b.op(Expr::invoke(s(), "find", vec![ne(), n(0.5)]));
        for new in ["", "z", "é"] {
            b.op(Expr::invoke(s(), "replace", vec![ne(), Expr::str(new)]));
        }
        b.op(Expr::invoke(s(), "split", vec![ne()]));
        b.op(Expr::invoke(s(), "starts_with", vec![ne()]));
        b.op(Expr::invoke(s(), "ends_with", vec![ne()]));
    }
    // round trips
    b.op(Expr::bin(
        BinOp::Eq,
        Expr::invoke(Expr::var("String"), "from_utf8", vec![Expr::invoke(s(), "to_bytes", vec![])]),
        s(),
    ));
    b.op(Expr::bin(
        BinOp::Eq,
        Expr::invoke(Expr::var("String"), "from_code_points", vec![Expr::invoke(s(), "to_code_points", vec![])]),
        s(),
    ));
    // wrong kinds and arities
    b.op(Expr::invoke(s(), "find", vec![n(1.0), n(0.0)]));
    b.op(Expr::invoke(s(), "find", vec![Expr::str("a"), Expr::str("x")]));
    b.op(Expr::invoke(s(), "find", vec![Expr::str("a")]));
    b.op(Expr::invoke(s(), "replace", vec![Expr::str("a"), n(1.0)]));
    b.op(Expr::invoke(s(), "replace", vec![Expr::Nil, Expr::str("a")]));
    b.op(Expr::invoke(s(), "split", vec![Expr::Nil]));
    b.op(Expr::invoke(s(), "split", vec![]));
    b.op(Expr::invoke(s(), "starts_with", vec![n(3.0)]));
    b.op(Expr::invoke(s(), "ends_with", vec![Expr::VecLit(vec![])]));
    b.op(Expr::invoke(s(), "to_num", vec![]));
    Program { main: b.out, modules: vec![] }
}

/// indexing and slicing of a vec and a tuple of length `len`
/// Classification of every ASCII character (block `blk` of 32), alone and next to a letter, a digit
/// and itself, plus identifier-like words: the character classes of the string functions are those of
/// ASCII letters, decimal digits and hexadecimal digits, nothing else (no `_`, no space, no sign).
pub fn ascii_class_sweep(blk: usize) -> Program {
    let mut b = B { out: Vec::new(), counter: 0 };
    let mut subjects: Vec<String> = Vec::new();
    for c in (blk * 32)..(blk * 32 + 32) {
        let ch = (c as u8) as char;
        subjects.push(ch.to_string());
        subjects.push(format!("a{}", ch));
        subjects.push(format!("{}7", ch));
        subjects.push(format!("{}{}", ch, ch));
        subjects.push(format!("F{}f", ch));
    }
    if blk == 0 {
        for w in ["snake_case", "_", "__init__", "a_", "_9", "0x1F", "1e5", "-1", "+1", "1.5", " a", "a ", "é", "aé", "٣", "Ａ", "abcXYZ", "0123456789", "abcdefABCDEF0123456789", "g", "G"] {
            subjects.push(w.to_string());
        }
    }
    for s in subjects {
        for m in ["is_alpha", "is_digit", "is_hexdigit"] {
            b.op(Expr::invoke(Expr::str(&s), m, vec![]));
        }
    }
    Program { main: b.out, modules: vec![] }
}

pub fn seq_sweep(len: usize) -> Program {
    let mut b = B { out: Vec::new(), counter: 0 };
    let elems: Vec<Expr> = (0..len).map(|k| Expr::str(&format!("e{}", k))).collect();
    b.out.push(Stmt::var("v", Some(Expr::VecLit(elems.clone()))));
    b.out.push(Stmt::var("t", Some(Expr::TupleLit(elems))));
    let l = len as i64;
    for name in ["v", "t"] {
        let s = || Expr::var(name);
        for k in (-l - 2)..=(l + 2) {
            b.op(Expr::index(s(), n(k as f64)));
        }
        for sp in specials() {
            b.op(Expr::index(s(), sp));
        }
        for a in (-l - 2)..=(l + 2) {
            for e in (-l - 2)..=(l + 2) {
                b.op(Expr::index(s(), Expr::range(n(a as f64), n(e as f64))));
            }
        }
        b.op(Expr::index(s(), Expr::Nil));
        b.op(Expr::index(s(), Expr::str("a")));
        b.op(Expr::invoke(s(), "len", vec![]));
    }
    // element assignment on the vec (and its rejection on the tuple)
    for k in (-l - 2)..=(l + 2) {
        b.op(Expr::assign(Target::Index(Expr::var("v"), n(k as f64)), Expr::str("w")));
    }
    for sp in specials().into_iter().take(5) {
        b.op(Expr::assign(Target::Index(Expr::var("v"), sp), Expr::str("w")));
    }
    b.op(Expr::assign(Target::Index(Expr::var("t"), n(0.0)), Expr::str("w")));
    b.op(Expr::assign(Target::Index(Expr::var("v"), Expr::range(n(0.0), n(1.0))), Expr::str("w")));
    // a slice of a vector is a new vector, whatever part it covers (all of it included): changing
    // either afterwards leaves the other as it was
    for a in (-l - 1)..=(l + 1) {
        for e in (-l - 1)..=(l + 1) {
            b.counter += 1;
            let ev = format!("e{}", b.counter);
            b.out.push(Stmt::new(StmtKind::Try(
                vec![
                    Stmt::var("u", Some(Expr::VecLit((0..len).map(|k| n(k as f64)).collect()))),
                    Stmt::var("c", Some(Expr::index(Expr::var("u"), Expr::range(n(a as f64), n(e as f64))))),
                    Stmt::expr(Expr::invoke(Expr::var("c"), "push", vec![Expr::str("to the slice")])),
                    Stmt::print(Expr::var("u")),
                    Stmt::expr(Expr::invoke(Expr::var("u"), "push", vec![Expr::str("to the vector")])),
                    Stmt::print(Expr::var("c")),
                ],
                Some((ev.clone(), vec![Stmt::print(Expr::callv("type", vec![Expr::var(&ev)]))])),
                None,
            )));
        }
    }
    b.out.push(Stmt::print(Expr::var("v")));
    b.out.push(Stmt::print(Expr::var("t")));
    Program { main: b.out, modules: vec![] }
}

const NUM_TEXTS: &[&str] = &[
    "0", "1", "-1", "+1", "1.5", "-0", "1e3", "1E3", "1e-3", "1e+3", ".5", "5.", "1e", "e1", "", " 1", "1 ", "0x10", "inf",
    "-inf", "NaN", "nan", "infinity", "1_0", "1e400", "-1e400", "1e-400", "4.9e-324", "2.5e-324", "179769313486231570000000000000",
    "9007199254740993", "0.1", "12abc", "--1", "1..2", "١",
];

/// conversions: to_num, from_ascii, from_utf8, from_code_points, classification
pub fn conversions(data: &[u8]) -> (Program, Vec<&'static str>) {
    let mut rd = Rd::new(data, 1000);
    let mut b = B { out: Vec::new(), counter: 0 };
    let mut labels = Vec::new();
    let ops = 8 + rd.below(24);
    for _ in 0..ops {
        match rd.below(8) {
            0 => {
                let t = rd.pick_str(NUM_TEXTS);
                b.op(Expr::invoke(Expr::str(t), "to_num", vec![]));
                labels.push("to_num");
            }
            1 => {
                // generated decimal texts: 1-40 digits (beyond the 15-17 that fit a double exactly),
                // optional sign, fraction, exponent, leading zeros; sometimes with one stray character
                let mut t = String::new();
                match rd.below(6) {
                    0 => t.push('-'),
                    1 => t.push('+'),
                    _ => {}
                }
                let wide = rd.flag();
                let nd = 1 + rd.below(if wide { 40 } else { 20 });
                for k in 0..nd {
                    let dgt = if k == 0 && rd.chance(1, 4) { 0 } else { rd.below(10) };
                    t.push((b'0' + dgt as u8) as char);
                }
                if rd.chance(1, 3) {
                    t.push('.');
                    let nf = rd.below(20);
                    for _ in 0..nf {
                        t.push((b'0' + rd.below(10) as u8) as char);
                    }
                }
                if rd.chance(1, 4) {
                    t.push(if rd.flag() { 'e' } else { 'E' });
                    match rd.below(3) {
                        0 => t.push('-'),
                        1 => t.push('+'),
                        _ => {}
                    }
                    t.push_str(&rd.below(400).to_string());
                }
                if rd.chance(1, 10) {
                    let at = rd.below(t.len() + 1);
                    t.insert(at, *rd.pick(&[' ', '_', 'x', ',', '-', '.']));
                }
                // the value itself and its comparison with the same text written as a literal (when it
                // is one): to_num and the compiler must agree on the nearest double
                b.op(Expr::invoke(Expr::str(&t), "to_num", vec![]));
                labels.push("to_num_generated");
            }
            2 | 3 => {
                // byte vectors: valid characters, truncated and overlong sequences, surrogates, junk
                let k = rd.below(6);
                let mut bytes: Vec<Expr> = Vec::new();
                for _ in 0..k {
                    match rd.below(10) {
                        0 => bytes.extend([0xC3, 0xA9].iter().map(|x| n(*x as f64))),
                        1 => bytes.extend([0xE2, 0x82, 0xAC].iter().map(|x| n(*x as f64))),
                        2 => bytes.extend([0xF0, 0x9F, 0x98, 0x80].iter().map(|x| n(*x as f64))),
                        3 => bytes.push(n(0xC3 as f64)),
                        4 => bytes.extend([0xC0, 0x80].iter().map(|x| n(*x as f64))),
                        5 => bytes.extend([0xED, 0xA0, 0x80].iter().map(|x| n(*x as f64))),
                        6 => bytes.push(n(*rd.pick(&[-1.0, 256.0, 0.5, 255.0, 128.0]))),
                        7 => bytes.push(Expr::str("a")),
                        _ => bytes.push(n(rd.below(128) as f64)),
                    }
                }
                b.op(Expr::invoke(Expr::var("String"), "from_utf8", vec![Expr::VecLit(bytes)]));
                labels.push("from_utf8");
            }
            4 => {
                let k = rd.below(5);
                let mut v = Vec::new();
                for _ in 0..k {
                    v.push(match rd.below(8) {
                        0 => n(-1.0),
                        1 => n(256.0),
                        2 => n(0.5),
                        3 => Expr::Nil,
                        4 => n(192.0 + rd.below(64) as f64),
                        _ => n(rd.below(128) as f64),
                    });
                }
                b.op(Expr::invoke(Expr::var("String"), "from_ascii", vec![Expr::VecLit(v)]));
                labels.push("from_ascii");
            }
            5 => {
                let k = rd.below(5);
                let mut v = Vec::new();
                for _ in 0..k {
                    v.push(match rd.below(10) {
                        0 => n(0xD800 as f64),
                        1 => n(0xDFFF as f64),
                        2 => n(0x110000 as f64),
                        3 => n(0x10FFFF as f64),
                        4 => n(4294967296.0),
                        5 => n(-1.0),
                        6 => n(1.5),
                        7 => Expr::str("a"),
                        8 => n(0x20AC as f64),
                        _ => n(rd.below(0x250) as f64),
                    });
                }
                b.op(Expr::invoke(Expr::var("String"), "from_code_points", vec![Expr::VecLit(v)]));
                labels.push("from_code_points");
            }
            6 => {
                let t = rd.pick_str(&["abc", "aB", "a1", "09", "fF0", "", "g", "é", "a b", "0x", "Z"]);
                let m = rd.pick_str(&["is_alpha", "is_digit", "is_hexdigit"]);
                b.op(Expr::invoke(Expr::str(t), m, vec![]));
                labels.push("classify");
            }
            _ => {
                // wrong argument kinds for the static constructors
                let m = rd.pick_str(&["from_ascii", "from_utf8", "from_code_points", "from"]);
                let a = match rd.below(4) {
                    0 => vec![],
                    1 => vec![Expr::Nil],
                    2 => vec![Expr::VecLit(vec![]), Expr::VecLit(vec![])],
                    _ => vec![Expr::TupleLit(vec![n(65.0)])],
                };
                b.op(Expr::invoke(Expr::var("String"), m, a));
                labels.push("static_misuse");
            }
        }
    }
    (Program { main: b.out, modules: vec![] }, labels)
}

/// random longer subject with random operations
pub fn random_ops(data: &[u8]) -> (Program, Vec<&'static str>) {
    let mut rd = Rd::new(data, 1000);
    let mut b = B { out: Vec::new(), counter: 0 };
    let pool = ["a", "b", "ab", "é", "€", "😀", " ", ",", "aé", "€a", "abc", "ba", "ก", "\u{800}", "\u{7ff}", "\u{ffff}\u{10000}"];
    let k = 1 + rd.below(12);
    let mut subject = String::new();
    for _ in 0..k {
        subject.push_str(rd.pick_str(&pool));
    }
    b.out.push(Stmt::var("s", Some(Expr::str(&subject))));
    let len = subject.len() as i64;
    let s = || Expr::var("s");
    let ops = 10 + rd.below(40);
    let mut labels = Vec::new();
    for _ in 0..ops {
        let idx = |rd: &mut Rd| n((rd.below((2 * len + 5) as usize) as i64 - len - 2) as f64);
        let needle = |rd: &mut Rd| {
            let a = rd.pick_str(&pool);
            if rd.flag() {
                Expr::str(a)
            } else {
                Expr::str(&format!("{}{}", a, rd.pick_str(&pool)))
            }
        };
        match rd.below(7) {
            0 => b.op(Expr::index(s(), idx(&mut rd))),
            1 => {
                let a = idx(&mut rd);
                let e = idx(&mut rd);
                b.op(Expr::index(s(), Expr::range(a, e)));
            }
            2 => {
                let nd = needle(&mut rd);
                let st = idx(&mut rd);
                b.op(Expr::invoke(s(), "find", vec![nd, st]));
            }
            3 => {
                let nd = needle(&mut rd);
                let nw = needle(&mut rd);
                b.op(Expr::invoke(s(), "replace", vec![nd, nw]));
            }
            4 => {
                let nd = needle(&mut rd);
                b.op(Expr::invoke(s(), "split", vec![nd]));
            }
            5 => {
                let nd = needle(&mut rd);
                let m = rd.pick_str(&["starts_with", "ends_with"]);
                b.op(Expr::invoke(s(), m, vec![nd]));
            }
            _ => b.op(Expr::invoke(s(), "char_byte_index", vec![idx(&mut rd)])),
        }
        labels.push("random_op");
    }
    (Program { main: b.out, modules: vec![] }, labels)
}
