#!/usr/bin/env python3
"""mkpinned.py <property> <out.json> <sig> <expect-end> <source-file> [expected-output-file]
Builds a replay file of family 'pinned' (source text + expected output) for ./check <ID> --replay."""
import json, sys
prop, out, sig, end, src = sys.argv[1:6]
exp = open(sys.argv[6]).read() if len(sys.argv) > 6 else ""
text = "//// sig: %s\n//// expect-end: %s\n//// expect-out:\n%s//// source:\n%s" % (
    sig, end, exp if exp.endswith("\n") or exp == "" else exp + "\n", open(src).read())
json.dump({"property": prop, "family": "pinned", "bytes_hex": text.encode().hex(),
           "signature": sig, "detail": "", "case": text}, open(out, "w"), indent=1)
