//! C17 — errors carry the right class, message and source lines.

use yarel::error::{Error, ErrorKind};
use yarel::value::Value;
use yarel::vm::Vm;

use crate::diff::*;
use crate::engine::*;
use crate::gen;
use crate::prelude::RefCfg;
use crate::profiles;
use crate::props::diffprop::verdict_of;
use crate::rd::{fnv64, Rd};
use crate::yrun::{self, End, RunCfg, Session};

pub struct C17;

fn profile() -> gen::Profile {
    let mut p = profiles::mixed();
    p.name = "c17";
    p.guard = 2;
    p.illtyped = 3;
    p.w_fn = 8;
    p.w_call_stmt = 10;
    p.w_class = 4;
    p.w_throw = 3;
    p.w_try = 1;
    p.w_fiber = 2;
    p.size = 90;
    p
}

const INJECTIONS: &[&str] = &[
    "var = 1;", ")", "1 +;", "x y;", "fn (a) { }", "print(;", "class { }", "var v 3;", "@",
    // rules of the language rather than of the grammar: each is an error wherever a statement may stand
    "break;", "continue;", "self;", "Self;", "super.x;", "return 1;", "{ var zq = zq; }", "1 = 2;",
    "class Zq1 { #[static] fn s() { return self; } }",
    "class Zq2 { fn m(self) { return super.m(); } }",
    "class Zq3 { #[constructor] fn new(self) { return 1; } }",
    "class Zq4 { fn m() { } }",
    "{ var zr = 1; var zr = 2; }",
];

fn kind_of_class(name: &str) -> &'static str {
    match name {
        "AttributeError" => "AttributeError",
        "ImportError" => "ImportError",
        "IndexError" => "IndexError",
        "NameError" => "NameError",
        "RuntimeError" => "RuntimeError",
        "TypeError" => "TypeError",
        "ValueError" => "ValueError",
        _ => "RuntimeError",
    }
}

fn host_fail(vm: &mut Vm, num_args: usize) -> Result<Value, Error> {
    // host_fail(kind_index, message)
    if num_args != 2 {
        return Err(Error::with_message(ErrorKind::TypeError, "host_fail expects 2 arguments"));
    }
    let k = match vm.native_arg(1) {
        Value::Number(n) => n as usize,
        _ => 0,
    };
    let msg = format!("{}", vm.native_arg(2));
    let kind = [
        ErrorKind::AttributeError,
        ErrorKind::CompileError,
        ErrorKind::ImportError,
        ErrorKind::IndexError,
        ErrorKind::NameError,
        ErrorKind::RuntimeError,
        ErrorKind::TypeError,
        ErrorKind::ValueError,
    ][k % 8];
    Err(Error::with_message(kind, &msg))
}

/// An import graph (the C14 generator) whose modules each get a set of links — a function, a static
/// method, an instance method and a lambda held in a module global — that pass control to a link of
/// the next module in a list handed down from main; the innermost link fails. The trace of the
/// uncaught error then has one entry per link, each in a different module and of a different
/// callable kind. One time in four main instead ends with one of the short cross-module failures.
fn module_trace_program(bytes: &[u8]) -> crate::ast::Program {
    use crate::ast::*;
    use std::cell::{Cell, RefCell};
    use std::rc::Rc;
    let (mut p, _) = crate::gen_mod::program_opts(bytes, false);
    let mut rd = Rd::new(bytes, 400);
    let v = |x: &str| Expr::var(x);
    let n = |x: f64| Expr::Num(x);
    let good: Vec<String> = p
        .modules
        .iter()
        .filter_map(|(path, m)| match m {
            ModuleSrc::Ast(_) => Some(path.clone()),
            _ => None,
        })
        .collect();
    if good.is_empty() {
        return p;
    }
    let mode = rd.below(4);
    if mode == 0 {
        let path = good[rd.below(good.len())].clone();
        let name = path.rsplit('/').next().unwrap().to_string();
        p.main.push(Stmt::new(StmtKind::Import(path.clone(), None)));
        p.main.push(match rd.below(3) {
            0 => Stmt::print(Expr::invoke(v(&name), "reads_importer_global", vec![])),
            1 => Stmt::print(Expr::invoke(v(&name), "bump", vec![n(1.0)])),
            _ => Stmt::print(Expr::get(v(&name), "no_such_member")),
        });
        return p;
    }
    // the step to the next link: ms[d - 1].<link>(ms, d - 1)
    fn next_link(rd: &mut Rd) -> Expr {
        let v = |x: &str| Expr::var(x);
        let dm1 = || Expr::bin(BinOp::Sub, v("d"), Expr::Num(1.0));
        let target = Expr::index(v("ms"), dm1());
        let args = vec![v("ms"), dm1()];
        match rd.below(5) {
            0 | 1 => Expr::invoke(target, "chain", args),
            2 => Expr::invoke(Expr::get(target, "Link"), "via", args),
            3 => Expr::invoke(Expr::invoke(Expr::get(target, "Link"), "new", vec![]), "meth", args),
            _ => Expr::invoke(target, "lam", args),
        }
    }
    fn failing(rd: &mut Rd) -> Stmt {
        let v = |x: &str| Expr::var(x);
        match rd.below(7) {
            0 => Stmt::new(StmtKind::Throw(Expr::str("thrown text"))),
            1 => Stmt::new(StmtKind::Throw(Expr::invoke(v("Error"), "new", vec![Expr::str("made here")]))),
            2 => Stmt::new(StmtKind::Return(Some(Expr::bin(BinOp::Add, Expr::Num(1.0), Expr::Nil)))),
            3 => Stmt::new(StmtKind::Return(Some(Expr::index(Expr::VecLit(vec![]), Expr::Num(3.0))))),
            4 => Stmt::new(StmtKind::Return(Some(v("no_such_global_anywhere")))),
            5 => Stmt::new(StmtKind::Return(Some(Expr::get(v("tag"), "no_such_member")))),
            _ => Stmt::new(StmtKind::Return(Some(Expr::invoke(Expr::str("abc"), "find", vec![Expr::Num(1.0)])))),
        }
    }
    fn link_body(rd: &mut Rd) -> Vec<Stmt> {
        let v = |x: &str| Expr::var(x);
        let mut b = Vec::new();
        if rd.chance(1, 3) {
            b.push(Stmt::var("pad", Some(Expr::VecLit(vec![v("tag"), v("d")]))));
        }
        b.push(Stmt::new(StmtKind::If(
            Expr::bin(BinOp::Le, v("d"), Expr::Num(0.0)),
            vec![failing(rd)],
            None,
        )));
        if rd.chance(1, 3) {
            b.push(Stmt::var("r", Some(next_link(rd))));
            b.push(Stmt::new(StmtKind::Return(Some(v("r")))));
        } else {
            b.push(Stmt::new(StmtKind::Return(Some(next_link(rd)))));
        }
        b
    }
    let mk = |name: &str, kind: FnKind, params: Vec<&str>, body: Body| {
        Rc::new(FnDef {
            name: RefCell::new(name.to_string()),
            params: params.iter().map(|s| s.to_string()).collect(),
            body,
            kind,
        })
    };
    let mut links = |rd: &mut Rd| -> Vec<Stmt> {
        let mut out = Vec::new();
        out.push(Stmt::new(StmtKind::Fn(mk("chain", FnKind::Function, vec!["ms", "d"], Body::Block(link_body(rd))))));
        out.push(Stmt::new(StmtKind::Class(Rc::new(ClassDef {
            name: "Link".into(),
            superclass: None,
            default_ctor: Some("new".into()),
            methods: vec![
                mk("via", FnKind::Static, vec!["ms", "d"], Body::Block(link_body(rd))),
                mk("meth", FnKind::Method, vec!["ms", "d"], Body::Block(link_body(rd))),
            ],
            attr_line: Cell::new(0),
        }))));
        let lam_body = if rd.flag() {
            Body::Block(link_body(rd))
        } else {
            // expression-bodied: no innermost failure of its own, it only passes control on
            Body::Expr(Box::new(Expr::invoke(
                Expr::index(v("ms"), Expr::bin(BinOp::Sub, v("d"), n(1.0))),
                "chain",
                vec![v("ms"), Expr::bin(BinOp::Sub, v("d"), n(1.0))],
            )))
        };
        out.push(Stmt::var("lam", Some(Expr::Lambda(mk("", FnKind::Lambda, vec!["ms", "d"], lam_body)))));
        out
    };
    for (_, m) in p.modules.iter_mut() {
        if let ModuleSrc::Ast(body) = m {
            // after `tag` and `counter` (the first three statements), before anything that may fail
            let at = body.len().min(3);
            let l = links(&mut rd);
            for (k, s) in l.into_iter().enumerate() {
                body.insert(at + k, s);
            }
        }
    }
    // main has links of its own, so a chain can come back through the importer
    let l = links(&mut rd);
    let at = p.main.len().min(3);
    for (k, s) in l.into_iter().enumerate() {
        p.main.insert(at + k, s);
    }
    // import up to four modules without a guard, list them (main itself is not a module object, so
    // the list holds module objects only), then start the chain
    let depth = 1 + rd.below(7);
    let mut bound: Vec<String> = Vec::new();
    for _ in 0..(1 + rd.below(4)) {
        let path = good[rd.below(good.len())].clone();
        let name = path.rsplit('/').next().unwrap().to_string();
        p.main.push(Stmt::new(StmtKind::Import(path.clone(), None)));
        bound.push(name);
    }
    let ms: Vec<Expr> = (0..depth).map(|_| v(&bound[rd.below(bound.len())])).collect();
    p.main.push(Stmt::var("chain_ms", Some(Expr::VecLit(ms))));
    let start = match rd.below(4) {
        0 => Expr::callv("chain", vec![v("chain_ms"), n(depth as f64)]),
        1 => Expr::invoke(v("Link"), "via", vec![v("chain_ms"), n(depth as f64)]),
        2 => Expr::invoke(Expr::invoke(v("Link"), "new", vec![]), "meth", vec![v("chain_ms"), n(depth as f64)]),
        _ => Expr::callv("lam", vec![v("chain_ms"), n(depth as f64)]),
    };
    p.main.push(if rd.flag() { Stmt::print(start) } else { Stmt::var("chain_result", Some(start)) });
    p
}

const HOST_CLASSES: [&str; 8] = [
    "AttributeError", "RuntimeError", "ImportError", "IndexError", "NameError", "RuntimeError", "TypeError", "ValueError",
];

/// statements that lack their terminating `;`: the error is the next token's, on the next line
const UNTERMINATED: &[&str] = &["var zs = 1", "print(1)", "throw 1", "var zs3", "zs4 = 2", "nil"];

impl C17 {
    fn compile_lines(&self, bytes: &[u8], ctx: &mut CaseCtx) -> Verdict {
        if bytes.len() < 6 {
            return Verdict::Discard("short");
        }
        let mut rd = Rd::new(&bytes[..5], 10);
        let inj = rd.pick_str(INJECTIONS);
        let where_ = rd.below(1000);
        let multi = rd.flag();
        let (prog, _) = gen::program(&bytes[5..], profiles::c06());
        crate::astutil::fix_lambda_names(&prog);
        let noise: Vec<u8> = bytes.iter().rev().take(16).cloned().collect();
        let src = crate::pretty::render_noisy(&prog.main, &noise);
        let starts: Vec<u32> = prog.main.iter().map(|s| s.line.get()).filter(|l| *l > 0).collect();
        if starts.is_empty() {
            return Verdict::Discard("no statements");
        }
        // insert before the top-level statement starting at line L (class statements carry their
        // attribute line first: insert before the attribute then)
        let mut l = starts[where_ % starts.len()] as usize;
        let lines: Vec<&str> = src.lines().collect();
        while l >= 2 && lines[l - 2].trim_start().starts_with("#[") {
            l -= 1;
        }
        // one time in five, a statement without its `;` instead: what follows must begin with a word,
        // `#` or `{`, so that it cannot continue the expression
        let next_starts_word = lines
            .get(l - 1)
            .map(|t| t.trim_start().chars().next().map(|c| c.is_ascii_alphabetic() || c == '#' || c == '{').unwrap_or(false))
            .unwrap_or(false);
        let unterminated = next_starts_word && where_ % 5 == 0;
        let inj = if unterminated { UNTERMINATED[(where_ / 5) % UNTERMINATED.len()] } else { inj };
        let mut out: Vec<String> = Vec::new();
        let mut err_line = 0;
        for (i, line) in lines.iter().enumerate() {
            if i + 1 == l {
                if multi {
                    // a multi-line string statement first: line counting inside strings
                    out.push("\"first".to_string());
                    out.push("second\";".to_string());
                }
                out.push(inj.to_string());
                err_line = out.len() + if unterminated { 1 } else { 0 };
                if unterminated {
                    ctx.label("injected_unterminated");
                }
            }
            out.push(line.to_string());
        }
        let text = out.join("\n");
        let mut s = Session::new(RunCfg::default());
        let end = s.compile_only(&text);
        let _ = s.finish();
        ctx.label("injected");
        if multi {
            ctx.label("after_multiline_string");
        }
        match end {
            End::Err(ErrorKind::CompileError, msgs) => {
                let want = format!("line {}]", err_line);
                let first_ok = msgs.first().map(|m| m.contains(&want)).unwrap_or(false);
                if !first_ok {
                    return Verdict::Fail {
                        sig: "compile-error-wrong-line".into(),
                        detail: format!("a syntax error was injected as line {} ({:?}); the first message is {:?}\n{}", err_line, inj, msgs.first(), text),
                    };
                }
                Verdict::Pass { nontrivial: err_line > 3, hash: fnv64(text.as_bytes()) }
            }
            End::Panic(p) => Verdict::Fail { sig: format!("panic:{}", crate::props::c03::sig_of_panic(&p)), detail: format!("{}\n{}", p, text) },
            other => Verdict::Fail {
                sig: "syntax-error-accepted".into(),
                detail: format!("a definite syntax error ({:?} as line {}) was not reported: {:?}\n{}", inj, err_line, other, text),
            },
        }
    }

    fn host_natives(&self, bytes: &[u8], ctx: &mut CaseCtx) -> Verdict {
        let mut rd = Rd::new(bytes, 100);
        let k = rd.below(8);
        let msg = rd.pick_str(&["boom", "two words", "", "line1\nline2", "ünï"]);
        let depth = rd.below(3);
        let mut src = String::new();
        let call = format!("host_fail({}, \"{}\")", k, msg.replace('\n', "\\n"));
        match depth {
            0 => src.push_str(&format!("try {{ {}; }} catch e {{ print(type(e)); print(e.context); print(e.derives(Error)); }}\n", call)),
            1 => src.push_str(&format!("fn f() {{ return {}; }}\ntry {{ f(); }} catch e {{ print(type(e)); print(e.context); print(e.derives(Error)); }}\n", call)),
            _ => src.push_str(&format!("#[constructor(new)] class H {{ fn m(self) {{ return {}; }} }}\ntry {{ H.new().m(); }} catch e {{ print(type(e)); print(e.context); print(e.derives(Error)); }}\n", call)),
        }
        src.push_str("print(\"after\");\n");
        src.push_str(&format!("{};\n", call));
        let mut s = Session::new(RunCfg::default());
        if let Some(vm) = s.vm() {
            vm.define_native("main", "host_fail", host_fail);
        }
        let (out, end) = s.feed(&src);
        let _ = s.finish();
        let class = HOST_CLASSES[k];
        let mut expect = vec![format!("<class {}>", class), msg.to_string(), "true".to_string(), "after".to_string()];
        let _ = &mut expect;
        ctx.label("host_native");
        if out != expect {
            return Verdict::Fail {
                sig: "host-error-not-catchable-as-class".into(),
                detail: format!("expected {:?}, printed {:?} (end {:?})\n{}", expect, out, end, src),
            };
        }
        match end {
            End::Err(kind, msgs) => {
                let head: Vec<String> = format!("Unhandled {}: {}", class, msg).lines().map(|l| l.to_string()).collect();
                if yrun::kind_name(kind) != kind_of_class(class) || msgs.len() < head.len() || msgs[..head.len()] != head[..] {
                    return Verdict::Fail {
                        sig: "host-error-report".into(),
                        detail: format!("uncaught host error: expected kind {} and head {:?}, got {:?} {:?}\n{}", kind_of_class(class), head, kind, msgs, src),
                    };
                }
                Verdict::Pass { nontrivial: true, hash: fnv64(src.as_bytes()) }
            }
            other => Verdict::Fail { sig: "host-error-report".into(), detail: format!("the uncaught host error ended the run with {:?}\n{}", other, src) },
        }
    }

    /// X-17: the uncaught report must say what a handler would have seen
    fn twin_check(&self, d: &DiffResult, prog: &crate::ast::Program, noise: &[u8]) -> Option<Verdict> {
        use crate::ast::*;
        let o = d.yarel.as_ref()?;
        let (kind, msgs) = match &o.end {
            End::Err(k, m) => (*k, m.clone()),
            _ => return None,
        };
        // the failing top-level statement: the trace entry "in script" of module main
        let script_line: u32 = msgs
            .iter()
            .rev()
            .find(|m| m.starts_with("[module \"main\", line ") && m.ends_with("in script"))
            .and_then(|m| m["[module \"main\", line ".len()..].split(']').next().and_then(|n| n.parse().ok()))?;
        let idx = prog.main.iter().rposition(|s| s.line.get() != 0 && s.line.get() <= script_line)?;
        if !matches!(prog.main[idx].kind, StmtKind::Expr(_) | StmtKind::Throw(_)) {
            return None;
        }
        let mut twin = prog.clone();
        let st = twin.main[idx].clone();
        let handler = vec![
            Stmt::print(Expr::str("<<handler")),
            Stmt::print(Expr::callv("type", vec![Expr::var("xe")])),
            Stmt::new(StmtKind::If(
                Expr::invoke(Expr::var("xe"), "derives", vec![Expr::var("Error")]),
                vec![Stmt::print(Expr::str("ctx")), Stmt::print(Expr::get(Expr::var("xe"), "context"))],
                Some(Box::new(Stmt::new(StmtKind::Block(vec![Stmt::print(Expr::str("val")), Stmt::print(Expr::var("xe"))])))),
            )),
            Stmt::new(StmtKind::Throw(Expr::str("twin done"))),
        ];
        twin.main[idx] = Stmt::new(StmtKind::Try(vec![st], Some(("xe".into(), handler)), None));
        crate::astutil::fix_lambda_names(&twin);
        let (src, mods) = crate::pretty::render_program(&twin, noise);
        let t = yrun::run_source(&src, &RunCfg { modules: mods, ..RunCfg::default() });
        let pos = t.out.iter().position(|l| l == "<<handler")?;
        if t.out.len() < pos + 4 {
            return None;
        }
        let class = t.out[pos + 1].trim_start_matches("<class ").trim_end_matches('>').to_string();
        let is_err = t.out[pos + 2] == "ctx";
        let text = yrun::normalise_addr(&t.out[pos + 3]);
        let expected_head = if is_err { format!("Unhandled {}: {}", class, text) } else { format!("Unhandled exception: {}", text) };
        let expected_lines: Vec<String> = expected_head.lines().map(|l| l.to_string()).collect();
        let got: Vec<String> = msgs.iter().map(|m| yrun::normalise_addr(m)).collect();
        // user subclasses of Error whose instance lacks `context` print the instance itself
        let expected_kind = if is_err { kind_of_class(&class) } else { "RuntimeError" };
        if got.len() < expected_lines.len() || got[..expected_lines.len()] != expected_lines[..] || yrun::kind_name(kind) != expected_kind {
            return Some(Verdict::Fail {
                sig: "uncaught-report-differs-from-handler-view".into(),
                detail: format!(
                    "a handler sees class {} and {:?}; the uncaught report says {:?} with kind {:?} (expected head {:?}, kind {})\n{}",
                    class, text, got, kind, expected_lines, expected_kind, d.source
                ),
            });
        }
        None
    }
}

impl Property for C17 {
    fn id(&self) -> &'static str {
        "C17"
    }

    fn families(&self, tier: Tier) -> Vec<Family> {
        let q = tier == Tier::Quick;
        let n = |a: u64, b: u64| if q { a } else { b };
        vec![
            Family { name: "runtime_traces", kind: FamilyKind::Random { cases: n(60_000, 600_000), max_len: 800 } },
            Family { name: "module_traces", kind: FamilyKind::Random { cases: n(15_000, 150_000), max_len: 300 } },
            Family { name: "compile_lines", kind: FamilyKind::Random { cases: n(30_000, 300_000), max_len: 500 } },
            Family { name: "host_natives", kind: FamilyKind::Random { cases: n(600, 6_000), max_len: 8 } },
        ]
    }

    fn rule(&self) -> String {
        "cases: (runtime_traces) generated programs with few guards, laid out with random blank lines and comments, whose uncaught error arises in functions, methods, static methods, constructors, lambdas and fibers at call depths up to the frame limit; (module_traces) import graphs whose module functions fail when called from main, so traces cross modules; (compile_lines) valid generated programs with one definite error (9 syntax errors and 13 violations of compile-time rules: break/continue outside a loop, self/Self/super outside a class, self in a static method, super without a superclass, return at top level, a value returned from an initialiser, a method without self, a local read in its own initialiser or declared twice, an invalid assignment target; one time in five a statement without its terminating `;`, whose error belongs to the next token on the following line) injected as a line of its own before a top-level statement, optionally preceded by a two-line string literal; (host_natives) a host-defined native returning each ErrorKind with several message texts, called directly, from a function and from a method, first caught, then uncaught. Oracle: reference interpreter for class, kind and the trace (one entry per active call, innermost first, with module, function name incl. lambda-N numbering, and the line the printer gave the executing statement); relation X-17 for texts: a twin program wraps the failing top-level statement in try/catch and prints type(e) and e.context, and the uncaught report must read 'Unhandled <that class>: <that context>' with the kind that class maps to; the first compile message must name the injected line; host errors must be catchable as the class of their kind with the host's message as context. Non-trivial: a trace of >=3 frames, an injected error beyond line 3, or any host case; distinct by program text.".into()
    }

    fn assumptions(&self) -> Vec<String> {
        vec!["the position of an exception that passed through a finally block before becoming uncaught is not compared".into()]
    }

    fn render(&self, family: &str, bytes: &[u8]) -> String {
        match family {
            "runtime_traces" => {
                let (p, _) = gen::program(bytes, profile());
                crate::astutil::fix_lambda_names(&p);
                crate::pretty::render_noisy(&p.main, &bytes.iter().rev().take(16).cloned().collect::<Vec<u8>>())
            }
            "module_traces" => {
                let p = module_trace_program(bytes);
                crate::astutil::fix_lambda_names(&p);
                let (m, mods) = crate::pretty::render_program(&p, &bytes.iter().rev().take(16).cloned().collect::<Vec<u8>>());
                format!("{}\n{}", m, mods.iter().map(|(a, b)| format!("--- {}\n{}", a, b)).collect::<String>())
            }
            _ => format!("{} bytes: {}", bytes.len(), hex(&bytes[..bytes.len().min(24)])),
        }
    }

    fn run(&self, ctx: &mut CaseCtx) -> Verdict {
        let family = ctx.family.to_string();
        let bytes = ctx.bytes.to_vec();
        match family.as_str() {
            "compile_lines" => self.compile_lines(&bytes, ctx),
            "host_natives" => self.host_natives(&bytes, ctx),
            _ => {
                let (prog, noise): (crate::ast::Program, Vec<u8>) = if family == "module_traces" {
                    let p = module_trace_program(&bytes);
                    (p, bytes.iter().rev().take(16).cloned().collect())
                } else {
                    let (p, _) = gen::program(&bytes, profile());
                    (p, bytes.iter().rev().take(16).cloned().collect())
                };
                // (the twin check below reads variable names out of NameError messages: no unusual spellings here)
                let d = run_diff(&prog, &noise, &DiffCfg { respell: false, ..DiffCfg::default() }, &RefCfg::default());
                for (k, v) in &d.events {
                    ctx.label_n(&format!("ev:{}", k), *v as u64);
                }
                let frames = match &d.ref_end {
                    crate::prelude::RefEnd::Err(r) => r.trace.len(),
                    _ => 0,
                };
                if frames > 0 {
                    ctx.label("uncaught");
                    ctx.label_n("trace_frames", frames as u64);
                }
                if frames >= 3 {
                    ctx.label("deep_trace");
                }
                let v = verdict_of(&d, frames >= 3, ctx);
                if let Verdict::Pass { .. } = &v {
                    if frames > 0 && crate::props::diffprop::trigger_suffix(&d.events).is_empty() {
                        if let Some(f) = self.twin_check(&d, &prog, &noise) {
                            return f;
                        }
                        ctx.label("twin_checked");
                    }
                }
                v
            }
        }
    }

    fn floors(&self, _tier: Tier) -> Vec<(&'static str, u64)> {
        vec![("uncaught", 5_000), ("deep_trace", 500), ("injected", 5_000), ("after_multiline_string", 2_000), ("host_native", 400), ("twin_checked", 2_000)]
    }
}
