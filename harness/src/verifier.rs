//! C04: bytecode verifier by abstract interpretation. Its instruction table (operand bytes,
//! stack effect, successors) is transcribed from the interpreter's handlers (DESIGN.md
//! Appendix C), not taken from the compiler.

use std::collections::{BTreeMap, HashMap};

use yarel::chunk::{Chunk, OpCode};
use yarel::memory::Gc;
use yarel::object::ObjFunction;
use yarel::value::Value;

#[derive(Clone, Debug, PartialEq)]
pub struct Handler {
    pub catch_pc: usize,
    pub finally_pc: usize,
    pub height: usize,
}

#[derive(Clone, Debug, PartialEq)]
pub struct State {
    pub height: usize,
    pub handlers: Vec<Handler>,
}

#[derive(Clone, Debug)]
pub struct Problem {
    /// short class of the problem (stable, used in signatures)
    pub kind: &'static str,
    pub detail: String,
}

pub struct FnReport {
    pub name: String,
    pub code_base: usize,
    pub code_len: usize,
    /// abstract height before each reachable instruction
    pub heights: BTreeMap<usize, usize>,
    pub has_catchless_handler: bool,
    pub branches: usize,
    pub max_height: usize,
}

pub struct Report {
    pub functions: Vec<FnReport>,
    pub problems: Vec<Problem>,
    /// the recorded finding E8: a finally block is also entered one slot higher by exceptions
    pub finally_exception_entries: usize,
    pub opcode_heights: std::collections::BTreeSet<(u8, usize)>,
}

fn op(b: u8) -> Option<&'static str> {
    macro_rules! table {
        ($($name:ident),*) => {
            $(if b == OpCode::$name as u8 { return Some(stringify!($name)); })*
        };
    }
    table!(
        Constant, Nil, True, False, Pop, CopyTop, GetLocal, SetLocal, GetGlobal, DefineGlobal, SetGlobal,
        GetUpvalue, SetUpvalue, GetProperty, SetProperty, GetClass, GetSuper, Equal, Greater, Less, Add,
        Subtract, Multiply, Divide, BitwiseAnd, BitwiseOr, BitwiseXor, Modulo, LogicalNot, BitwiseNot,
        BitShiftLeft, BitShiftRight, Negate, GetItem, SetItem, FormatString, BuildHashMap, BuildRange,
        BuildString, BuildTuple, BuildVec, IterNext, Jump, JumpIfFalse, JumpIfStopIter, Loop, JumpFinally,
        EndFinally, PushExcHandler, PopExcHandler, Throw, Call, Invoke, Construct, SuperInvoke, Closure,
        CloseUpvalue, Return, DeclareClass, DefineClass, Inherit, Method, StaticMethod, StartImport,
        FinishImport
    );
    None
}

/// fixed operand bytes (Closure's capture descriptors are added separately)
fn operand_bytes(name: &str) -> usize {
    match name {
        "Constant" | "GetGlobal" | "DefineGlobal" | "SetGlobal" | "GetProperty" | "SetProperty" | "GetSuper"
        | "Jump" | "JumpIfFalse" | "JumpIfStopIter" | "Loop" | "Closure" | "DeclareClass" | "Method"
        | "StaticMethod" | "StartImport" => 2,
        "GetLocal" | "SetLocal" | "GetUpvalue" | "SetUpvalue" | "BuildHashMap" | "BuildString" | "BuildTuple"
        | "BuildVec" | "Call" | "Construct" => 1,
        "Invoke" | "SuperInvoke" => 3,
        "PushExcHandler" => 4,
        _ => 0,
    }
}

fn u16_at(code: &[u8], at: usize) -> Option<usize> {
    if at + 1 < code.len() {
        Some(u16::from_ne_bytes([code[at], code[at + 1]]) as usize)
    } else {
        None
    }
}

struct FnVerifier<'a> {
    f: Gc<ObjFunction>,
    chunk: &'a Chunk,
    enclosing_upvalues: usize,
    problems: Vec<Problem>,
    nested: Vec<(Gc<ObjFunction>, usize)>,
    finally_exception_entries: usize,
    has_catchless_handler: bool,
}

impl<'a> FnVerifier<'a> {
    fn problem(&mut self, kind: &'static str, detail: String) {
        if self.problems.len() < 20 {
            self.problems.push(Problem {
                kind,
                detail: format!("in {}: {}", fname(&self.f), detail),
            });
        }
    }

    /// length of the instruction at pc, or None if it runs outside the code
    fn length_at(&self, pc: usize) -> Option<usize> {
        let code = &self.chunk.code;
        let name = op(*code.get(pc)?)?;
        let mut len = 1 + operand_bytes(name);
        if name == "Closure" {
            let idx = u16_at(code, pc + 1)?;
            match self.chunk.constants.get(idx) {
                Some(Value::ObjFunction(g)) => len += 2 * g.upvalue_count,
                _ => return None,
            }
        }
        if pc + len > code.len() {
            return None;
        }
        Some(len)
    }

    fn string_const(&mut self, pc: usize, what: &str) {
        let idx = u16_at(&self.chunk.code, pc + 1).unwrap_or(usize::MAX);
        match self.chunk.constants.get(idx) {
            Some(Value::ObjString(_)) => {}
            Some(_) => self.problem("constant-kind", format!("pc {}: {} names constant {} which is not a string", pc, what, idx)),
            None => self.problem("constant-index", format!("pc {}: {} names constant {} of {}", pc, what, idx, self.chunk.constants.len())),
        }
    }
}

fn fname(f: &Gc<ObjFunction>) -> String {
    if f.name.is_empty() {
        "script".to_string()
    } else {
        format!("{}()", f.name.as_str())
    }
}

fn verify_fn(f: Gc<ObjFunction>, enclosing: Option<(usize, usize)>, out: &mut Report) {
    // `enclosing` = (upvalue count of the enclosing function, unused)
    let chunk: &Chunk = &f.chunk;
    let code = &chunk.code;
    let mut v = FnVerifier {
        f,
        chunk,
        enclosing_upvalues: enclosing.map(|e| e.0).unwrap_or(0),
        problems: Vec::new(),
        nested: Vec::new(),
        finally_exception_entries: 0,
        has_catchless_handler: false,
    };
    let _ = v.enclosing_upvalues;
    let mut rep = FnReport {
        name: fname(&f),
        code_base: code.as_ptr() as usize,
        code_len: code.len(),
        heights: BTreeMap::new(),
        has_catchless_handler: false,
        branches: 0,
        max_height: 0,
    };
    if chunk.lines.len() != code.len() {
        v.problem("line-table", format!("{} line entries for {} code bytes", chunk.lines.len(), code.len()));
    }
    // instruction boundaries by linear decoding
    let mut boundaries = vec![false; code.len() + 1];
    let mut pc = 0;
    let mut last = None;
    while pc < code.len() {
        boundaries[pc] = true;
        match v.length_at(pc) {
            Some(l) => {
                last = Some(pc);
                pc += l;
            }
            None => {
                v.problem("decode", format!("pc {}: byte {} does not decode to an instruction inside the code", pc, code[pc]));
                break;
            }
        }
    }
    match last {
        Some(l) if op(code[l]) == Some("Return") => {}
        _ => v.problem("no-final-return", "code does not end in Return".to_string()),
    }
    let arity = f.arity;
    let mut states: HashMap<usize, State> = HashMap::new();
    let mut work: Vec<(usize, State)> = vec![(0, State { height: arity, handlers: vec![] })];
    while let Some((pc, st)) = work.pop() {
        if pc >= code.len() || !boundaries[pc] {
            v.problem("bad-target", format!("control reaches pc {} which is not an instruction boundary inside {} code bytes", pc, code.len()));
            continue;
        }
        if let Some(prev) = states.get(&pc) {
            if *prev != st {
                if prev.height != st.height {
                    v.problem("height-conflict", format!("pc {} is reached with operand-stack heights {} and {}", pc, prev.height, st.height));
                } else {
                    v.problem("handler-conflict", format!("pc {} is reached with different static handler stacks ({} vs {} entries)", pc, prev.handlers.len(), st.handlers.len()));
                }
            }
            continue;
        }
        states.insert(pc, st.clone());
        rep.heights.insert(pc, st.height);
        out.opcode_heights.insert((code[pc], st.height.min(40)));
        rep.max_height = rep.max_height.max(st.height);
        let name = match op(code[pc]) {
            Some(n) => n,
            None => {
                v.problem("decode", format!("pc {}: unknown opcode {}", pc, code[pc]));
                continue;
            }
        };
        let len = match v.length_at(pc) {
            Some(l) => l,
            None => {
                v.problem("decode", format!("pc {}: {} runs past the end of the code", pc, name));
                continue;
            }
        };
        let h = st.height;
        let next = pc + len;
        let byte1 = code.get(pc + 1).copied().unwrap_or(0) as usize;
        macro_rules! need {
            ($n:expr) => {
                if h < $n {
                    v.problem("stack-underflow", format!("pc {}: {} needs {} operands, height is {}", pc, name, $n, h));
                    continue;
                }
            };
        }
        let mut push_next = |work: &mut Vec<(usize, State)>, target: usize, height: usize, handlers: Vec<Handler>| {
            work.push((target, State { height, handlers }));
        };
        let hs = st.handlers.clone();
        match name {
            "Constant" => {
                let idx = u16_at(code, pc + 1).unwrap_or(usize::MAX);
                if idx >= chunk.constants.len() {
                    v.problem("constant-index", format!("pc {}: Constant {} of {}", pc, idx, chunk.constants.len()));
                }
                push_next(&mut work, next, h + 1, hs);
            }
            "Nil" | "True" | "False" => push_next(&mut work, next, h + 1, hs),
            "CopyTop" => {
                need!(1);
                push_next(&mut work, next, h + 1, hs);
            }
            "Pop" | "CloseUpvalue" => {
                need!(1);
                if h - 1 < arity {
                    v.problem("pops-frame-base", format!("pc {}: {} would pop a parameter slot (height {}, arity {})", pc, name, h, arity));
                    continue;
                }
                push_next(&mut work, next, h - 1, hs);
            }
            "GetLocal" => {
                if byte1 >= h {
                    v.problem("local-index", format!("pc {}: GetLocal {} with only {} live slots", pc, byte1, h));
                }
                push_next(&mut work, next, h + 1, hs);
            }
            "SetLocal" => {
                need!(1);
                if byte1 >= h {
                    v.problem("local-index", format!("pc {}: SetLocal {} with only {} live slots", pc, byte1, h));
                }
                push_next(&mut work, next, h, hs);
            }
            "GetGlobal" | "DeclareClass" => {
                v.string_const(pc, name);
                push_next(&mut work, next, h + 1, hs);
            }
            "DefineGlobal" | "Method" | "StaticMethod" => {
                v.string_const(pc, name);
                need!(1);
                push_next(&mut work, next, h - 1, hs);
            }
            "SetGlobal" | "GetProperty" => {
                v.string_const(pc, name);
                need!(1);
                push_next(&mut work, next, h, hs);
            }
            "SetProperty" | "GetSuper" => {
                v.string_const(pc, name);
                need!(2);
                push_next(&mut work, next, h - 1, hs);
            }
            "GetUpvalue" => {
                if byte1 >= f.upvalue_count {
                    v.problem("upvalue-index", format!("pc {}: GetUpvalue {} of {}", pc, byte1, f.upvalue_count));
                }
                push_next(&mut work, next, h + 1, hs);
            }
            "SetUpvalue" => {
                need!(1);
                if byte1 >= f.upvalue_count {
                    v.problem("upvalue-index", format!("pc {}: SetUpvalue {} of {}", pc, byte1, f.upvalue_count));
                }
                push_next(&mut work, next, h, hs);
            }
            "GetClass" | "LogicalNot" | "BitwiseNot" | "Negate" | "FormatString" | "DefineClass" => {
                need!(1);
                push_next(&mut work, next, h, hs);
            }
            "Equal" | "Greater" | "Less" | "Add" | "Subtract" | "Multiply" | "Divide" | "BitwiseAnd" | "BitwiseOr"
            | "BitwiseXor" | "Modulo" | "BitShiftLeft" | "BitShiftRight" | "GetItem" | "BuildRange" | "Inherit"
            | "FinishImport" => {
                need!(2);
                push_next(&mut work, next, h - 1, hs);
            }
            "SetItem" => {
                need!(3);
                push_next(&mut work, next, h - 2, hs);
            }
            "BuildTuple" | "BuildVec" => {
                need!(byte1);
                push_next(&mut work, next, h - byte1 + 1, hs);
            }
            "BuildString" => {
                if byte1 == 0 {
                    v.problem("empty-build-string", format!("pc {}: BuildString with 0 parts", pc));
                    push_next(&mut work, next, h + 1, hs);
                } else {
                    need!(byte1);
                    push_next(&mut work, next, h - byte1 + 1, hs);
                }
            }
            "BuildHashMap" => {
                need!(2 * byte1);
                push_next(&mut work, next, h - 2 * byte1 + 1, hs);
            }
            "IterNext" => {
                need!(1);
                push_next(&mut work, next, h + 1, hs);
            }
            "Jump" => {
                let off = u16_at(code, pc + 1).unwrap_or(0);
                rep.branches += 1;
                push_next(&mut work, next + off, h, hs);
            }
            "JumpIfFalse" | "JumpIfStopIter" => {
                need!(1);
                let off = u16_at(code, pc + 1).unwrap_or(0);
                rep.branches += 1;
                push_next(&mut work, next + off, h, hs.clone());
                push_next(&mut work, next, h, hs);
            }
            "Loop" => {
                let off = u16_at(code, pc + 1).unwrap_or(0);
                rep.branches += 1;
                if off > next {
                    v.problem("bad-target", format!("pc {}: Loop {} jumps before the start of the code", pc, off));
                    continue;
                }
                push_next(&mut work, next - off, h, hs);
            }
            "PushExcHandler" => {
                let a = u16_at(code, pc + 1).unwrap_or(0);
                let b = u16_at(code, pc + 3).unwrap_or(0);
                let catch_pc = next + a;
                let finally_pc = catch_pc + b;
                let mut inner = hs.clone();
                inner.push(Handler { catch_pc, finally_pc, height: h });
                push_next(&mut work, next, h, inner);
                if catch_pc == finally_pc {
                    // no catch block: an exception enters the finally block with the exception value
                    // as an extra slot, one higher than the normal entry (recorded finding E8); that
                    // edge is counted, not explored
                    v.finally_exception_entries += 1;
                    v.has_catchless_handler = true;
                } else {
                    push_next(&mut work, catch_pc, h + 1, hs);
                }
            }
            "PopExcHandler" => {
                let mut inner = hs;
                if inner.pop().is_none() {
                    v.problem("handler-underflow", format!("pc {}: PopExcHandler with no static handler", pc));
                }
                push_next(&mut work, next, h, inner);
            }
            "Throw" => {
                need!(1);
            }
            "JumpFinally" => {
                need!(1);
                let mut inner = hs;
                match inner.pop() {
                    Some(hd) => {
                        if op(*code.get(next).unwrap_or(&255)) != Some("Return") {
                            v.problem("jumpfinally-shape", format!("pc {}: JumpFinally is not followed by Return", pc));
                        }
                        // after the finally block, EndFinally pushes the saved value back and
                        // continues at the Return that follows this instruction
                        push_next(&mut work, next, hd.height + 1, inner.clone());
                        push_next(&mut work, hd.finally_pc, hd.height, inner);
                    }
                    None => v.problem("handler-underflow", format!("pc {}: JumpFinally with no static handler", pc)),
                }
            }
            "EndFinally" => push_next(&mut work, next, h, hs),
            "Call" | "Construct" => {
                need!(byte1 + 1);
                let nh = if name == "Call" { h - byte1 } else { h };
                push_next(&mut work, next, nh, hs);
            }
            "Invoke" | "SuperInvoke" => {
                v.string_const(pc, name);
                let n = code.get(pc + 3).copied().unwrap_or(0) as usize;
                if name == "Invoke" {
                    need!(n + 1);
                    push_next(&mut work, next, h - n, hs);
                } else {
                    need!(n + 2);
                    push_next(&mut work, next, h - n - 1, hs);
                }
            }
            "Closure" => {
                let idx = u16_at(code, pc + 1).unwrap_or(usize::MAX);
                match chunk.constants.get(idx) {
                    Some(Value::ObjFunction(g)) => {
                        for k in 0..g.upvalue_count {
                            let is_local = code[pc + 3 + 2 * k] != 0;
                            let index = code[pc + 4 + 2 * k] as usize;
                            if is_local {
                                // slot h is the closure being created (a local function may capture itself)
                                if index > h {
                                    v.problem("capture-local", format!("pc {}: closure captures local slot {} with only {} live slots", pc, index, h));
                                }
                            } else if index >= f.upvalue_count {
                                v.problem("capture-upvalue", format!("pc {}: closure captures upvalue {} of {}", pc, index, f.upvalue_count));
                            }
                        }
                        v.nested.push((*g, f.upvalue_count));
                    }
                    _ => v.problem("constant-kind", format!("pc {}: Closure names constant {} which is not a function", pc, idx)),
                }
                push_next(&mut work, next, h + 1, hs);
            }
            "Return" => {
                need!(1);
            }
            "StartImport" => {
                v.string_const(pc, name);
                push_next(&mut work, next, h + 2, hs);
            }
            _ => v.problem("decode", format!("pc {}: unhandled instruction {}", pc, name)),
        }
    }
    rep.has_catchless_handler = v.has_catchless_handler;
    out.finally_exception_entries += v.finally_exception_entries;
    out.problems.extend(v.problems.drain(..));
    let nested = std::mem::take(&mut v.nested);
    out.functions.push(rep);
    let mut seen: Vec<usize> = Vec::new();
    for (g, up) in nested {
        let key = g.chunk.code.as_ptr() as usize;
        if seen.contains(&key) {
            continue;
        }
        seen.push(key);
        verify_fn(g, Some((up, 0)), out);
    }
}

/// Verifies a compiled script and every function reachable through its constants.
pub fn verify(script: Gc<ObjFunction>) -> Report {
    let mut out = Report {
        functions: Vec::new(),
        problems: Vec::new(),
        finally_exception_entries: 0,
        opcode_heights: Default::default(),
    };
    verify_fn(script, None, &mut out);
    out
}
