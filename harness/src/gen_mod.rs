//! C14 generator: import graphs over a bounded set of generated modules (DAGs, diamonds, self-loops,
//! longer cycles, missing and uncompilable members), with imports at top level, in functions, in try
//! blocks and under aliases; every module prints a load tag and keeps its own globals.

use std::cell::RefCell;
use std::rc::Rc;

use crate::ast::*;
use crate::rd::Rd;

fn s(x: &str) -> Expr {
    Expr::str(x)
}
fn v(x: &str) -> Expr {
    Expr::var(x)
}

const BAD_SNIPPETS: &[&str] = &["var = 3;\n", "fn f( { }\n", "print(1;\n", "class { }\n", "\"unterminated\n"];

fn guarded_import(path: &str, alias: Option<&str>, counter: &mut usize, then: Vec<Stmt>) -> Stmt {
    *counter += 1;
    let e = format!("ie{}", counter);
    let mut body = vec![Stmt::new(StmtKind::Import(path.to_string(), alias.map(|a| a.to_string())))];
    body.extend(then);
    Stmt::new(StmtKind::Try(
        body,
        Some((e.clone(), vec![Stmt::print(Expr::callv("type", vec![v(&e)]))])),
        None,
    ))
}

fn binding(path: &str, alias: Option<&str>) -> String {
    match alias {
        Some(a) => a.to_string(),
        None => path.rsplit('/').next().unwrap_or(path).to_string(),
    }
}

fn fdef(name: &str, params: &[&str], body: Vec<Stmt>) -> Stmt {
    Stmt::new(StmtKind::Fn(Rc::new(FnDef {
        name: RefCell::new(name.to_string()),
        params: params.iter().map(|p| p.to_string()).collect(),
        body: Body::Block(body),
        kind: FnKind::Function,
    })))
}

/// statements using module object `m` (bound name): attribute reads/writes, calls, identity
fn use_module(rd: &mut Rd, m: &str, labels: &mut Vec<&'static str>) -> Vec<Stmt> {
    let mut out = Vec::new();
    let n = 1 + rd.below(4);
    for _ in 0..n {
        match rd.below(12) {
            0 => out.push(Stmt::print(Expr::get(v(m), "tag"))),
            1 => out.push(Stmt::print(Expr::invoke(v(m), "bump", vec![]))),
            2 => out.push(Stmt::print(Expr::get(v(m), "counter"))),
            3 => {
                labels.push("set_attribute");
                out.push(Stmt::expr(Expr::assign(Target::Prop(v(m), "tag".into()), s("changed"))));
                out.push(Stmt::print(Expr::invoke(v(m), "get_tag", vec![])));
            }
            4 => out.push(Stmt::print(Expr::get(v(m), "missing_member"))),
            5 => out.push(Stmt::print(Expr::invoke(v(m), "uses_builtins", vec![]))),
            6 => out.push(Stmt::print(Expr::invoke(v(m), "reads_importer_global", vec![]))),
            7 => out.push(Stmt::print(v(m))),
            8 | 9 => {
                // a fiber whose body is a function of the other module: after every switch each
                // side sees its own module's globals
                labels.push("module_function_fiber");
                let two = rd.flag();
                let mut b = vec![
                    Stmt::var("mfb", Some(Expr::invoke(v("Fiber"), "new", vec![Expr::get(v(m), "stepper")]))),
                    Stmt::print(Expr::invoke(v("mfb"), "call", vec![s("start")])),
                    Stmt::print(Expr::VecLit(vec![v("tag"), v("counter")])),
                    Stmt::print(Expr::invoke(v("mfb"), "call", vec![s("resumed")])),
                    Stmt::print(Expr::VecLit(vec![v("tag"), v("counter")])),
                ];
                if two {
                    b.push(Stmt::print(Expr::invoke(v("mfb"), "call", vec![])));
                    b.push(Stmt::print(Expr::VecLit(vec![v("tag"), v("counter"), Expr::invoke(v("mfb"), "has_finished", vec![])])));
                }
                b.push(Stmt::print(Expr::get(v(m), "counter")));
                out.push(Stmt::new(StmtKind::Block(b)));
            }
            10 => {
                // a closure of this module called from inside the other module's function
                labels.push("callback_across_modules");
                let l = Expr::Lambda(Rc::new(FnDef {
                    name: RefCell::new(String::new()),
                    params: vec![],
                    body: Body::Expr(Box::new(Expr::VecLit(vec![v("tag"), v("counter")]))),
                    kind: FnKind::Lambda,
                }));
                out.push(Stmt::print(Expr::invoke(v(m), "apply", vec![l])));
                out.push(Stmt::print(Expr::VecLit(vec![v("tag"), v("counter")])));
            }
            _ => {
                // an exception raised inside the other module's function, caught here
                labels.push("throw_across_modules");
                out.push(Stmt::new(StmtKind::Try(
                    vec![Stmt::print(Expr::invoke(v(m), "fails", vec![s("boom")]))],
                    Some(("xe".into(), vec![Stmt::print(Expr::VecLit(vec![v("xe"), v("tag"), v("counter")]))])),
                    if rd.flag() { Some(vec![Stmt::print(Expr::VecLit(vec![s("finally"), v("tag")]))]) } else { None },
                )));
                out.push(Stmt::print(Expr::VecLit(vec![v("tag"), v("counter")])));
            }
        }
    }
    out
}

pub fn program(data: &[u8]) -> (Program, Vec<&'static str>) {
    program_opts(data, true)
}

/// `rebind_builtins`: main and modules may replace `type` / `print` for themselves (not wanted where
/// the check itself observes errors through `type`, as C17's twin programs do)
pub fn program_opts(data: &[u8], rebind_builtins: bool) -> (Program, Vec<&'static str>) {
    let mut rd = Rd::new(data, 10_000);
    let mut labels: Vec<&'static str> = Vec::new();
    let mut counter = 0usize;
    let nmods = 1 + rd.below(6);
    // (one graph in four calls its first module "core", the name of the interpreter's own library
    // source: a user module of that name is a module like any other)
    let core_named = rd.chance(1, 4);
    let paths: Vec<String> = (0..nmods)
        .map(|i| if i == 0 && core_named { "core".to_string() } else if i % 3 == 2 { format!("lib/m{}", i) } else { format!("m{}", i) })
        .collect();
    // what each module path is: good, bad (does not compile), or missing
    let mut kinds: Vec<u8> = Vec::new();
    for _ in 0..nmods {
        kinds.push(match rd.below(10) {
            0 => 1, // bad
            1 => 2, // missing
            _ => 0,
        });
    }
    let mut modules: Vec<(String, ModuleSrc)> = Vec::new();
    for i in 0..nmods {
        if kinds[i] == 2 {
            continue;
        }
        if kinds[i] == 1 {
            labels.push("bad_module");
            modules.push((paths[i].clone(), ModuleSrc::Bad(rd.pick_str(BAD_SNIPPETS).to_string())));
            continue;
        }
        let mut body: Vec<Stmt> = Vec::new();
        body.push(Stmt::print(s(&format!("load {}", paths[i]))));
        body.push(Stmt::var("tag", Some(s(&format!("tag of {}", paths[i])))));
        body.push(Stmt::var("counter", Some(Expr::Num(i as f64 * 10.0))));
        if rd.chance(1, 10) && rebind_builtins {
            // the module replaces a built-in for itself: nobody else may notice
            labels.push("module_rebinds_builtin");
            body.push(fdef("type", &["x"], vec![Stmt::new(StmtKind::Return(Some(s(&format!("type as {} sees it", paths[i])))))]));
        }
        body.push(fdef(
            "bump",
            &[],
            vec![
                Stmt::expr(Expr::assign_var("counter", Expr::bin(BinOp::Add, v("counter"), Expr::Num(1.0)))),
                Stmt::new(StmtKind::Return(Some(v("counter")))),
            ],
        ));
        body.push(fdef("get_tag", &[], vec![Stmt::new(StmtKind::Return(Some(v("tag"))))]));
        body.push(fdef(
            "uses_builtins",
            &[],
            vec![Stmt::new(StmtKind::Return(Some(Expr::VecLit(vec![
                Expr::callv("type", vec![Expr::Num(1.0)]),
                Expr::invoke(v("Error"), "new", vec![s("e")]),
                Expr::invoke(Expr::invoke(Expr::VecLit(vec![Expr::Num(1.0)]), "iter", vec![]), "collect", vec![]),
                Expr::bin(BinOp::Eq, Expr::callv("type", vec![Expr::invoke(v("StopIter"), "new", vec![])]), v("StopIter")),
            ]))))],
        ));
        // a function used as a fiber body by importers: touches this module's globals around a yield
        body.push(fdef(
            "stepper",
            &["a"],
            vec![
                Stmt::expr(Expr::assign_var("counter", Expr::bin(BinOp::Add, v("counter"), Expr::Num(1.0)))),
                Stmt::var("got", Some(Expr::invoke(v("Fiber"), "yield", vec![Expr::VecLit(vec![v("tag"), v("counter"), v("a")])]))),
                Stmt::expr(Expr::assign_var("counter", Expr::bin(BinOp::Add, v("counter"), Expr::Num(100.0)))),
                Stmt::var("got2", Some(Expr::invoke(v("Fiber"), "yield", vec![Expr::VecLit(vec![v("tag"), v("counter"), v("got")])]))),
                Stmt::new(StmtKind::Return(Some(Expr::VecLit(vec![v("tag"), v("counter"), v("got2")])))),
            ],
        ));
        body.push(fdef(
            "apply",
            &["f"],
            vec![
                Stmt::var("r", Some(Expr::callv("f", vec![]))),
                Stmt::new(StmtKind::Return(Some(Expr::VecLit(vec![v("r"), v("tag"), v("counter")])))),
            ],
        ));
        body.push(fdef(
            "fails",
            &["x"],
            vec![
                Stmt::expr(Expr::assign_var("counter", Expr::bin(BinOp::Add, v("counter"), Expr::Num(1.0)))),
                Stmt::new(StmtKind::Throw(Expr::VecLit(vec![v("x"), v("tag")]))),
            ],
        ));
        // a global that exists only in the importer must not be visible here
        body.push(fdef("reads_importer_global", &[], vec![Stmt::new(StmtKind::Return(Some(v("only_in_main"))))]));
        // imports of other modules (any index: forward edges make DAGs, backward and self edges cycles)
        let nimp = rd.below(3);
        for _ in 0..nimp {
            let j = rd.below(nmods);
            if j == i {
                labels.push("self_import");
            } else if j < i {
                labels.push("back_edge");
            }
            let alias = if rd.chance(1, 4) { Some(format!("al{}", j)) } else { None };
            let b = binding(&paths[j], alias.as_deref());
            let uses = if kinds[j] == 0 { use_module(&mut rd, &b, &mut labels) } else { vec![] };
            if rd.chance(1, 3) {
                // inside a function, called right away or later from main
                counter += 1;
                let f = format!("load{}", counter);
                let mut fb = vec![guarded_import(&paths[j], alias.as_deref(), &mut counter, uses)];
                fb.push(Stmt::new(StmtKind::Return(Some(s("loaded")))));
                body.push(fdef(&f, &[], fb));
                if rd.flag() {
                    body.push(Stmt::print(Expr::callv(&f, vec![])));
                }
                labels.push("import_in_function");
            } else {
                body.push(guarded_import(&paths[j], alias.as_deref(), &mut counter, uses));
            }
        }
        if rd.chance(1, 8) {
            // a module whose top-level code fails part-way: an unguarded import (a cycle or a missing
            // module raises here) or a plain throw; its importers catch the error, and importing it
            // again must not run its top-level code a second time
            labels.push("module_body_fails");
            if rd.flag() {
                let j = rd.below(nmods);
                body.push(Stmt::new(StmtKind::Import(paths[j].clone(), None)));
            } else {
                body.push(Stmt::new(StmtKind::Throw(s(&format!("failure in {}", paths[i])))));
            }
        }
        body.push(Stmt::print(s(&format!("loaded {}", paths[i]))));
        modules.push((paths[i].clone(), ModuleSrc::Ast(body)));
    }
    // main
    let mut main: Vec<Stmt> = Vec::new();
    main.push(Stmt::var("tag", Some(s("tag of main"))));
    main.push(Stmt::var("counter", Some(Expr::Num(1000.0))));
    main.push(Stmt::var("only_in_main", Some(s("main only"))));
    if rd.chance(1, 6) && rebind_builtins {
        // main replaces built-ins for its own purposes before anything is imported: every module
        // must still get the real ones
        labels.push("main_rebinds_builtin");
        if rd.flag() {
            main.push(fdef("type", &["x"], vec![Stmt::new(StmtKind::Return(Some(s("type as main sees it"))))]));
        }
        if rd.flag() {
            main.push(Stmt::var("real_print", Some(v("print"))));
            main.push(fdef("print", &["x"], vec![Stmt::expr(Expr::callv("real_print", vec![Expr::VecLit(vec![s("main prints"), v("x")])]))]));
        }
    }
    let nimp = 1 + rd.below(6);
    let mut bound: Vec<(String, usize)> = Vec::new();
    for _ in 0..nimp {
        let j = rd.below(nmods);
        let alias = if rd.chance(1, 4) { Some(format!("ma{}", rd.below(3))) } else { None };
        let b = binding(&paths[j], alias.as_deref());
        let uses = if kinds[j] == 0 { use_module(&mut rd, &b, &mut labels) } else { vec![] };
        match rd.below(4) {
            0 => {
                counter += 1;
                let f = format!("mload{}", counter);
                let mut fb = vec![guarded_import(&paths[j], alias.as_deref(), &mut counter, uses)];
                fb.push(Stmt::new(StmtKind::Return(Some(s("loaded")))));
                main.push(fdef(&f, &[], fb));
                main.push(Stmt::print(Expr::callv(&f, vec![])));
                if rd.flag() {
                    main.push(Stmt::print(Expr::callv(&f, vec![])));
                    labels.push("import_twice");
                }
                labels.push("import_in_function");
            }
            1 if kinds[j] == 0 => {
                // unguarded top-level import of a module that exists
                main.push(Stmt::new(StmtKind::Import(paths[j].clone(), alias.clone())));
                main.extend(uses);
                bound.push((b.clone(), j));
            }
            2 if rd.chance(1, 2) => {
                // an import that may fail inside try/finally, with another import in the finally
                // block: the failure passes through the finally block and reaches the outer handler
                labels.push("import_in_finally");
                counter += 1;
                let e = format!("ie{}", counter);
                let k = rd.below(nmods);
                // (the import of the finally block happens in a helper function: a name declared in a
                // finally block that an exception entered is recorded finding E8)
                let helper = format!("finload{}", counter);
                main.push(fdef(
                    &helper,
                    &[],
                    vec![
                        Stmt::new(StmtKind::Import(paths[k].clone(), Some("finmod".to_string()))),
                        Stmt::new(StmtKind::Return(Some(Expr::get(v("finmod"), "tag")))),
                    ],
                ));
                let inner = Stmt::new(StmtKind::Try(
                    vec![Stmt::new(StmtKind::Import(paths[j].clone(), alias.clone())), Stmt::print(s("import in try block done"))],
                    None,
                    Some(vec![Stmt::print(Expr::callv(&helper, vec![])), Stmt::print(s("finally block done"))]),
                ));
                main.push(Stmt::new(StmtKind::Try(
                    vec![inner, Stmt::print(s("after try/finally"))],
                    Some((e.clone(), vec![Stmt::print(Expr::callv("type", vec![v(&e)]))])),
                    None,
                )));
            }
            _ => {
                main.push(guarded_import(&paths[j], alias.as_deref(), &mut counter, uses));
            }
        }
        // main's own globals are untouched by whatever the modules did
        if rd.chance(1, 2) {
            main.push(Stmt::print(Expr::VecLit(vec![v("tag"), v("counter")])));
        }
    }
    // identity: two bindings of the same module are the same object
    for a in 0..bound.len() {
        for b in (a + 1)..bound.len() {
            if bound[a].1 == bound[b].1 || rd.chance(1, 3) {
                main.push(Stmt::print(Expr::bin(BinOp::Eq, v(&bound[a].0), v(&bound[b].0))));
                labels.push("module_identity");
            }
        }
    }
    main.push(Stmt::print(Expr::VecLit(vec![v("tag"), v("counter"), v("only_in_main")])));
    (Program { main, modules }, labels)
}
