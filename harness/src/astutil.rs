//! AST passes: lambda naming (yarel names lambdas `lambda-N`, N counting within the enclosing
//! function in source order).

use crate::ast::*;

struct Namer {
    counters: Vec<usize>,
}

impl Namer {
    fn stmts(&mut self, ss: &[Stmt]) {
        for s in ss {
            self.stmt(s);
        }
    }
    fn func(&mut self, f: &FnDef) {
        self.counters.push(0);
        match &f.body {
            Body::Block(b) => self.stmts(b),
            Body::Expr(e) => self.expr(e),
        }
        self.counters.pop();
    }
    fn stmt(&mut self, s: &Stmt) {
        match &s.kind {
            StmtKind::Expr(e) | StmtKind::Throw(e) => self.expr(e),
            StmtKind::Var(_, e) => {
                if let Some(e) = e {
                    self.expr(e)
                }
            }
            StmtKind::Return(e) => {
                if let Some(e) = e {
                    self.expr(e)
                }
            }
            StmtKind::Fn(f) => self.func(f),
            StmtKind::Class(c) => {
                for m in &c.methods {
                    self.func(m);
                }
            }
            StmtKind::Block(b) => self.stmts(b),
            StmtKind::If(c, t, e) => {
                self.expr(c);
                self.stmts(t);
                if let Some(e) = e {
                    self.stmt(e);
                }
            }
            StmtKind::While(c, b) => {
                self.expr(c);
                self.stmts(b);
            }
            StmtKind::For(_, it, b) => {
                self.expr(it);
                self.stmts(b);
            }
            StmtKind::Try(b, c, f) => {
                self.stmts(b);
                if let Some((_, cb)) = c {
                    self.stmts(cb);
                }
                if let Some(fb) = f {
                    self.stmts(fb);
                }
            }
            StmtKind::Break | StmtKind::Continue | StmtKind::Import(..) => {}
        }
    }
    fn target(&mut self, t: &Target) {
        match t {
            Target::Var(_) => {}
            Target::Prop(o, _) => self.expr(o),
            Target::Index(o, i) => {
                self.expr(o);
                self.expr(i);
            }
        }
    }
    fn expr(&mut self, e: &Expr) {
        match e {
            Expr::Nil | Expr::True | Expr::False | Expr::Num(_) | Expr::Str(_) | Expr::Var(..) | Expr::SelfE
            | Expr::CapSelf | Expr::SuperGet(..) => {}
            Expr::Interp(parts) => {
                for p in parts {
                    if let Part::Ex(x) = p {
                        self.expr(x);
                    }
                }
            }
            Expr::Assign(t, v, _) | Expr::Compound(t, _, v, _, _) => {
                self.target(t);
                self.expr(v);
            }
            Expr::Unary(_, a, _) | Expr::Paren(a) => self.expr(a),
            Expr::Binary(_, a, b, _) | Expr::And(a, b) | Expr::Or(a, b) | Expr::Range(a, b, _) | Expr::Index(a, b, _) => {
                self.expr(a);
                self.expr(b);
            }
            Expr::Call(f, args, _) => {
                self.expr(f);
                for a in args {
                    self.expr(a);
                }
            }
            Expr::Invoke(o, _, args, _) => {
                self.expr(o);
                for a in args {
                    self.expr(a);
                }
            }
            Expr::Get(o, _, _) => self.expr(o),
            Expr::VecLit(es) | Expr::TupleLit(es) | Expr::SuperInvoke(_, es, _) => {
                for a in es {
                    self.expr(a);
                }
            }
            Expr::MapLit(kvs, _) => {
                for (k, v) in kvs {
                    self.expr(k);
                    self.expr(v);
                }
            }
            Expr::Lambda(f) => {
                let n = self.counters.last_mut().unwrap();
                *f.name.borrow_mut() = format!("lambda-{}", *n);
                *n += 1;
                self.func(f);
            }
        }
    }
}

pub fn fix_lambda_names(p: &Program) {
    let mut n = Namer { counters: vec![0] };
    n.stmts(&p.main);
    for (_, m) in &p.modules {
        if let ModuleSrc::Ast(b) = m {
            let mut n = Namer { counters: vec![0] };
            n.stmts(b);
        }
    }
}
