//! C02 — running a program never panics, crashes or corrupts memory: every failure is a reported,
//! catchable error value.

use crate::engine::*;
use crate::gen;
use crate::profiles;
use crate::props::c03::sig_of_panic;
use crate::rd::{fnv64, Rd};
use crate::yrun::{self, End, GcCfg, RunCfg};

pub struct C02;

const PREAMBLE: &str = r#"#[constructor(new)]
class U { fn m(self) { return 1; } #[static] fn s() { return 2; } fn two(self, a, b) { return a; } }
#[constructor(new), derive(Iter)]
class It { fn next(self) { return StopIter.new(); } }
#[constructor(new), derive(Error)]
class MyErr { }
var selfvec = []; selfvec.push(selfvec);
var selfmap = {}; selfmap.insert(1, selfmap);
var selfvec2 = []; selfvec2.push(selfvec2); selfvec2.push([selfvec2, selfvec2]);
var selfmap2 = {}; selfmap2.insert(1, selfmap2); selfmap2.insert(2, selfmap2); selfmap2.insert(3, [selfmap2]);
var cycv = []; var cycm = {1: cycv, 2: cycv}; cycv.push(cycm); cycv.push(cycm); cycv.push((cycm, cycv));
var cycinst = U.new(); cycinst.me = [cycinst, cycinst]; cycinst.map = {1: cycinst};
var fnew = Fiber.new(|| 1);
var fone = Fiber.new(|a| a);
var fsusp = Fiber.new(|| { Fiber.yield(1); Fiber.yield(2); });
fsusp.call();
var fdone = Fiber.new(|| 1);
fdone.call();
var itfresh = [1, 2].iter();
var itdone = [].iter();
itdone.next();
var inst = U.new();
var err = Error.new("x");
var stop = StopIter.new();
var lam = |a| a;
var lam0 = || 1;
var lam2 = |a, b| [a, b];
var bm = inst.m;
var bn = [1].push;
var mapit = [1, 2].iter().map(lam);
var big = "ab".replace("b", "bcdefghijklmnopqrstuvwxyz").replace("c", "cccccccccccccccc");
var tupvec = (1, "two", [3]);
var tupnest = ((1, (2, [3])), 4);
var tupmap = ({1: 2}, 1);
var sharedmap = {"a": 1, (1, 2): 3};
var sharedvec = [1, (2,), "x"];
import "m0" as modv;
"#;

const MODULE: &str = "var val = [1];\nfn get() { return val; }\n";

const POOL: &[&str] = &[
    "nil", "true", "false", "0", "-0", "1", "-1", "2", "0.5", "(0 / 0)", "(1 / 0)", "(-1 / 0)", "9007199254740992",
    "9223372036854775808", "-9223372036854775808", "(1e308 * 10)", "255", "256", "65536", "\"\"", "\"a\"", "\"é\"", "\"€😀\"",
    "\"hello world\"", "\"12\"", "big", "[]", "[1]", "[[1, [2]]]", "[nil, \"a\", 2]", "()", "(1,)", "((1,), 2)", "{}", "{1: 2}",
    "selfvec", "selfmap", "(0..0)", "(3..0)", "(0..3)", "(-9223372036854775808..9223372036854775807)", "lam", "lam0", "lam2",
    "print", "type", "bm", "bn", "U", "Num", "String", "Fiber", "Vec", "Object", "Type", "Error", "StopIter", "It", "inst",
    "It.new()", "MyErr.new()", "fnew", "fone", "fsusp", "fdone", "itfresh", "itdone", "mapit", "modv", "stop", "err",
    "tupvec", "tupnest", "tupmap", "sharedmap", "sharedvec", "\"a\".iter()", "(1, 2).iter()", "(0..2).iter()", "U.s", "String.from", "Fiber.yield", "[1].len", "type(U)", "type(type(U))",
];

const NAMES: &[&str] = &[
    "len", "push", "pop", "iter", "next", "map", "filter", "reduce", "collect", "m", "s", "two", "new", "call", "yield",
    "has_finished", "context", "foo", "derives", "get", "insert", "remove", "has_key", "clear", "keys", "values", "items",
    "find", "replace", "split", "starts_with", "ends_with", "to_num", "to_bytes", "to_code_points", "is_alpha", "is_digit",
    "is_hexdigit", "count_chars", "char_byte_index", "from", "from_ascii", "from_utf8", "from_code_points", "val", "v",
];

/// values that reach themselves along more than one path; used only where a value is turned into
/// text or inspected, never as operands of `==` (recorded finding P1: comparing two distinct cyclic
/// containers recurses without bound)
const CYCLIC: &[&str] = &["selfvec2", "selfmap2", "cycv", "cycm", "cycinst", "cycinst.me", "cycinst.map", "[cycv, cycv]", "(selfmap2, selfmap2)", "{1: selfvec2, 2: selfvec2}"];

const STRS: &[&str] = &["\"\"", "\"a\"", "\"é\"", "\"€😀\"", "\"hello world\"", "\"12\"", "big", "\"héllo!\"", "\"lo\"", "\"o w\"", "\"ab\"", "\" \"", "\"héllo\"", "\"-0\"", "\"1e5\"", "\"0x10\""];
const INTS: &[&str] = &["0", "-0", "1", "-1", "2", "3", "5", "-2", "11", "12", "255", "256", "-12"];
const WILD: &[&str] = &["0.5", "(0 / 0)", "(1 / 0)", "9007199254740992", "9223372036854775808", "-9223372036854775808", "nil", "true"];
const VECS: &[&str] = &["[]", "[1]", "[104, 105]", "[233]", "[195, 169]", "[72, 300, nil]", "[195]", "[55296]", "[1114112]", "[-1]", "[0.5]", "[1, [2]]", "selfvec", "sharedvec", "[\"a\", \"b\"]"];
const FUNS: &[&str] = &["lam", "lam0", "lam2", "print", "bm", "U.s", "String.from", "type"];
const TUPS: &[&str] = &["()", "(1,)", "((1,), 2)", "tupvec", "tupnest"];
const MAPS: &[&str] = &["{}", "{1: 2}", "{\"a\": 1, (1, 2): 3}", "selfmap"];
const RANGES: &[&str] = &["(0..0)", "(3..0)", "(0..3)", "(-2..2)", "(1..2)"];
const FIBS: &[&str] = &["fnew", "fone", "fsusp", "fdone", "Fiber.new(|| 1)", "Fiber.new(|a| a)"];
const ITERS: &[&str] = &["itfresh", "itdone", "mapit", "\"aé\".iter()", "(1, 2).iter()", "(0..2).iter()", "[1, 2, 3].iter()", "(3..0).iter()"];

/// (receiver pool, method, argument kinds): s string, i small integer, v vec, f function, a anything
const TYPED: &[(&[&str], &str, &str)] = &[
    (STRS, "len", ""), (STRS, "count_chars", ""), (STRS, "char_byte_index", "i"), (STRS, "find", "si"), (STRS, "find", "s"),
    (STRS, "replace", "ss"), (STRS, "split", "s"), (STRS, "starts_with", "s"), (STRS, "ends_with", "s"), (STRS, "to_num", ""),
    (STRS, "to_bytes", ""), (STRS, "to_code_points", ""), (STRS, "is_alpha", ""), (STRS, "is_digit", ""), (STRS, "is_hexdigit", ""),
    (STRS, "iter", ""), (&["String"], "from", "a"), (&["String"], "from_ascii", "v"), (&["String"], "from_utf8", "v"),
    (&["String"], "from_code_points", "v"), (VECS, "len", ""), (VECS, "push", "a"), (VECS, "pop", ""), (VECS, "iter", ""),
    (TUPS, "len", ""), (TUPS, "iter", ""), (MAPS, "get", "a"), (MAPS, "insert", "aa"), (MAPS, "remove", "a"), (MAPS, "has_key", "a"),
    (MAPS, "clear", ""), (MAPS, "keys", ""), (MAPS, "values", ""), (MAPS, "items", ""), (MAPS, "len", ""), (RANGES, "iter", ""),
    (FIBS, "call", ""), (FIBS, "call", "a"), (FIBS, "has_finished", ""), (&["Fiber"], "new", "f"), (&["Fiber"], "yield", "a"),
    (ITERS, "next", ""), (ITERS, "map", "f"), (ITERS, "filter", "f"), (ITERS, "reduce", "fa"), (ITERS, "collect", ""),
    (&["inst", "U.new()"], "two", "aa"), (&["inst"], "derives", "a"), (&["modv"], "get", ""),
];

const BINOPS: &[&str] = &["+", "-", "*", "/", "%", "&", "|", "^", "<<", ">>", "==", "!=", "<", "<=", ">", ">=", "&&", "||", ".."];

fn adversarial(bytes: &[u8], triggers: bool) -> (String, usize) {
    adversarial_with(bytes, triggers, false)
}

/// The same programs for the build-configuration matrix (C10): maps that keep entries between
/// operations are left out of the pool, because an object used as a key hashes by its address and
/// the printed order of such a map legitimately differs between two processes.
pub fn matrix_program(bytes: &[u8]) -> (String, Vec<(String, String)>) {
    let (src, _) = adversarial_with(bytes, false, true);
    (src, vec![("m0".to_string(), MODULE.to_string())])
}

fn adversarial_with(bytes: &[u8], triggers: bool, stable: bool) -> (String, usize) {
    let mut rd = Rd::new(bytes, 100_000);
    let mut s = String::from(PREAMBLE);

    let n = 8 + rd.below(40);
    let pool: Vec<&str> = if stable { POOL.iter().copied().filter(|p| *p != "sharedmap" && *p != "selfmap").collect() } else { POOL.to_vec() };
    let mut ops = 0;
    for i in 0..n {
        if rd.exhausted() {
            break;
        }
        let v = |rd: &mut Rd| pool[rd.below(pool.len())].to_string();
        let args = |rd: &mut Rd| {
            let k = rd.below(4);
            (0..k).map(|_| pool[rd.below(pool.len())].to_string()).collect::<Vec<_>>().join(", ")
        };
        let typed_arg = |rd: &mut Rd, k: u8| -> String {
            // mostly a value of the kind the method expects, so that the call gets past the native's
            // argument validation and into its logic; sometimes anything at all
            if rd.chance(1, 6) {
                return pool[rd.below(pool.len())].to_string();
            }
            match k {
                b's' => rd.pick_str(STRS).to_string(),
                b'i' => {
                    if rd.chance(1, 5) {
                        rd.pick_str(WILD).to_string()
                    } else {
                        rd.pick_str(INTS).to_string()
                    }
                }
                b'v' => rd.pick_str(VECS).to_string(),
                b'f' => rd.pick_str(FUNS).to_string(),
                _ => match rd.below(6) {
                    0 => rd.pick_str(STRS).to_string(),
                    1 => rd.pick_str(INTS).to_string(),
                    2 => rd.pick_str(VECS).to_string(),
                    3 => rd.pick_str(TUPS).to_string(),
                    _ => pool[rd.below(pool.len())].to_string(),
                },
            }
        };
        let op = match rd.below(21) {
            16 | 17 | 18 => {
                // a call that respects the method's signature: receiver of the right class, arguments
                // of the expected kinds (one in six replaced by an arbitrary value, one call in eight
                // with an argument too few or too many)
                let (recv, name, kinds) = TYPED[rd.below(TYPED.len())];
                let r = rd.pick_str(recv);
                let mut a: Vec<String> = kinds.bytes().map(|k| typed_arg(&mut rd, k)).collect();
                if rd.chance(1, 8) {
                    if rd.flag() && !a.is_empty() {
                        a.pop();
                    } else {
                        a.push(pool[rd.below(pool.len())].to_string());
                    }
                }
                if rd.chance(1, 4) {
                    // through a chain: the result of one call is the receiver of the next
                    let (_, name2, kinds2) = TYPED[rd.below(TYPED.len())];
                    let a2: Vec<String> = kinds2.bytes().map(|k| typed_arg(&mut rd, k)).collect();
                    format!("print({}.{}({}).{}({}));", r, name, a.join(", "), name2, a2.join(", "))
                } else {
                    format!("print({}.{}({}));", r, name, a.join(", "))
                }
            }
            19 | 20 if !stable => {
                // values that contain themselves along several paths, turned into text or inspected
                let x = rd.pick_str(CYCLIC);
                match rd.below(10) {
                    0 => format!("print({});", x),
                    1 => format!("print(String.from({}).len() > 0);", x),
                    2 => format!("print(\"<${{{}}}>\".len() > 0);", x),
                    3 => format!("print({{}}.insert({}, 1));", x),
                    4 => format!("print({{{}: 1}});", x),
                    5 => format!("for cx{} in {} {{ print(cx{}); }}", i, x, i),
                    6 => format!("throw {};", x),
                    7 => format!("print([{}, {}].len()); print(({}, 1));", x, x, x),
                    8 => format!("print({}.len()); print(type({}));", x, x),
                    _ => format!("print({} + 1);", x),
                }
            }
            19 | 20 => format!("print({} {} {});", v(&mut rd), rd.pick_str(BINOPS), v(&mut rd)),
            0 | 1 => format!("print({} {} {});", v(&mut rd), rd.pick_str(BINOPS), v(&mut rd)),
            2 => format!("print({}{});", rd.pick_str(&["-", "!", "~"]), v(&mut rd)),
            3 => format!("print({}[{}]);", v(&mut rd), v(&mut rd)),
            4 => format!("print({}[{}..{}]);", v(&mut rd), v(&mut rd), v(&mut rd)),
            5 | 6 | 7 => format!("print({}.{}({}));", v(&mut rd), rd.pick_str(NAMES), args(&mut rd)),
            8 => format!("print({}.{});", v(&mut rd), rd.pick_str(NAMES)),
            9 if rd.flag() => {
                // the receiver is also (inside) an argument
                let x = v(&mut rd);
                let wrap = match rd.below(4) {
                    0 => format!("[{}]", x),
                    1 => format!("({}, 1)", x),
                    _ => x.clone(),
                };
                let extra = if rd.flag() { format!(", {}", v(&mut rd)) } else { String::new() };
                format!("print({}.{}({}{}));", x, rd.pick_str(NAMES), wrap, extra)
            }
            9 => format!("{}.{} = {};", v(&mut rd), rd.pick_str(NAMES), v(&mut rd)),
            10 => format!("print({}({}));", v(&mut rd), args(&mut rd)),
            11 => format!("for x{} in {} {{ print(x{}); break; }}", i, v(&mut rd), i),
            12 => format!("throw {};", v(&mut rd)),
            13 => format!("print(\"<${{{}}}|${{{}}}>\");", v(&mut rd), v(&mut rd)),
            14 => match rd.below(5) {
                0 => format!("print({{{}: 1}});", v(&mut rd)),
                1 => format!("print({{}}.insert({}, {}));", v(&mut rd), v(&mut rd)),
                2 => format!("print({{1: 2}}.get({}));", v(&mut rd)),
                3 if !stable => {
                    // a shared map: keys that failed once are tried again later
                    let k = v(&mut rd);
                    match rd.below(4) {
                        0 => format!("print(sharedmap.insert({}, {}));", k, i),
                        1 => format!("print(sharedmap.has_key({}));", k),
                        2 => format!("print(sharedmap.remove({}));", k),
                        _ => format!("print(sharedmap.get({})); print(sharedmap.len());", k),
                    }
                }
                _ => format!("var vv{} = [0]; vv{}[{}] = {}; print(vv{});", i, i, v(&mut rd), v(&mut rd), i),
            },
            _ => {
                // a class deriving from a pool variable (identifier only)
                let sup = if triggers {
                    rd.pick_str(&["U", "It", "Error", "Object", "lam", "inst", "fnew", "modv", "String", "Vec", "HashMap", "Fiber", "Tuple", "Range", "Num"])
                } else {
                    rd.pick_str(&["U", "It", "Error", "Object", "MyErr", "Iter", "lam", "inst", "fnew", "modv", "selfvec", "bm", "stop"])
                };
                format!(
                    "#[constructor(new), derive({})] class D{} {{ }} var d{} = D{}.new(); print(d{}.{}({}));",
                    sup, i, i, i, i, rd.pick_str(NAMES), args(&mut rd)
                )
            }
        };
        s.push_str(&format!("try {{ {} print(\"ok {}\"); }} catch e{} {{ print(type(e{})); }}\n", op, i, i, i));
        ops += 1;
        if !op.starts_with("#[") && !op.starts_with("var ") && !op.starts_with("for ") && rd.below(6) == 0 {
            // the same operation again: a failure must not leave its operands in a state in which
            // the second attempt behaves differently in kind (panic instead of error)
            s.push_str(&format!("try {{ {} print(\"again {}\"); }} catch r{} {{ print(type(r{})); }}\n", op, i, i, i));
            ops += 1;
        }
    }
    s.push_str("print(1 + 1);\nprint(\"sentinel\");\n");
    if !stable && rd.chance(1, 10) {
        // after the sentinel the program ends in an uncaught error whose report has to describe an
        // awkward value: an error whose context is itself or a longer cycle, a self-containing vector
        // or map, a user error with a container or an instance as context, an empty context
        // ... or an error that travels through call frames and finally-only handlers of callers before
        // it ends the run: thrown by a callee, raised by a built-in in a callee, through two levels,
        // inside a fiber, and caught and thrown again
        let tail = match rd.below(12) {
            7 => "var ucount = 0; fn uthrow() { throw Error.new(\"from a callee\"); } fn ucleanup() { try { uthrow(); } finally { ucount = ucount + 1; } } ucleanup();",
            8 => "var ucount = 0; fn ubad() { return nil + 1; } fn ucleanup() { try { ubad(); } finally { ucount = ucount + 1; } } ucleanup();",
            9 => "var ucount = 0; fn uthrow() { throw \"plain value from two frames down\"; } fn umid() { try { uthrow(); } finally { ucount = ucount + 1; } } fn uouter() { try { umid(); } finally { ucount = ucount + 10; } } uouter();",
            10 => "var ucount = 0; fn uthrow() { throw Error.new(\"in a fiber\"); } var ufib = Fiber.new(|| { try { uthrow(); } finally { ucount = ucount + 1; } }); ufib.call();",
            11 => "fn uthrow() { throw Error.new(\"thrown again\"); } fn uagain() { try { uthrow(); } catch ue { throw ue; } } uagain();",
            0 => "var ue = Error.new(\"x\"); ue.context = ue; throw ue;",
            1 => "var ua = MyErr.new(); var ub = MyErr.new(); ua.context = ub; ub.context = ua; throw ua;",
            2 => "throw selfvec2;",
            3 => "throw cycm;",
            4 => "var uc = Error.new(selfmap2); throw uc;",
            5 => "throw Error.new(\"\");",
            _ => "var ud = MyErr.new(); ud.context = [ud, cycinst]; throw ud;",
        };
        s.push_str(tail);
        s.push('\n');
    }
    (s, ops)
}

/// recursion to and past the frame limit with `temps` live temporaries per frame
pub fn depth_program(bytes: &[u8], triggers: bool) -> String {
    let mut rd = Rd::new(bytes, 1000);
    let depth = 55 + rd.below(20);
    let temps = if triggers { 200 + rd.below(55) } else { rd.below(200) };
    let kind = rd.below(4);
    let mut s = String::new();
    let list: String = (0..temps).map(|k| format!("{}", k)).collect::<Vec<_>>().join(", ");
    match kind {
        0 => {
            // temporaries held in an argument list while recursing
            s.push_str(&format!("fn pad({}) {{ return 0; }}\n", (0..temps).map(|k| format!("p{}", k)).collect::<Vec<_>>().join(", ")));
            if triggers {
                // two argument lists live at once: more than 256 slots per frame
                s.push_str(&format!("fn rec(n) {{ if n == 0 {{ return 0; }} return pad({}) + [{}, rec(n - 1)].len(); }}\n", list, list));
                s = s.replace(&format!("pad({}) +", list), &format!("[pad({}),", list)).replace("rec(n - 1)].len(); }", "rec(n - 1)].len()].len(); }");
            } else {
                s.push_str("fn rec(n) { if n == 0 { return 0; } return [");
                s.push_str(&list);
                s.push_str(if temps > 0 { ", rec(n - 1)].len(); }\n" } else { "rec(n - 1)].len(); }\n" });
            }
        }
        1 => {
            s.push_str("#[constructor(new)] class R { fn rec(self, n) { if n == 0 { return 0; } return self.rec(n - 1) + 1; } }\nfn rec(n) { return R.new().rec(n); }\n");
        }
        2 => {
            s.push_str("fn rec(n) { if n == 0 { return 0; } var f = Fiber.new(|| rec(n - 1)); return f.call() + 1; }\n");
        }
        _ => {
            s.push_str("fn rec(n) { if n == 0 { return 0; } try { return rec(n - 1) + 1; } finally { var z = n; } }\n");
        }
    }
    s.push_str(&format!("try {{ print(rec({})); }} catch e {{ print(type(e)); }}\n", depth));
    s.push_str(&format!("try {{ print(rec({})); }} catch e2 {{ print(type(e2)); }}\n", depth / 2));
    s.push_str("print(\"sentinel\");\n");
    s
}

impl C02 {
    fn source(&self, family: &str, bytes: &[u8]) -> Option<(String, usize)> {
        if family.starts_with("pinned:") {
            return Some((String::from_utf8_lossy(bytes).to_string(), 0));
        }
        Some(match family {
            "adversarial" => adversarial(bytes, false),
            "adversarial_triggers" => adversarial(bytes, true),
            "depth" => (depth_program(bytes, false), 2),
            "depth_triggers" => (depth_program(bytes, true), 2),
            "illtyped" => {
                let mut p = profiles::mixed();
                p.illtyped = 8;
                p.guard = 14;
                let (prog, _) = gen::program(bytes, p);
                let r = crate::prelude::run_program(&prog, &crate::prelude::RefCfg::default());
                if matches!(r.end, crate::prelude::RefEnd::Discard(_)) || !crate::props::diffprop::trigger_suffix(&r.events).is_empty() {
                    return None;
                }
                crate::astutil::fix_lambda_names(&prog);
                let mut src = crate::pretty::render(&prog.main);
                src.push_str("print(\"sentinel\");\n");
                (src, 0)
            }
            _ => return None,
        })
    }
}

impl Property for C02 {
    fn id(&self) -> &'static str {
        "C02"
    }

    fn families(&self, tier: Tier) -> Vec<Family> {
        let q = tier == Tier::Quick;
        let n = |a: u64, b: u64| if q { a } else { b };
        vec![
            Family { name: "adversarial", kind: FamilyKind::Random { cases: n(50_000, 500_000), max_len: 400 } },
            Family { name: "adversarial_triggers", kind: FamilyKind::Random { cases: n(5_000, 50_000), max_len: 400 } },
            Family { name: "depth", kind: FamilyKind::Random { cases: n(2_000, 10_000), max_len: 8 } },
            Family { name: "depth_triggers", kind: FamilyKind::Random { cases: n(100, 1_000), max_len: 8 } },
            Family { name: "illtyped", kind: FamilyKind::Random { cases: n(25_000, 200_000), max_len: 700 } },
        ]
    }

    fn rule(&self) -> String {
        format!("cases: (adversarial) programs of 8-47 operations, each one of: binary/unary operator, index, slice, method call with 0-3 arguments drawn blindly, method call that respects the method's signature (receiver of the right class and arguments of the expected kinds from typed sub-pools of strings, small and extreme numbers, vectors of byte and code-point values, functions, tuples, maps, ranges, fibers and iterators, sometimes one argument off or an arbitrary value, sometimes chained), a value that contains itself along several paths printed, converted to text, interpolated, used as a map key, iterated, thrown or nested, property get/set, call, for-in, throw, interpolation, map-key use, element assignment, or `#[derive(x)]` of a value, applied to operands from an adversarial pool of {} values (nil, booleans, 0, -0, NaN, infinities, 2^53, +-2^63, overflowed 1e308*10, empty/ASCII/multi-byte/long strings, empty and nested containers, a vec and a map containing themselves, empty/reversed/huge ranges, lambdas of arity 0-2, natives, bound methods and bound natives, user and built-in classes and metaclasses, instances, fibers that are new/suspended/finished, fresh and exhausted iterators, a module, StopIter and error instances) and {} member names; every operation is wrapped in try/catch printing the class and the program ends with a sentinel, one program in ten then with an uncaught error whose report must describe a self-referential or empty context, or that reaches the top through call frames and finally-only handlers of callers (thrown or raised by a built-in in a callee, two levels, inside a fiber, caught and thrown again); (depth) recursion to 55-74 frames through functions, methods, fibers and try/finally with up to 200 live temporaries per frame; (illtyped) generated programs with half of all operands ill-typed; (*_triggers) the same with the shapes of recorded findings enabled. Run in the checked build with collection at every allocation and swept objects quarantined. Oracle: the run returns Ok or an Error with >=1 message, no panic, no worker death, no dereference of a swept object, the sentinel is printed (every error was catchable and execution continued), arithmetic still works afterwards. Non-trivial: >=10 operations of which >=3 failed with a reported error and >=3 succeeded; distinct by program text.", POOL.len(), NAMES.len())
    }

    fn assumptions(&self) -> Vec<String> {
        vec![
            "liveness is not decided: a program that exhausts the instruction fuel is discarded".into(),
            "host-defined natives other than print and the module loader are out of scope".into(),
        ]
    }

    fn render(&self, family: &str, bytes: &[u8]) -> String {
        match self.source(family, bytes) {
            Some((s, _)) => {
                // the fixed preamble is the same for every adversarial case
                s.replace(PREAMBLE, "// … fixed preamble defining U, It, MyErr, selfvec, selfmap, fibers, iterators, inst, lam*, bm, bn, mapit, big, modv …\n")
            }
            None => "<declined by the reference interpreter>".into(),
        }
    }

    fn run(&self, ctx: &mut CaseCtx) -> Verdict {
        let family = ctx.family.to_string();
        if family == "fuzz_exec" {
            // replay of an artifact of the libFuzzer target `exec` (fuzz/fuzz_targets/exec.rs): the same
            // decoder and oracle, in this build (without AddressSanitizer)
            return match crate::fuzz::exec_case(ctx.bytes) {
                Ok(what) => {
                    ctx.label(what);
                    Verdict::Pass { nontrivial: what == "agree", hash: fnv64(ctx.bytes) }
                }
                Err(e) => Verdict::Fail {
                    sig: format!("fuzz-exec:{}", e.split(':').next().unwrap_or("oracle")),
                    detail: e,
                },
            };
        }
        let triggers = family.ends_with("_triggers") || family.starts_with("pinned:");
        let (src, ops) = match self.source(&family, ctx.bytes) {
            Some(x) => x,
            None => return Verdict::Discard("declined by the reference interpreter"),
        };
        let cfg = RunCfg {
            gc: GcCfg::Default,
            quarantine: true,
            fuel: Some(4_000_000),
            modules: vec![("m0".to_string(), MODULE.to_string())],
        };
        let o = yrun::run_source(&src, &cfg);
        let suffix = if triggers { "+triggers" } else { "" };
        let shown = src.replace(PREAMBLE, "// … preamble …\n");
        if let End::Panic(p) = &o.end {
            return Verdict::Fail {
                sig: format!("panic:{}{}", sig_of_panic(p), suffix),
                detail: format!("the interpreter panicked: {}\nprinted so far: {:?}\n{}", p, o.out.iter().rev().take(3).collect::<Vec<_>>(), shown),
            };
        }
        if o.uas_count > 0 {
            let sig = if o.uas.iter().any(|t| t.contains("open upvalue into the value stack")) {
                "use-after-sweep:fiber-stack-upvalue".to_string()
            } else {
                format!("use-after-sweep{}", suffix)
            };
            return Verdict::Fail { sig, detail: format!("{} dereferences of swept objects {:?}\n{}", o.uas_count, o.uas, shown) };
        }
        if o.fuel_exhausted {
            return Verdict::Discard("fuel");
        }
        if o.fiber_mismatches > 0 {
            return Verdict::Fail {
                sig: "active-fiber-pointer-mismatch".into(),
                detail: format!("the raw active-fiber pointer differed from the rooted fiber at {} instructions\n{}", o.fiber_mismatches, shown),
            };
        }
        if o.dangling_upvalues > 0 {
            return Verdict::Fail {
                sig: format!("dangling-upvalue{}", suffix),
                detail: format!("at {} instruction boundaries an open upvalue pointed at or above the top of the value stack\n{}", o.dangling_upvalues, shown),
            };
        }
        let errors = o.out.iter().filter(|l| l.starts_with("<class ")).count();
        let oks = o.out.iter().filter(|l| l.starts_with("ok ")).count();
        match &o.end {
            End::Err(k, msgs) => {
                if crate::diff::is_compile_error(msgs) {
                    ctx.label("compile_error");
                    return Verdict::Discard("compile error");
                }
                if msgs.is_empty() {
                    return Verdict::Fail { sig: "error-without-message".into(), detail: format!("{:?}\n{}", k, shown) };
                }
                let deliberate_tail = family.starts_with("adversarial") && !src.ends_with("print(\"sentinel\");\n") && o.out.last().map(|l| l == "sentinel").unwrap_or(false);
                if deliberate_tail {
                    // the program ends, after its sentinel, in an uncaught error on purpose: the run must
                    // end with a report that starts with its "Unhandled ..." line
                    if !msgs[0].starts_with("Unhandled ") {
                        return Verdict::Fail {
                            sig: format!("uncaught-report-malformed{}", suffix),
                            detail: format!("the report of the uncaught error at the end does not start with its 'Unhandled ...' line: {:?}\n{}", msgs, shown),
                        };
                    }
                    ctx.label("uncaught_awkward_error");
                } else if family.starts_with("adversarial") || family.starts_with("depth") {
                    // every operation is wrapped in try/catch: an uncaught error means it was not catchable
                    // (an exception inside a fiber body legitimately ends the run: none of the pool's
                    // fiber bodies can throw, except through a pool function called as the body)
                    let in_fiber = msgs.iter().any(|m| m.contains("in lambda-")) && !msgs.iter().any(|m| m.contains("in script"));
                    if !in_fiber {
                        return Verdict::Fail {
                            sig: format!("error-not-catchable{}", suffix),
                            detail: format!("an error escaped its try/catch: {:?} {:?}\n{}", k, msgs, shown),
                        };
                    }
                    ctx.label("ended_in_fiber");
                }
            }
            End::Ok(_) => {
                let n = o.out.len();
                if n < 1 || o.out[n - 1] != "sentinel" || (family.starts_with("adversarial") && (n < 2 || o.out[n - 2] != "2")) {
                    return Verdict::Fail {
                        sig: format!("sentinel-missing{}", suffix),
                        detail: format!("the run ended normally but the final prints are {:?}\n{}", o.out.iter().rev().take(3).collect::<Vec<_>>(), shown),
                    };
                }
            }
            End::Panic(_) => unreachable!(),
        }
        ctx.label_n("operations", ops as u64);
        ctx.label_n("op_errors", errors as u64);
        ctx.label_n("op_successes", oks as u64);
        for l in o.out.iter().filter(|l| l.starts_with("<class ")) {
            ctx.label(&format!("class:{}", l.trim_start_matches("<class ").trim_end_matches('>')));
        }
        let nontrivial = (ops >= 10 && errors >= 3 && oks >= 3) || family.starts_with("depth") || (family == "illtyped" && errors >= 2);
        Verdict::Pass { nontrivial, hash: fnv64(src.as_bytes()) }
    }

    fn floors(&self, _tier: Tier) -> Vec<(&'static str, u64)> {
        vec![
            ("operations", 100_000),
            ("op_errors", 30_000),
            ("op_successes", 20_000),
            ("class:TypeError", 5_000),
            ("class:AttributeError", 5_000),
            ("class:IndexError", 300),
            ("class:ValueError", 300),
            ("class:RuntimeError", 100),
        ]
    }
}
