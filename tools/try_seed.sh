#!/bin/bash
# try_seed.sh <patch.diff> <ID> [<ID>...]  — apply a seeded change to /repo, run the quick checks, undo it.
# Prints one line per check: CAUGHT / MISSED / INCONCLUSIVE with the first violation signature.
# With LANE_REPO / LANE_VERIF set (tools/lanes.sh) the change is applied to that scratch worktree and the
# checks of that scratch copy of the machinery are run instead, so several seeds can be tried at once.
set -u
PATCH="$(readlink -f "$1")"; shift
REPO="${LANE_REPO:-/repo}"; VERIF="${LANE_VERIF:-/verif}"
export VERIF_REPO="$REPO"
cd "$REPO" || exit 2
if ! git diff --quiet; then echo "repo working tree not clean"; exit 2; fi
git apply "$PATCH" || { echo "patch does not apply"; exit 2; }
# evidence files describe runs on the unchanged tree: keep them, a trial must not overwrite them
EVBAK="$(mktemp -d)"; cp -a "$VERIF/evidence/." "$EVBAK/" 2>/dev/null
trap 'git -C "$REPO" checkout -- . ; rm -rf "$VERIF/replays/new"; cp -a "$EVBAK/." "$VERIF/evidence/" 2>/dev/null; rm -rf "$EVBAK"' EXIT
for id in "$@"; do
  out=$(cd "$VERIF" && timeout 1500 ./check "$id" quick 2>&1)
  rc=$?
  if [ $rc = 1 ]; then
    sig=$(echo "$out" | grep -A1 '^VIOLATION' | sed -n 2p | cut -c1-160)
    echo "$id CAUGHT  $sig"
  elif [ $rc = 0 ]; then
    echo "$id MISSED  $(echo "$out" | tail -1 | cut -c1-100)"
  else
    echo "$id INCONCLUSIVE rc=$rc $(echo "$out" | grep -E 'INCONCLUSIVE|error' | head -2 | cut -c1-160)"
  fi
done
