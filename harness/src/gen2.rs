//! Generator, part 2: classes, exceptions, fibers.

use std::cell::{Cell, RefCell};
use std::rc::Rc;

use crate::ast::*;
use crate::gen::*;

fn fdef(name: &str, kind: FnKind, params: Vec<String>, body: Vec<Stmt>) -> Rc<FnDef> {
    Rc::new(FnDef {
        name: RefCell::new(name.to_string()),
        params,
        body: Body::Block(body),
        kind,
    })
}

fn self_field(f: &str) -> Expr {
    Expr::get(Expr::SelfE, f)
}

/// all (method, arity, is_static) visible on instances of class `ci`, nearest definition first
fn all_methods(g: &Gen, ci: usize) -> Vec<(String, usize, bool)> {
    let mut out: Vec<(String, usize, bool)> = Vec::new();
    let mut cur = Some(ci);
    while let Some(c) = cur {
        let (_, _, methods, _, sup) = g.class_info(c);
        for m in methods.iter().rev() {
            if !out.iter().any(|o| o.0 == m.0) {
                out.push(m.clone());
            }
        }
        cur = sup;
    }
    out
}

pub fn class_stmt(g: &mut Gen, out: &mut Vec<Stmt>) {
    // half of the time use an existing instance instead of declaring another class
    let insts = g.vars_of_pub(Kind::Inst(0));
    if !insts.is_empty() && g.rd.chance(3, 5) {
        inst_use(g, out);
        return;
    }
    g.label_pub("class");
    let name = g.fresh_pub("K");
    let visible_classes = g.vars_of_pub(Kind::Class(0));
    let superclass: Option<(String, usize)> = if !visible_classes.is_empty() && g.rd.chance(3, 5) {
        let (n, k) = visible_classes[g.rd.below(visible_classes.len())].clone();
        match k {
            Kind::Class(i) => Some((n, i)),
            _ => None,
        }
    } else {
        None
    };
    if superclass.is_some() {
        g.label_pub("class_derived");
    }
    let sup_idx = superclass.as_ref().map(|s| s.1);
    let has_super = superclass.is_some();
    let mut methods: Vec<Rc<FnDef>> = Vec::new();
    let mut minfo: Vec<(String, usize, bool)> = Vec::new();
    let mut fields: Vec<String> = Vec::new();
    // constructor
    let explicit_ctor = g.rd.chance(3, 5);
    let mut ctor: Option<(String, usize)> = None;
    let mut default_ctor = None;
    // register the class early so that method bodies can refer to its index
    let ci = g.add_class(name.clone(), None, vec![], vec![], sup_idx);
    if explicit_ctor {
        let arity = g.rd.below(3);
        let params: Vec<String> = (0..arity).map(|_| g.fresh_pub("c")).collect();
        let mut body = Vec::new();
        // inherited initialisation only when asked for
        if let Some((_, si)) = &superclass {
            let (_, sctor, _, sfields, _) = g.class_info(*si);
            if let Some((sname, sar)) = sctor {
                if sname == "new" && g.rd.chance(2, 3) {
                    g.label_pub("super_ctor_call");
                    let args = (0..sar).map(|k| Expr::Num(k as f64 + 10.0)).collect();
                    body.push(Stmt::expr(Expr::SuperInvoke("new".into(), args, ln())));
                    for f in sfields {
                        if !fields.contains(&f) {
                            fields.push(f);
                        }
                    }
                }
            }
        }
        let nf = 1 + g.rd.below(3);
        for k in 0..nf {
            let f = Gen::field_names()[k].to_string();
            let v = if k < params.len() {
                Expr::var(&params[k])
            } else {
                Expr::Num(k as f64)
            };
            body.push(Stmt::expr(Expr::assign(Target::Prop(Expr::SelfE, f.clone()), v)));
            if !fields.contains(&f) {
                fields.push(f);
            }
        }
        if g.rd.chance(1, 4) {
            body.push(Stmt::print(Expr::str(&format!("init {}", name))));
        }
        if g.rd.chance(1, 6) {
            body.push(Stmt::new(StmtKind::Return(None)));
        } else if g.rd.chance(1, 6) {
            // a bare `return;` inside a try block of the constructor: the finally block runs and the
            // constructor still yields the instance
            g.label_pub("ctor_return_in_try");
            let f = Gen::field_names()[3].to_string();
            let set = Stmt::expr(Expr::assign(Target::Prop(Expr::SelfE, f.clone()), Expr::Num(7.0)));
            if !fields.contains(&f) {
                fields.push(f);
            }
            let ret = if g.rd.flag() {
                Stmt::new(StmtKind::Return(None))
            } else {
                Stmt::new(StmtKind::If(Expr::True, vec![Stmt::new(StmtKind::Return(None))], None))
            };
            body.push(Stmt::new(StmtKind::Try(vec![set, ret], None, Some(vec![Stmt::print(Expr::str(&format!("ctor finally {}", name)))]))));
            body.push(Stmt::print(Expr::str("not reached")));
        }
        methods.push(fdef("new", FnKind::Init, params, body));
        ctor = Some(("new".into(), arity));
    } else {
        default_ctor = Some("new".to_string());
        ctor = Some(("new".into(), 0));
    }
    // methods
    let nm = 1 + g.rd.below(4);
    for k in 0..nm {
        let mname = Gen::method_names()[g.rd.below(4)].to_string();
        if minfo.iter().any(|m| m.0 == mname) {
            continue;
        }
        let is_static = g.rd.chance(1, 5);
        let arity = g.rd.below(3);
        let params: Vec<String> = (0..arity).map(|_| g.fresh_pub("b")).collect();
        let kind = if is_static { FnKind::Static } else { FnKind::Method };
        let mut body = Vec::new();
        if g.rd.chance(1, 2) {
            body.push(Stmt::print(Expr::str(&format!("{}.{}", name, mname))));
        }
        // generic statements (may use self through closures)
        let filler = g.fn_body(kind, &params, Some(ci), has_super, 2);
        let mut ret: Expr = if params.is_empty() { Expr::Num(k as f64) } else { Expr::var(&params[0]) };
        if is_static {
            g.label_pub("static_method");
            if g.rd.flag() {
                // Self denotes the class the method was invoked through
                body.push(Stmt::print(Expr::CapSelf));
            }
            if g.rd.chance(1, 2) {
                // members reached through Self: the constructor (a new instance, also when this method
                // was reached through an existing instance), an earlier static method, an instance
                // method or field name (which the class object does not have)
                g.label_pub("member_through_self");
                match g.rd.below(4) {
                    0 | 1 => {
                        let (cn, ca) = ctor.clone().unwrap_or(("new".into(), 0));
                        let args: Vec<Expr> = (0..ca).map(|q| Expr::Num(q as f64 + 6.0)).collect();
                        let made = g.fresh_pub("made");
                        body.push(Stmt::var(&made, Some(Expr::invoke(Expr::CapSelf, &cn, args))));
                        body.push(Stmt::print(Expr::callv("type", vec![Expr::var(&made)])));
                        if let Some(f) = fields.first() {
                            body.push(Stmt::print(Expr::get(Expr::var(&made), f)));
                        }
                    }
                    2 => {
                        let lower: Vec<(String, usize, bool)> = minfo.iter().cloned().filter(|m| m.2 && m.0 < mname).collect();
                        if let Some((sn, sa, _)) = lower.first().cloned() {
                            let args: Vec<Expr> = (0..sa).map(|q| Expr::Num(q as f64 + 8.0)).collect();
                            body.push(Stmt::print(Expr::invoke(Expr::CapSelf, &sn, args)));
                        } else {
                            body.push(Stmt::print(Expr::invoke(Expr::CapSelf, "no_such_static", vec![])));
                        }
                    }
                    _ => {
                        let f = if let Some(f) = fields.first() { f.clone() } else { "p0".to_string() };
                        body.push(Stmt::print(Expr::get(Expr::CapSelf, &f)));
                    }
                }
            }
            // a static method of the superclass reached through super: Self stays what it was
            if let Some((_, si)) = &superclass {
                let statics: Vec<_> = all_methods(g, *si).into_iter().filter(|m| m.2 && m.0 <= mname).collect();
                if !statics.is_empty() && g.rd.chance(2, 3) {
                    let (sn, sa, _) = statics[g.rd.below(statics.len())].clone();
                    let args: Vec<Expr> = (0..sa).map(|q| Expr::Num(q as f64 + 4.0)).collect();
                    g.label_pub("super_static_call");
                    body.push(Stmt::print(Expr::SuperInvoke(sn, args, ln())));
                }
            }
        } else {
            // read a field (possibly one that only a subclass or nobody defines)
            if !fields.is_empty() && g.rd.chance(2, 3) {
                let f = fields[g.rd.below(fields.len())].clone();
                ret = Expr::bin(BinOp::Add, ret, self_field(&f));
            } else if g.rd.chance(1, 6) {
                let f = Gen::field_names()[g.rd.below(4)];
                ret = Expr::bin(BinOp::Add, ret, self_field(f));
            }
            // call a lower-numbered method on self (dynamic dispatch, terminates)
            let lower: Vec<(String, usize, bool)> = all_methods(g, ci)
                .into_iter()
                .chain(minfo.iter().cloned())
                .filter(|m| m.0 < mname && !m.2)
                .collect();
            if !lower.is_empty() && g.rd.chance(1, 2) {
                let (ln_, la, _) = lower[g.rd.below(lower.len())].clone();
                let args = (0..la).map(|q| Expr::Num(q as f64 + 1.0)).collect();
                g.label_pub("self_method_call");
                ret = Expr::bin(BinOp::Add, ret, Expr::invoke(Expr::SelfE, &ln_, args));
            }
            // super call to the same or another method
            if let Some((_, si)) = &superclass {
                let sm = all_methods(g, *si);
                let cands: Vec<_> = sm.into_iter().filter(|m| m.0 <= mname).collect();
                if !cands.is_empty() && g.rd.chance(2, 3) {
                    let (sn, sa, _) = cands[g.rd.below(cands.len())].clone();
                    let args: Vec<Expr> = (0..sa).map(|q| Expr::Num(q as f64 + 2.0)).collect();
                    g.label_pub("super_method_call");
                    if g.rd.chance(1, 6) {
                        // a field on the receiver named like the method: `super.m` still means
                        // the superclass's method, called or taken as a value
                        g.label_pub("super_with_same_named_field");
                        let v = if g.rd.flag() { g.lambda_pub(sa) } else { Expr::Num(g.rd.below(50) as f64) };
                        body.push(Stmt::expr(Expr::assign(Target::Prop(Expr::SelfE, sn.clone()), v)));
                    }
                    let call = if g.rd.chance(1, 3) {
                        // bound super method, called later
                        Expr::call(Expr::paren(Expr::SuperGet(sn, ln())), args)
                    } else {
                        Expr::SuperInvoke(sn, args, ln())
                    };
                    body.push(Stmt::print(call));
                }
            }
            // a compound assignment on a field (the object is evaluated once)
            if !fields.is_empty() && g.rd.chance(1, 4) {
                let f = fields[g.rd.below(fields.len())].clone();
                g.label_pub("self_field_compound");
                body.push(Stmt::expr(Expr::compound(Target::Prop(Expr::SelfE, f), BinOp::Add, Expr::Num(1.0))));
            }
            // a field assignment
            if g.rd.chance(1, 3) {
                let f = Gen::field_names()[g.rd.below(4)].to_string();
                body.push(Stmt::expr(Expr::assign(
                    Target::Prop(Expr::SelfE, f.clone()),
                    Expr::Num(g.rd.below(9) as f64),
                )));
                if !fields.contains(&f) {
                    fields.push(f);
                }
            }
        }
        let mut full = body;
        if g.rd.chance(1, 3) {
            full.extend(filler);
        }
        // strip trailing returns of the filler: the method's own return comes last
        full.retain(|s| !matches!(s.kind, StmtKind::Return(_)));
        full.push(Stmt::new(StmtKind::Return(Some(ret))));
        methods.push(fdef(&mname, kind, params, full));
        minfo.push((mname, arity, is_static));
    }
    // commit class info
    g.update_class(ci, ctor.clone(), minfo.clone(), fields.clone());
    out.push(Stmt::new(StmtKind::Class(Rc::new(ClassDef {
        name: name.clone(),
        superclass: superclass.as_ref().map(|s| s.0.clone()),
        default_ctor,
        methods,
        attr_line: Cell::new(0),
    }))));
    g.declare_pub(&name, Kind::Class(ci), false);
    // rebinding the superclass *name* afterwards must not change what `super` means
    if let Some((sname, _)) = &superclass {
        // (at top level the name is a global, inside a function or block a local or a captured
        // variable of the enclosing function)
        if g.rd.chance(1, 8) {
            g.label_pub("superclass_name_rebound");
            if !g.at_global_pub() {
                g.label_pub("local_superclass_name_rebound");
            }
            out.push(Stmt::expr(Expr::assign_var(sname, Expr::var("Object"))));
        }
    }
    // a superclass that is not a class is a RuntimeError at the class statement
    if g.rd.chance(1, 20) {
        g.label_pub("non_class_superclass");
        let bad = g.fresh_pub("Bad");
        let e = g.fresh_pub("e");
        let notclass = g.fresh_pub("notclass");
        out.push(Stmt::var(&notclass, Some(Expr::Num(3.0))));
        out.push(Stmt::new(StmtKind::Try(
            vec![Stmt::new(StmtKind::Class(Rc::new(ClassDef {
                name: bad.clone(),
                superclass: Some(notclass.clone()),
                default_ctor: Some("new".into()),
                methods: vec![],
                attr_line: Cell::new(0),
            })))],
            Some((e.clone(), vec![Stmt::print(Expr::callv("type", vec![Expr::var(&e)]))])),
            None,
        )));
    }
    // an instance right away
    let o = g.fresh_pub("o");
    let (cn, ar) = ctor.unwrap();
    let args = (0..ar).map(|q| Expr::Num(q as f64 + 5.0)).collect();
    out.push(Stmt::var(&o, Some(Expr::invoke(Expr::var(&name), &cn, args))));
    g.declare_pub(&o, Kind::Inst(ci), false);
    inst_use(g, out);
}

/// Statements exercising an instance: calls, bound methods, fields, type/derives, static access.
pub fn inst_use(g: &mut Gen, out: &mut Vec<Stmt>) {
    let insts = g.vars_of_pub(Kind::Inst(0));
    if insts.is_empty() {
        return;
    }
    let (o, k) = insts[g.rd.below(insts.len())].clone();
    let ci = match k {
        Kind::Inst(c) => c,
        _ => return,
    };
    let methods = all_methods(g, ci);
    let (cname, _, _, fields, _) = g.class_info(ci);
    let n = 1 + g.rd.below(3);
    for _ in 0..n {
        let gd = g.guard_begin_pub();
        let s = match g.rd.below(12) {
            11 if methods.iter().any(|m| !m.2) => {
                // a field named like a method holds that very method taken from ANOTHER instance of
                // the class: calling it through the holder still runs it on the instance it was taken
                // from (whose first field is made different, so the receivers can be told apart)
                let cands: Vec<_> = methods.iter().filter(|m| !m.2).cloned().collect();
                let (m, a, _) = cands[g.rd.below(cands.len())].clone();
                let (cn, ar) = g.class_info(ci).1.unwrap_or(("new".to_string(), 0));
                let o2 = g.fresh_pub("o");
                let cargs: Vec<Expr> = (0..ar).map(|q| Expr::Num(q as f64 + 5.0)).collect();
                out.push(Stmt::var(&o2, Some(Expr::invoke(Expr::var(&cname), &cn, cargs))));
                g.declare_pub(&o2, Kind::Inst(ci), false);
                if let Some(f) = fields.first() {
                    out.push(Stmt::expr(Expr::assign(Target::Prop(Expr::var(&o2), f.clone()), Expr::Num(1000.0 + g.rd.below(9) as f64))));
                }
                out.push(Stmt::expr(Expr::assign(Target::Prop(Expr::var(&o), m.clone()), Expr::get(Expr::var(&o2), &m))));
                let args: Vec<Expr> = (0..a).map(|q| Expr::Num(q as f64 + 1.0)).collect();
                g.label_pub("field_holds_other_instances_method");
                Stmt::print(Expr::invoke(Expr::var(&o), &m, args))
            }
            9 | 10 | 11 => {
                // a member read off the class object and kept as a value — a static method (which
                // must still know the class it was taken from: `Self`), the constructor, or an
                // instance method or unknown member (errors) — called later, directly or out of a
                // container
                let ctor = g.rd.chance(1, 3);
                let (m, a) = if ctor || methods.is_empty() {
                    match g.class_info(ci).1 {
                        Some((name, arity)) => (name, arity),
                        None => ("new".to_string(), 0),
                    }
                } else {
                    let (m, a, _) = methods[g.rd.below(methods.len())].clone();
                    (m, a)
                };
                let cm = g.fresh_pub("cm");
                let via_vec = g.rd.chance(1, 3);
                let taken = Expr::get(Expr::var(&cname), &m);
                out.push(Stmt::var(&cm, Some(if via_vec { Expr::VecLit(vec![taken]) } else { taken })));
                g.declare_pub(&cm, Kind::Any, false);
                let args: Vec<Expr> = (0..a).map(|q| Expr::Num(q as f64 + 5.0)).collect();
                g.label_pub("class_member_as_value");
                let callee = if via_vec { Expr::index(Expr::var(&cm), Expr::Num(0.0)) } else { Expr::var(&cm) };
                let call = Expr::call(callee, args);
                if ctor {
                    Stmt::print(Expr::callv("type", vec![call]))
                } else {
                    Stmt::print(call)
                }
            }
            0..=2 if !methods.is_empty() => {
                let (m, a, _) = methods[g.rd.below(methods.len())].clone();
                let a = if g.rd.chance(1, 10) { a + 1 } else { a };
                let args: Vec<Expr> = (0..a).map(|q| Expr::Num(q as f64 + 1.0)).collect();
                g.label_pub("method_call");
                Stmt::print(Expr::invoke(Expr::var(&o), &m, args))
            }
            3 if !methods.is_empty() => {
                // bound method taken as a value, called later
                let (m, a, _) = methods[g.rd.below(methods.len())].clone();
                let bm = g.fresh_pub("bm");
                out.push(Stmt::var(&bm, Some(Expr::get(Expr::var(&o), &m))));
                g.declare_pub(&bm, Kind::Fn(a), false);
                let args: Vec<Expr> = (0..a).map(|q| Expr::Num(q as f64 + 3.0)).collect();
                g.label_pub("bound_method");
                Stmt::print(Expr::callv(&bm, args))
            }
            4 => {
                let f = if !fields.is_empty() && g.rd.chance(3, 4) {
                    fields[g.rd.below(fields.len())].clone()
                } else {
                    Gen::field_names()[g.rd.below(4)].to_string()
                };
                g.label_pub("field_get");
                Stmt::print(Expr::get(Expr::var(&o), &f))
            }
            5 => {
                // a field that shadows a method
                let f = if !methods.is_empty() && g.rd.chance(1, 3) {
                    g.label_pub("field_shadows_method");
                    methods[g.rd.below(methods.len())].0.clone()
                } else {
                    Gen::field_names()[g.rd.below(4)].to_string()
                };
                let v = if g.rd.chance(1, 3) { g.lambda_pub(0) } else { Expr::Num(g.rd.below(50) as f64) };
                Stmt::expr(Expr::assign(Target::Prop(Expr::var(&o), f), v))
            }
            6 => {
                let cs = g.vars_of_pub(Kind::Class(0));
                let q = if cs.is_empty() { "Object".to_string() } else { cs[g.rd.below(cs.len())].0.clone() };
                g.label_pub("derives");
                Stmt::print(Expr::invoke(Expr::var(&o), "derives", vec![Expr::var(&q)]))
            }
            7 => Stmt::print(Expr::callv("type", vec![Expr::var(&o)])),
            _ => {
                // through the class object: statics and unknown members
                let m = if !methods.is_empty() { methods[g.rd.below(methods.len())].clone() } else { ("m0".into(), 0, false) };
                let args: Vec<Expr> = (0..m.1).map(|q| Expr::Num(q as f64)).collect();
                g.label_pub("class_member");
                Stmt::print(Expr::invoke(Expr::var(&cname), &m.0, args))
            }
        };
        let s = g.guard_end_pub(gd, s);
        out.push(s);
    }
}

pub fn throw_stmt(g: &mut Gen, out: &mut Vec<Stmt>) {
    if g.in_finally_pub() && !g.prof().triggers.e9 {
        let e = g.printable_pub();
        out.push(Stmt::print(e));
        return;
    }
    if !g.throw_allowed() {
        let e = g.printable_pub();
        out.push(Stmt::print(e));
        return;
    }
    g.label_pub("throw");
    let v = match g.rd.below(8) {
        6 | 7 if g.prof().user_errors => {
            // an instance of a user-defined error class derived from a core error class (or from
            // another user-defined one): handlers and the uncaught report both see that class
            g.label_pub("throw_user_error");
            let name = if g.user_errors.len() >= 3 || (!g.user_errors.is_empty() && g.rd.flag()) {
                g.user_errors[g.rd.below(g.user_errors.len())].0.clone()
            } else {
                let sup = if !g.user_errors.is_empty() && g.rd.chance(1, 3) {
                    g.user_errors[g.rd.below(g.user_errors.len())].0.clone()
                } else {
                    g.rd
                        .pick_str(&["Error", "ValueError", "TypeError", "IndexError", "RuntimeError", "AttributeError", "NameError", "ImportError"])
                        .to_string()
                };
                let name = format!("UErr{}", g.user_errors.len());
                g.user_errors.push((name.clone(), sup));
                name
            };
            Expr::invoke(Expr::var(&name), "new", vec![Expr::str("user context")])
        }
        6 | 7 => Expr::str("boom"),
        0 => Expr::str("boom"),
        1 => Expr::Num(g.rd.below(9) as f64),
        2 | 3 => Expr::invoke(Expr::var("Error"), "new", vec![Expr::str("bad")]),
        4 => Expr::VecLit(vec![Expr::Num(1.0)]),
        _ => Expr::Nil,
    };
    let t = Stmt::new(StmtKind::Throw(v));
    if g.rd.chance(2, 3) {
        let c = g.expr(Kind::Bool, 2);
        out.push(Stmt::new(StmtKind::If(c, vec![t], None)));
    } else {
        out.push(t);
    }
}

/// A finally block (entered normally or by an exception) that calls a try-free helper which
/// creates, calls and resumes fibers: the exception in flight must carry on afterwards.
fn finally_fiber(g: &mut Gen, out: &mut Vec<Stmt>) {
    g.label_pub("finally_calls_fiber");
    let v = |x: &str| Expr::var(x);
    let n = |x: f64| Expr::Num(x);
    let yld = |a: Expr| Expr::invoke(Expr::var("Fiber"), "yield", vec![a]);
    let helper = g.fresh_pub("rep");
    let two_step = g.rd.flag();
    let mut fb = vec![Stmt::print(Expr::VecLit(vec![Expr::str("fiber"), v("q")]))];
    if two_step {
        fb.push(Stmt::var("y", Some(yld(Expr::bin(BinOp::Add, v("q"), n(1.0))))));
        fb.push(Stmt::print(v("y")));
    }
    fb.push(Stmt::new(StmtKind::Return(Some(Expr::bin(BinOp::Add, v("q"), n(2.0))))));
    let l = Expr::Lambda(Rc::new(FnDef {
        name: RefCell::new(g.next_lambda_name()),
        params: vec!["q".into()],
        body: Body::Block(fb),
        kind: FnKind::Lambda,
    }));
    let mut hb = vec![
        Stmt::var("lg", Some(Expr::invoke(v("Fiber"), "new", vec![l]))),
        Stmt::var("r", Some(Expr::invoke(v("lg"), "call", vec![v("m")]))),
    ];
    if two_step {
        hb.push(Stmt::expr(Expr::assign_var("r", Expr::VecLit(vec![v("r"), Expr::invoke(v("lg"), "call", vec![Expr::str("again")])]))));
    }
    hb.push(Stmt::new(StmtKind::Return(Some(v("r")))));
    out.push(Stmt::new(StmtKind::Fn(fdef(&helper, FnKind::Function, vec!["m".into()], hb))));
    g.declare_pub(&helper, Kind::Fn(1), false);
    // a fiber created and started outside, resumed inside the finally block
    let pre = if g.rd.flag() {
        let fbv = g.fresh_pub(if g.at_global_pub() { "g" } else { "v" });
        let l2 = Expr::Lambda(Rc::new(FnDef {
            name: RefCell::new(g.next_lambda_name()),
            params: vec![],
            body: Body::Block(vec![
                Stmt::var("a", Some(yld(Expr::str("first")))),
                Stmt::var("b", Some(yld(Expr::VecLit(vec![v("a")])))),
                Stmt::new(StmtKind::Return(Some(Expr::VecLit(vec![v("a"), v("b")])))),
            ]),
            kind: FnKind::Lambda,
        }));
        out.push(Stmt::var(&fbv, Some(Expr::invoke(v("Fiber"), "new", vec![l2]))));
        out.push(Stmt::print(Expr::invoke(v(&fbv), "call", vec![])));
        Some(fbv)
    } else {
        None
    };
    let thrower: Stmt = match g.rd.below(4) {
        0 => Stmt::print(Expr::str("nothing thrown")),
        1 => Stmt::new(StmtKind::Throw(Expr::str("pending"))),
        2 => Stmt::expr(Expr::bin(BinOp::Add, Expr::Nil, n(1.0))),
        _ => Stmt::expr(Expr::invoke(Expr::VecLit(vec![]), "pop", vec![])),
    };
    let mut fin = vec![Stmt::print(Expr::callv(&helper, vec![n(g.rd.below(5) as f64)]))];
    if let Some(fbv) = &pre {
        fin.push(Stmt::print(Expr::invoke(v(fbv), "call", vec![Expr::str("in finally")])));
    }
    if g.rd.flag() {
        fin.push(Stmt::print(Expr::callv(&helper, vec![n(7.0)])));
    }
    let inner = Stmt::new(StmtKind::Try(vec![Stmt::print(Expr::str("body")), thrower], None, Some(fin)));
    let e = g.fresh_pub("e");
    let mut stmts = vec![Stmt::new(StmtKind::Try(
        vec![inner, Stmt::print(Expr::str("after inner"))],
        Some((e.clone(), vec![Stmt::print(Expr::VecLit(vec![Expr::str("caught"), Expr::callv("type", vec![v(&e)])]))])),
        None,
    ))];
    if let Some(fbv) = &pre {
        stmts.push(Stmt::print(Expr::invoke(v(fbv), "has_finished", vec![])));
    }
    if g.rd.chance(1, 3) {
        // the same from inside a fiber whose own try statement spans the call
        let l3 = Expr::Lambda(Rc::new(FnDef {
            name: RefCell::new(g.next_lambda_name()),
            params: vec![],
            body: Body::Block({
                let mut b = stmts;
                b.push(Stmt::var("got", Some(yld(Expr::str("worker yielded")))));
                b.push(Stmt::new(StmtKind::Return(Some(Expr::VecLit(vec![Expr::str("worker done"), v("got")])))));
                b
            }),
            kind: FnKind::Lambda,
        }));
        let w = g.fresh_pub(if g.at_global_pub() { "g" } else { "v" });
        out.push(Stmt::var(&w, Some(Expr::invoke(v("Fiber"), "new", vec![l3]))));
        out.push(Stmt::print(Expr::invoke(v(&w), "call", vec![])));
        out.push(Stmt::print(Expr::invoke(v(&w), "call", vec![Expr::str("V")])));
    } else {
        out.extend(stmts);
    }
}

/// A `return` out of a try block waits while the finally block runs; in that window the finally
/// block (a) calls a clean-up function that fails one or more frames down and is caught inside the
/// finally block, or (b) belongs to a fiber that yields from it while somebody else returns through a
/// try/finally of their own. The value on its way out must arrive, and nothing after the try
/// statement may run. (The finally block is only ever entered by the return, never by an exception.)
fn return_waits_in_finally(g: &mut Gen, out: &mut Vec<Stmt>) {
    let n = |x: f64| Expr::Num(x);
    let v = |x: &str| Expr::var(x);
    let s = |x: &str| Expr::str(x);
    let ret = |e: Expr| Stmt::new(StmtKind::Return(Some(e)));
    if g.rd.chance(2, 3) {
        g.label_pub("return_waits_cleanup_fails_below");
        let thr = g.fresh_pub("thr");
        let f = g.fresh_pub("rwf");
        let ce = g.fresh_pub("ce");
        // fails `d` frames down: by a throw, or by a failing built-in
        let fail = if g.rd.flag() { Stmt::new(StmtKind::Throw(s("deep failure"))) } else { Stmt::expr(Expr::invoke(Expr::VecLit(vec![]), "pop", vec![])) };
        out.push(Stmt::new(StmtKind::Fn(fdef(
            &thr,
            FnKind::Function,
            vec!["d".into()],
            vec![
                Stmt::new(StmtKind::If(Expr::bin(BinOp::Le, v("d"), n(0.0)), vec![fail], None)),
                Stmt::expr(Expr::callv(&thr, vec![Expr::bin(BinOp::Sub, v("d"), n(1.0))])),
                ret(s("not reached")),
            ],
        ))));
        g.declare_pub(&thr, Kind::Fn(1), false);
        let depth = g.rd.below(4) as f64;
        let cleanup = Stmt::new(StmtKind::Try(
            vec![Stmt::expr(Expr::callv(&thr, vec![n(depth)])), Stmt::print(s("clean-up did not fail"))],
            Some((ce.clone(), vec![Stmt::print(Expr::VecLit(vec![s("clean-up failed"), Expr::callv("type", vec![v(&ce)])]))])),
            None,
        ));
        let mut fin = vec![Stmt::print(s("finally starts")), cleanup];
        if g.rd.flag() {
            fin.push(Stmt::print(s("finally ends")));
        }
        let body = vec![
            Stmt::var("held", Some(Expr::VecLit(vec![v("k"), s("held")]))),
            Stmt::new(StmtKind::Try(vec![Stmt::print(s("about to return")), ret(Expr::VecLit(vec![v("held"), s("returned")]))], None, Some(fin))),
            Stmt::print(s("ran past the try statement")),
            ret(s("no result")),
        ];
        out.push(Stmt::new(StmtKind::Fn(fdef(&f, FnKind::Function, vec!["k".into()], body))));
        g.declare_pub(&f, Kind::Fn(1), false);
        out.push(Stmt::print(Expr::callv(&f, vec![n(1.0)])));
        out.push(Stmt::print(Expr::callv(&f, vec![n(2.0)])));
    } else {
        g.label_pub("return_waits_fiber_yields_in_finally");
        let fa = g.fresh_pub("fwa");
        let other = g.fresh_pub("rwo");
        let lam = Expr::Lambda(Rc::new(FnDef {
            name: RefCell::new(g.next_lambda_name()),
            params: vec![],
            body: Body::Block(vec![
                Stmt::new(StmtKind::Try(
                    vec![ret(s("value of A"))],
                    None,
                    Some(vec![Stmt::print(Expr::invoke(v("Fiber"), "yield", vec![s("A is in its finally block")])), Stmt::print(s("A resumed"))]),
                )),
                Stmt::print(s("A ran past its try statement")),
                ret(s("wrong value of A")),
            ]),
            kind: FnKind::Lambda,
        }));
        out.push(Stmt::var(&fa, Some(Expr::invoke(v("Fiber"), "new", vec![lam]))));
        g.declare_pub(&fa, Kind::Fiber, false);
        out.push(Stmt::new(StmtKind::Fn(fdef(
            &other,
            FnKind::Function,
            vec![],
            vec![
                Stmt::new(StmtKind::Try(vec![ret(s("value of O"))], None, Some(vec![Stmt::print(s("O finally"))]))),
                Stmt::print(s("O ran past its try statement")),
                ret(s("wrong value of O")),
            ],
        ))));
        g.declare_pub(&other, Kind::Fn(0), false);
        out.push(Stmt::print(Expr::invoke(v(&fa), "call", vec![])));
        if g.rd.flag() {
            out.push(Stmt::print(Expr::callv(&other, vec![])));
        } else {
            // the other return through finally happens inside a second fiber
            let fb = g.fresh_pub("fwb");
            let lam2 = Expr::Lambda(Rc::new(FnDef {
                name: RefCell::new(g.next_lambda_name()),
                params: vec![],
                body: Body::Expr(Box::new(Expr::callv(&other, vec![]))),
                kind: FnKind::Lambda,
            }));
            out.push(Stmt::var(&fb, Some(Expr::invoke(v("Fiber"), "new", vec![lam2]))));
            out.push(Stmt::print(Expr::invoke(v(&fb), "call", vec![])));
        }
        out.push(Stmt::print(Expr::invoke(v(&fa), "call", vec![s("resume A")])));
        out.push(Stmt::print(Expr::invoke(v(&fa), "has_finished", vec![])));
    }
}

pub fn try_stmt(g: &mut Gen, out: &mut Vec<Stmt>) {
    if !g.in_finally_pub() && g.rd.chance(1, 10) {
        finally_fiber(g, out);
        return;
    }
    if !g.in_finally_pub() && g.at_global_pub() && g.rd.chance(1, 10) {
        return_waits_in_finally(g, out);
        return;
    }
    g.label_pub("try");
    let shape = g.rd.below(6);
    let (has_catch, has_finally) = match shape {
        0..=2 => (true, false),
        3 => (false, true),
        _ => (true, true),
    };
    // body
    g.push_try(TryPosPub::Body(has_catch, has_finally));
    g.push_scope();
    g.enter();
    let n = 1 + g.rd.below(3);
    let mut body = g.stmts(n);
    // make sure something can throw
    if g.rd.chance(1, 2) {
        let mut extra = Vec::new();
        throw_stmt(g, &mut extra);
        let at = g.rd.below(body.len() + 1);
        for (k, s) in extra.into_iter().enumerate() {
            body.insert((at + k).min(body.len()), s);
        }
    }
    if has_finally && g.return_allowed_pub() && g.rd.chance(1, 4) {
        // a complete inner try statement, then a return: the return still has to run this
        // statement's finally block
        g.label_pub("inner_try_then_return");
        let e = g.fresh_pub("e");
        let inner_body = match g.rd.below(3) {
            0 => vec![Stmt::print(Expr::str("inner ok"))],
            1 => vec![Stmt::new(StmtKind::Throw(Expr::str("inner thrown")))],
            _ => vec![Stmt::print(Expr::bin(BinOp::Add, Expr::Nil, Expr::Num(1.0)))],
        };
        let inner = if g.rd.chance(2, 3) {
            Stmt::new(StmtKind::Try(inner_body, Some((e.clone(), vec![Stmt::print(Expr::callv("type", vec![Expr::var(&e)]))])), None))
        } else {
            Stmt::new(StmtKind::Try(
                vec![Stmt::print(Expr::str("inner ok"))],
                None,
                Some(vec![Stmt::print(Expr::str("inner finally"))]),
            ))
        };
        body.push(inner);
        body.push(Stmt::new(StmtKind::Return(Some(Expr::str("returned after inner try")))));
    }
    g.leave();
    g.pop_scope();
    g.pop_try();
    // a variable declared before the try statement that receives closures over the handler's variable
    let handler_closure: Option<String> = if has_catch && g.rd.chance(1, 5) {
        g.label_pub("handler_variable_captured");
        let h = g.fresh_pub("hc");
        out.push(Stmt::var(&h, Some(Expr::Nil)));
        Some(h)
    } else {
        None
    };
    let catch = if has_catch {
        // (the handler variable sometimes takes the name of an outer variable)
        let e = match g.shadowable_name_pub() {
            Some(n) if g.rd.chance(1, 8) => {
                g.label_pub("catch_var_shadows");
                n
            }
            _ => g.fresh_pub("e"),
        };
        g.push_try(TryPosPub::Catch(has_finally));
        g.push_scope();
        g.declare_pub(&e, Kind::Any, false);
        g.enter();
        let mut cb = vec![Stmt::print(Expr::callv("type", vec![Expr::var(&e)]))];
        if let Some(h) = &handler_closure {
            // a closure over the handler's variable escapes the handler (and one that writes it, so
            // that both share the variable after the handler has ended)
            cb.push(Stmt::expr(Expr::assign_var(
                h,
                Expr::TupleLit(vec![
                    Expr::Lambda(Rc::new(FnDef { name: RefCell::new(String::new()), params: vec![], body: Body::Expr(Box::new(Expr::var(&e))), kind: FnKind::Lambda })),
                    Expr::Lambda(Rc::new(FnDef {
                        name: RefCell::new(String::new()),
                        params: vec!["nv".into()],
                        body: Body::Expr(Box::new(Expr::assign_var(&e, Expr::var("nv")))),
                        kind: FnKind::Lambda,
                    })),
                ]),
            )));
        }
        let n = g.rd.below(3);
        if n > 0 {
            cb.extend(g.stmts(n));
        }
        // rethrow sometimes
        if g.rd.chance(1, 6) && (!has_finally || g.prof().triggers.e5) {
            g.label_pub("rethrow");
            cb.push(Stmt::new(StmtKind::Throw(Expr::var(&e))));
        }
        g.leave();
        g.pop_scope();
        g.pop_try();
        Some((e, cb))
    } else {
        None
    };
    let fin = if has_finally {
        g.push_try(TryPosPub::Finally);
        g.push_scope();
        g.enter();
        let mut fb = vec![Stmt::print(Expr::str("finally"))];
        let n = g.rd.below(3);
        if n > 0 {
            fb.extend(g.stmts(n));
        }
        g.leave();
        g.pop_scope();
        g.pop_try();
        Some(fb)
    } else {
        None
    };
    out.push(Stmt::new(StmtKind::Try(body, catch, fin)));
    if let Some(h) = handler_closure {
        // used after the statement (and after whatever reuses the handler's stack slots)
        let pad = g.fresh_pub("pad");
        out.push(Stmt::var(&pad, Some(Expr::VecLit(vec![Expr::str("pad")]))));
        out.push(Stmt::new(StmtKind::If(
            Expr::bin(BinOp::Ne, Expr::var(&h), Expr::Nil),
            vec![
                Stmt::print(Expr::call(Expr::index(Expr::var(&h), Expr::Num(0.0)), vec![])),
                Stmt::expr(Expr::call(Expr::index(Expr::var(&h), Expr::Num(1.0)), vec![Expr::str("rewritten")])),
                Stmt::print(Expr::call(Expr::index(Expr::var(&h), Expr::Num(0.0)), vec![])),
            ],
            None,
        )));
    }
}

/// `Fiber.yield` where there may be no fiber to yield from: the rejected yield must leave the
/// caller's variables and stack untouched.
fn yield_outside(g: &mut Gen, out: &mut Vec<Stmt>) {
    g.label_pub("yield_outside_fiber");
    let f = g.fresh_pub("yo");
    let e = g.fresh_pub("e");
    let arg = if g.rd.chance(2, 3) { vec![Expr::var("val")] } else { vec![] };
    let body = vec![
        Stmt::var("keep", Some(Expr::str("keep"))),
        Stmt::var("count", Some(Expr::Num(10.0))),
        Stmt::var("got", Some(Expr::str("not resumed"))),
        Stmt::new(StmtKind::Try(
            vec![Stmt::expr(Expr::assign_var("got", Expr::invoke(Expr::var("Fiber"), "yield", arg)))],
            Some((e.clone(), vec![Stmt::print(Expr::callv("type", vec![Expr::var(&e)]))])),
            None,
        )),
        Stmt::print(Expr::VecLit(vec![Expr::var("keep"), Expr::var("count"), Expr::var("got"), Expr::var("val")])),
        Stmt::new(StmtKind::Return(Some(Expr::var("keep")))),
    ];
    out.push(Stmt::new(StmtKind::Fn(fdef(&f, FnKind::Function, vec!["val".into()], body))));
    g.declare_pub(&f, Kind::Fn(1), false);
    // from the module level: rejected; from inside a fiber: a real yield
    out.push(Stmt::print(Expr::callv(&f, vec![Expr::Num(1.0)])));
    if g.rd.flag() {
        let fb = g.fresh_pub("fb");
        let lam = Expr::Lambda(Rc::new(FnDef {
            name: RefCell::new(g.next_lambda_name()),
            params: vec![],
            body: Body::Expr(Box::new(Expr::callv(&f, vec![Expr::Num(2.0)]))),
            kind: FnKind::Lambda,
        }));
        out.push(Stmt::var(&fb, Some(Expr::invoke(Expr::var("Fiber"), "new", vec![lam]))));
        g.declare_pub(&fb, Kind::Fiber, false);
        out.push(Stmt::print(Expr::invoke(Expr::var(&fb), "call", vec![])));
        out.push(Stmt::print(Expr::invoke(Expr::var(&fb), "call", vec![Expr::str("resumed")])));
        out.push(Stmt::print(Expr::invoke(Expr::var(&fb), "has_finished", vec![])));
    }
}

/// Fibers calling fibers, re-entrance directly and through a cycle, fibers sharing a captured
/// variable, and constructions that must be rejected.
fn fiber_interplay(g: &mut Gen, out: &mut Vec<Stmt>) {
    g.label_pub("fiber_interplay");
    let v = |x: &str| Expr::var(x);
    let n = |x: f64| Expr::Num(x);
    let lam = |g: &mut Gen, params: Vec<String>, body: Vec<Stmt>| {
        Expr::Lambda(Rc::new(FnDef {
            name: RefCell::new(g.next_lambda_name()),
            params,
            body: Body::Block(body),
            kind: FnKind::Lambda,
        }))
    };
    let fnew = |l: Expr| Expr::invoke(Expr::var("Fiber"), "new", vec![l]);
    let yld = |a: Expr| Expr::invoke(Expr::var("Fiber"), "yield", vec![a]);
    let catch_print = |g: &mut Gen, body: Vec<Stmt>| {
        let e = g.fresh_pub("e");
        Stmt::new(StmtKind::Try(body, Some((e.clone(), vec![Stmt::print(Expr::callv("type", vec![Expr::var(&e)]))])), None))
    };
    match g.rd.below(7) {
        0 => {
            // producer / consumer: one fiber drives another, values flow both ways
            let (p, c, shared) = (g.fresh_pub("fb"), g.fresh_pub("fb"), g.fresh_pub("sh"));
            out.push(Stmt::var(&shared, Some(n(0.0))));
            let pb = vec![
                Stmt::expr(Expr::compound(Target::Var(shared.clone()), BinOp::Add, n(1.0))),
                Stmt::var("a", Some(yld(Expr::bin(BinOp::Add, v("start"), n(1.0))))),
                Stmt::expr(Expr::compound(Target::Var(shared.clone()), BinOp::Add, n(10.0))),
                Stmt::var("b", Some(yld(Expr::VecLit(vec![v("a"), v(&shared)])))),
                Stmt::new(StmtKind::Return(Some(Expr::VecLit(vec![v("a"), v("b"), v(&shared)])))),
            ];
            let pl = lam(g, vec!["start".into()], pb);
            out.push(Stmt::var(&p, Some(fnew(pl))));
            let cb = vec![
                Stmt::print(Expr::invoke(v(&p), "call", vec![n(5.0)])),
                Stmt::expr(Expr::compound(Target::Var(shared.clone()), BinOp::Add, n(100.0))),
                Stmt::print(yld(Expr::invoke(v(&p), "call", vec![Expr::str("x")]))),
                Stmt::print(Expr::invoke(v(&p), "call", vec![])),
                Stmt::print(Expr::invoke(v(&p), "has_finished", vec![])),
                Stmt::new(StmtKind::Return(Some(v(&shared)))),
            ];
            let cl = lam(g, vec![], cb);
            out.push(Stmt::var(&c, Some(fnew(cl))));
            out.push(Stmt::print(Expr::invoke(v(&c), "call", vec![])));
            out.push(Stmt::print(v(&shared)));
            out.push(Stmt::print(Expr::invoke(v(&c), "call", vec![Expr::str("resume")])));
            out.push(Stmt::print(Expr::VecLit(vec![Expr::invoke(v(&c), "has_finished", vec![]), v(&shared)])));
        }
        1 => {
            // re-entrance through a cycle: a calls b, b calls a (rejected, caught inside b)
            let (a, b) = (g.fresh_pub("fb"), g.fresh_pub("fb"));
            out.push(Stmt::var(&a, None));
            let bb = vec![
                catch_print(g, vec![Stmt::print(Expr::invoke(v(&a), "call", vec![]))]),
                Stmt::print(yld(Expr::str("b yields"))),
                Stmt::new(StmtKind::Return(Some(Expr::str("b done")))),
            ];
            let bl = lam(g, vec![], bb);
            out.push(Stmt::var(&b, Some(fnew(bl))));
            // (a may itself have yielded and been resumed before it calls b: it is in the chain of
            // calls all the same, and b's call of it is rejected)
            let resumed_first = g.rd.flag();
            let mut ab = vec![];
            if resumed_first {
                g.label_pub("reentry_into_resumed_fiber");
                ab.push(Stmt::print(yld(Expr::str("a yields first"))));
            }
            ab.extend(vec![
                Stmt::print(Expr::invoke(v(&b), "call", vec![])),
                Stmt::print(Expr::invoke(v(&b), "call", vec![Expr::str("to b")])),
                Stmt::new(StmtKind::Return(Some(Expr::str("a done")))),
            ]);
            let al = lam(g, vec![], ab);
            out.push(Stmt::expr(Expr::assign_var(&a, fnew(al))));
            if resumed_first {
                out.push(Stmt::print(Expr::invoke(v(&a), "call", vec![])));
            }
            out.push(Stmt::print(Expr::invoke(v(&a), "call", vec![])));
            out.push(Stmt::print(Expr::VecLit(vec![Expr::invoke(v(&a), "has_finished", vec![]), Expr::invoke(v(&b), "has_finished", vec![])])));
        }
        2 => {
            // a fiber calling itself (directly) and a finished fiber called again
            let a = g.fresh_pub("fb");
            out.push(Stmt::var(&a, None));
            let ab = vec![
                catch_print(g, vec![Stmt::print(Expr::invoke(v(&a), "call", vec![]))]),
                Stmt::print(yld(n(1.0))),
                catch_print(g, vec![Stmt::print(Expr::invoke(v(&a), "has_finished", vec![]))]),
                // resumed by now: calling itself is rejected as it was in its first activation
                catch_print(g, vec![Stmt::print(Expr::invoke(v(&a), "call", vec![]))]),
                Stmt::print(Expr::str("a goes on after the rejected call")),
            ];
            let al = lam(g, vec![], ab);
            out.push(Stmt::expr(Expr::assign_var(&a, fnew(al))));
            for k in 0..3 {
                let args = if k == 1 { vec![Expr::str("in")] } else { vec![] };
                let st = catch_print(g, vec![Stmt::print(Expr::invoke(v(&a), "call", args))]);
                out.push(st);
            }
        }
        3 => {
            // constructions and calls that must be rejected, each leaving things usable
            let f = g.fresh_pub("fb");
            let good = lam(g, vec!["x".into()], vec![Stmt::new(StmtKind::Return(Some(Expr::bin(BinOp::Add, v("x"), n(1.0)))))]);
            out.push(Stmt::var(&f, Some(fnew(good))));
            let two = lam(g, vec!["a".into(), "b".into()], vec![]);
            let bads: Vec<Expr> = vec![
                fnew(n(1.0)),
                fnew(Expr::var("print")),
                fnew(two),
                Expr::invoke(Expr::var("Fiber"), "new", vec![]),
                Expr::invoke(v(&f), "call", vec![]),
                Expr::invoke(v(&f), "call", vec![n(1.0), n(2.0)]),
                Expr::invoke(Expr::var("Fiber"), "yield", vec![n(1.0), n(2.0)]),
            ];
            for b in bads {
                if g.rd.chance(2, 3) {
                    let st = catch_print(g, vec![Stmt::print(b)]);
                    out.push(st);
                }
            }
            out.push(Stmt::print(Expr::invoke(v(&f), "call", vec![n(41.0)])));
        }
        5 | 6 => {
            // a fiber local shared with closures handed out before a yield: writes by the fiber after
            // each resumption and writes through the closure between resumptions hit one variable
            g.label_pub("fiber_local_shared_across_yield");
            let glob = g.at_global_pub();
            let (peek, bump, gen) = (
                g.fresh_pub(if glob { "g" } else { "v" }),
                g.fresh_pub(if glob { "g" } else { "v" }),
                g.fresh_pub("fb"),
            );
            out.push(Stmt::var(&peek, None));
            out.push(Stmt::var(&bump, None));
            let l_peek = lam(g, vec![], vec![Stmt::new(StmtKind::Return(Some(v("total"))))]);
            let l_bump = lam(g, vec!["q".into()], vec![Stmt::expr(Expr::assign_var("total", Expr::bin(BinOp::Add, v("total"), v("q"))))]);
            let limit = 50.0 + g.rd.below(100) as f64;
            let body = vec![
                Stmt::var("total", Some(n(0.0))),
                Stmt::expr(Expr::assign_var(&peek, l_peek)),
                Stmt::expr(Expr::assign_var(&bump, l_bump)),
                Stmt::new(StmtKind::While(
                    Expr::bin(BinOp::Lt, v("total"), n(limit)),
                    vec![
                        Stmt::var("step", Some(yld(v("total")))),
                        Stmt::expr(Expr::assign_var("total", Expr::bin(BinOp::Add, v("total"), v("step")))),
                    ],
                )),
                Stmt::new(StmtKind::Return(Some(v("total")))),
            ];
            let l = lam(g, vec![], body);
            out.push(Stmt::var(&gen, Some(fnew(l))));
            out.push(Stmt::print(Expr::invoke(v(&gen), "call", vec![])));
            let steps = 1 + g.rd.below(3);
            for k in 0..steps {
                let a = 1.0 + g.rd.below(9) as f64;
                out.push(Stmt::print(Expr::invoke(v(&gen), "call", vec![n(a)])));
                out.push(Stmt::print(Expr::callv(&peek, vec![])));
                if k % 2 == 0 {
                    out.push(Stmt::expr(Expr::callv(&bump, vec![n(20.0)])));
                    out.push(Stmt::print(Expr::callv(&peek, vec![])));
                }
            }
            if g.rd.flag() {
                // run it to the end: the closures keep the final value
                out.push(Stmt::print(Expr::invoke(v(&gen), "call", vec![n(500.0)])));
                out.push(Stmt::print(Expr::invoke(v(&gen), "has_finished", vec![])));
                out.push(Stmt::print(Expr::callv(&peek, vec![])));
                out.push(Stmt::expr(Expr::callv(&bump, vec![n(1.0)])));
                out.push(Stmt::print(Expr::callv(&peek, vec![])));
            }
            // the fiber stays referenced while its frame is open (recorded finding G3 otherwise)
            out.push(Stmt::print(Expr::invoke(v(&gen), "has_finished", vec![])));
        }
        _ => {
            // a fiber per loop iteration, some abandoned while suspended, each with its own locals
            let fs = g.fresh_pub(if g.at_global_pub() { "g" } else { "v" });
            out.push(Stmt::var(&fs, Some(Expr::VecLit(vec![]))));
            let x = g.fresh_pub("x");
            let body = vec![
                Stmt::var("mine", Some(Expr::bin(BinOp::Mul, v("k"), n(10.0)))),
                Stmt::var("got", Some(yld(v("mine")))),
                Stmt::expr(Expr::compound(Target::Var("mine".into()), BinOp::Add, n(1.0))),
                Stmt::new(StmtKind::Return(Some(Expr::VecLit(vec![v("k"), v("mine"), v("got")])))),
            ];
            let l = lam(g, vec!["k".into()], body);
            out.push(Stmt::new(StmtKind::For(
                x.clone(),
                Expr::range(n(0.0), n(3.0)),
                vec![
                    Stmt::var("f", Some(fnew(l))),
                    Stmt::print(Expr::invoke(v("f"), "call", vec![v(&x)])),
                    Stmt::expr(Expr::invoke(v(&fs), "push", vec![v("f")])),
                ],
            )));
            g.note_range(0, 3);
            // resume them in reverse order, leave the middle one suspended
            out.push(Stmt::print(Expr::invoke(Expr::index(v(&fs), n(2.0)), "call", vec![Expr::str("two")])));
            out.push(Stmt::print(Expr::invoke(Expr::index(v(&fs), n(0.0)), "call", vec![])));
            out.push(Stmt::print(Expr::invoke(Expr::index(v(&fs), n(1.0)), "has_finished", vec![])));
        }
    }
}

/// A fiber with a generated body and a driver sequence of calls.
/// Dozens of rejected fiber operations in a row (calls of a finished fiber, calls of the fiber that is
/// running, yields outside any fiber, calls with too many arguments), each caught; afterwards fibers
/// work as before: a rejected operation leaves nothing behind, however often it happens.
fn many_rejected(g: &mut Gen, out: &mut Vec<Stmt>) {
    g.label_pub("many_rejected_fiber_operations");
    let n = |x: f64| Expr::Num(x);
    let v = |x: &str| Expr::var(x);
    let done = g.fresh_pub("fdone");
    let count = g.fresh_pub("rejected");
    let k = g.fresh_pub("k");
    let e = g.fresh_pub("e");
    let times = 66.0 + g.rd.below(40) as f64;
    let lam0 = |body: Expr| {
        Expr::Lambda(Rc::new(FnDef { name: RefCell::new(String::new()), params: vec![], body: Body::Expr(Box::new(body)), kind: FnKind::Lambda }))
    };
    out.push(Stmt::var(&done, Some(Expr::invoke(v("Fiber"), "new", vec![lam0(n(1.0))]))));
    out.push(Stmt::print(Expr::invoke(v(&done), "call", vec![])));
    out.push(Stmt::var(&count, Some(n(0.0))));
    let bad = match g.rd.below(4) {
        0 => Expr::invoke(v(&done), "call", vec![]),
        1 => Expr::invoke(v("Fiber"), "yield", vec![n(1.0)]),
        2 => Expr::invoke(Expr::invoke(v("Fiber"), "new", vec![lam0(n(2.0))]), "call", vec![n(1.0), n(2.0)]),
        _ => Expr::invoke(v(&done), "call", vec![n(5.0)]),
    };
    out.push(Stmt::new(StmtKind::For(
        k.clone(),
        Expr::range(n(0.0), n(times)),
        vec![Stmt::new(StmtKind::Try(
            vec![Stmt::expr(bad)],
            Some((e.clone(), vec![Stmt::expr(Expr::assign_var(&count, Expr::bin(BinOp::Add, v(&count), n(1.0))))])),
            None,
        ))],
    )));
    g.note_range(0, times as i64);
    out.push(Stmt::print(v(&count)));
    // fibers still work: a fresh one, started, resumed and finished
    let fresh = g.fresh_pub("ffresh");
    out.push(Stmt::var(&fresh, Some(Expr::invoke(v("Fiber"), "new", vec![lam0(Expr::bin(BinOp::Add, Expr::invoke(v("Fiber"), "yield", vec![n(10.0)]), n(1.0)))]))));
    out.push(Stmt::print(Expr::invoke(v(&fresh), "call", vec![])));
    out.push(Stmt::print(Expr::invoke(v(&fresh), "call", vec![n(41.0)])));
    out.push(Stmt::print(Expr::invoke(v(&fresh), "has_finished", vec![])));
}

pub fn fiber_stmts(g: &mut Gen, out: &mut Vec<Stmt>) {
    if g.rd.chance(1, 14) && g.at_global_pub() {
        many_rejected(g, out);
        return;
    }
    if g.rd.chance(1, 6) {
        yield_outside(g, out);
        return;
    }
    if g.rd.chance(1, 4) {
        fiber_interplay(g, out);
        return;
    }
    g.label_pub("fiber");
    let fb = g.fresh_pub("fb");
    let arity = g.rd.below(2);
    let params: Vec<String> = (0..arity).map(|_| g.fresh_pub("fa")).collect();
    // body: prints, yields (also from a nested function and from a loop), a return value
    g.fiber_enter(&params);
    let mut body: Vec<Stmt> = Vec::new();
    if let Some(p) = params.first() {
        body.push(Stmt::print(Expr::var(p)));
    }
    let yields = g.rd.below(4);
    let mut yield_count = 0;
    for k in 0..yields {
        match g.rd.below(5) {
            0 => {
                // the value passed to call() becomes the value of the yield expression
                let y = g.fresh_pub("y");
                body.push(Stmt::var(&y, Some(yield_expr(Some(Expr::Num(k as f64))))));
                body.push(Stmt::print(Expr::var(&y)));
                yield_count += 1;
            }
            1 => {
                body.push(Stmt::print(yield_expr(None)));
                yield_count += 1;
            }
            2 => {
                // yield from a nested function frame
                let h = g.fresh_pub("h");
                body.push(Stmt::new(StmtKind::Fn(fdef(
                    &h,
                    FnKind::Function,
                    vec!["n".into()],
                    vec![Stmt::new(StmtKind::Return(Some(Expr::bin(
                        BinOp::Add,
                        yield_expr(Some(Expr::var("n"))),
                        Expr::Num(100.0),
                    ))))],
                ))));
                body.push(Stmt::print(Expr::callv(&h, vec![Expr::Num(k as f64)])));
                yield_count += 1;
                g.label_pub("yield_nested_frame");
            }
            3 => {
                // yields in a loop
                let x = g.fresh_pub("x");
                body.push(Stmt::new(StmtKind::For(
                    x.clone(),
                    Expr::range(Expr::Num(0.0), Expr::Num(2.0)),
                    vec![Stmt::print(yield_expr(Some(Expr::var(&x))))],
                )));
                yield_count += 2;
            }
            _ => {
                // a try block spanning a switch
                let e = g.fresh_pub("e");
                body.push(Stmt::new(StmtKind::Try(
                    vec![
                        Stmt::print(yield_expr(Some(Expr::str("in try")))),
                        Stmt::new(StmtKind::Throw(Expr::str("after resume"))),
                    ],
                    Some((e.clone(), vec![Stmt::print(Expr::var(&e))])),
                    None,
                )));
                yield_count += 1;
                g.label_pub("try_spans_yield");
            }
        }
        if g.rd.chance(1, 3) {
            g.push_scope();
            let filler = g.stmts(1);
            g.pop_scope();
            // a block of its own: the statement was generated in an inner scope, and a variable it
            // declares may carry the name of a parameter of the fiber's function
            body.push(Stmt::new(StmtKind::Block(filler)));
        }
    }
    if g.rd.chance(2, 3) {
        body.push(Stmt::new(StmtKind::Return(Some(Expr::str("done")))));
    }
    g.fiber_leave();
    let lam = Expr::Lambda(Rc::new(FnDef {
        name: RefCell::new(g.next_lambda_name()),
        params,
        body: Body::Block(body),
        kind: FnKind::Lambda,
    }));
    out.push(Stmt::var(&fb, Some(Expr::invoke(Expr::var("Fiber"), "new", vec![lam]))));
    g.declare_pub(&fb, Kind::Fiber, false);
    // driver
    let calls = match g.rd.below(4) {
        0 => yield_count,           // leaves it suspended / abandoned
        1 => yield_count + 1,       // runs to completion
        2 => yield_count + 2,       // one call too many
        _ => g.rd.below(yield_count + 3),
    };
    for k in 0..calls {
        let args: Vec<Expr> = if k == 0 {
            (0..arity).map(|_| Expr::str("first")).collect()
        } else if g.rd.flag() {
            vec![Expr::Num(k as f64 * 10.0)]
        } else {
            vec![]
        };
        let args = if g.rd.chance(1, 12) {
            g.label_pub("fiber_wrong_args");
            vec![Expr::Num(1.0), Expr::Num(2.0)]
        } else {
            args
        };
        let gd = g.guard_begin_pub();
        let s = Stmt::print(Expr::invoke(Expr::var(&fb), "call", args));
        let s = g.guard_end_pub(gd, s);
        out.push(s);
        if g.rd.chance(1, 3) {
            out.push(Stmt::print(Expr::invoke(Expr::var(&fb), "has_finished", vec![])));
        }
    }
}

fn yield_expr(arg: Option<Expr>) -> Expr {
    Expr::invoke(Expr::var("Fiber"), "yield", arg.into_iter().collect())
}

/// Iteration idioms: user-defined iterators (deriving Iter or not, with a separate iterator object,
/// with `next` stored in a field), loops sharing one iterator, mutation of a vector while it is
/// being iterated, early exits from loops over adapters.
pub fn iter_template(g: &mut Gen, out: &mut Vec<Stmt>) {
    g.label_pub("iter_template");
    let n = |x: f64| Expr::Num(x);
    let v = |x: &str| Expr::var(x);
    let ret = |e: Expr| Stmt::new(StmtKind::Return(Some(e)));
    let setf = |f: &str, e: Expr| Stmt::expr(Expr::assign(Target::Prop(Expr::SelfE, f.to_string()), e));
    let getf = |f: &str| Expr::get(Expr::SelfE, f);
    let stop = || Expr::invoke(v("StopIter"), "new", vec![]);
    match g.rd.below(8) {
        7 => {
            // ranges that stay in use while many younger ones are built: a range held in a variable,
            // a range a loop is running over, a range under an adapter chain; in between, nine or
            // more distinct ranges (slice bounds, inner loops), more than any small cache of recently
            // built ranges holds. No range is compared with another one.
            g.label_pub("range_pressure");
            let a = g.rd.below(3) as f64;
            let b = a + 2.0 + g.rd.below(3) as f64;
            let held = g.fresh_pub("held");
            let x = g.fresh_pub("x");
            let k = g.fresh_pub("k");
            let acc = g.fresh_pub("acc");
            let descending = g.rd.chance(1, 3);
            let held_range = if descending { Expr::range(n(b), n(a)) } else { Expr::range(n(a), n(b)) };
            out.push(Stmt::var(&held, Some(held_range)));
            out.push(Stmt::var(&acc, Some(n(0.0))));
            let data = Expr::VecLit((0..12).map(|i| n(i as f64 * 10.0)).collect());
            let churn = |k: &str, acc: &str| -> Stmt {
                // nine slices with nine different bounds
                Stmt::new(StmtKind::For(
                    k.to_string(),
                    Expr::range(n(0.0), n(9.0)),
                    vec![Stmt::expr(Expr::assign_var(
                        acc,
                        Expr::bin(BinOp::Add, Expr::var(acc), Expr::invoke(Expr::index(data.clone(), Expr::range(Expr::var(k), Expr::bin(BinOp::Add, Expr::var(k), n(2.0)))), "len", vec![])),
                    ))],
                ))
            };
            match g.rd.below(3) {
                0 => {
                    // the loop's own range is evicted while the loop runs
                    let lo = g.rd.below(3) as f64 + 20.0;
                    out.push(Stmt::new(StmtKind::For(
                        x.clone(),
                        Expr::range(n(lo), n(lo + 3.0)),
                        vec![churn(&k, &acc), Stmt::print(Expr::VecLit(vec![v(&x), v(&acc)]))],
                    )));
                }
                1 => {
                    // an adapter chain over a range, consumed after the churn
                    let it = g.fresh_pub("it");
                    let f = g.lambda_pub(1);
                    out.push(Stmt::var(&it, Some(Expr::invoke(Expr::invoke(Expr::range(n(30.0), n(34.0)), "iter", vec![]), "map", vec![f]))));
                    out.push(churn(&k, &acc));
                    let gd = g.guard_begin_pub();
                    let s = g.guard_end_pub(gd, Stmt::print(Expr::invoke(v(&it), "collect", vec![])));
                    out.push(s);
                }
                _ => {
                    out.push(churn(&k, &acc));
                }
            }
            out.push(Stmt::print(v(&held)));
            out.push(Stmt::print(Expr::invoke(Expr::invoke(v(&held), "iter", vec![]), "collect", vec![])));
            out.push(Stmt::print(Expr::index(data.clone(), v(&held))));
            out.push(Stmt::print(v(&acc)));
        }
        0 | 1 => {
            // a counting iterator class; deriving Iter gives it map/filter/collect/reduce
            let k = g.fresh_pub("ItCount");
            let derive_iter = g.rd.chance(2, 3);
            let early = g.rd.chance(1, 4);
            let mut next_body = vec![Stmt::new(StmtKind::If(
                Expr::bin(BinOp::Ge, getf("i"), getf("n")),
                vec![ret(stop())],
                None,
            ))];
            if early {
                // returns the sentinel early, then would continue if asked again
                next_body.push(Stmt::new(StmtKind::If(
                    Expr::bin(BinOp::Eq, getf("i"), n(2.0)),
                    vec![setf("i", Expr::bin(BinOp::Add, getf("i"), n(1.0))), ret(stop())],
                    None,
                )));
            }
            next_body.push(setf("i", Expr::bin(BinOp::Add, getf("i"), n(1.0))));
            next_body.push(ret(Expr::bin(BinOp::Mul, getf("i"), n(10.0))));
            let mut methods = vec![
                fdef("new", FnKind::Init, vec!["n".into()], vec![setf("i", n(0.0)), setf("n", v("n"))]),
                fdef("next", FnKind::Method, vec![], next_body),
            ];
            let rewinds = g.rd.chance(1, 3);
            if rewinds {
                // iter() rewinds: every loop and every adapter chain starts from the top
                methods.push(fdef("iter", FnKind::Method, vec![], vec![setf("i", n(0.0)), ret(Expr::SelfE)]));
            } else if !derive_iter || g.rd.flag() {
                methods.push(fdef("iter", FnKind::Method, vec![], vec![ret(Expr::SelfE)]));
            }
            out.push(Stmt::new(StmtKind::Class(Rc::new(ClassDef {
                name: k.clone(),
                superclass: if derive_iter { Some("Iter".into()) } else { None },
                default_ctor: None,
                methods,
                attr_line: Cell::new(0),
            }))));
            let x = g.fresh_pub("x");
            let count = g.rd.below(5) as f64;
            let mk = || Expr::invoke(v(&k), "new", vec![n(count)]);
            let gd = g.guard_begin_pub();
            let s = Stmt::new(StmtKind::For(x.clone(), mk(), vec![Stmt::print(v(&x))]));
            let s = g.guard_end_pub(gd, s);
            out.push(s);
            if derive_iter {
                g.label_pub("user_iter_adapters");
                let f = g.lambda_pub(1);
                let chain = Expr::invoke(Expr::invoke(mk(), if g.rd.flag() { "map" } else { "filter" }, vec![f]), "collect", vec![]);
                let gd = g.guard_begin_pub();
                let s = g.guard_end_pub(gd, Stmt::print(chain));
                out.push(s);
                let f2 = g.lambda_pub(2);
                let gd = g.guard_begin_pub();
                let s = g.guard_end_pub(gd, Stmt::print(Expr::invoke(mk(), "reduce", vec![f2, n(0.0)])));
                out.push(s);
            }
            if derive_iter && g.rd.chance(1, 2) {
                // one object used for several chains and a loop left half way
                g.label_pub("user_iter_reused");
                let o = g.fresh_pub("o");
                out.push(Stmt::var(&o, Some(Expr::invoke(v(&k), "new", vec![n(count + 2.0)]))));
                let x2 = g.fresh_pub("x");
                let mut uses: Vec<Stmt> = Vec::new();
                for _ in 0..(2 + g.rd.below(3)) {
                    let f = g.lambda_pub(1);
                    uses.push(match g.rd.below(6) {
                        0 => Stmt::print(Expr::invoke(Expr::invoke(v(&o), "map", vec![f]), "collect", vec![])),
                        1 | 2 => Stmt::print(Expr::invoke(Expr::invoke(v(&o), "filter", vec![f]), "collect", vec![])),
                        3 => Stmt::print(Expr::invoke(v(&o), "collect", vec![])),
                        4 => Stmt::new(StmtKind::For(
                            x2.clone(),
                            v(&o),
                            vec![Stmt::print(v(&x2)), Stmt::new(StmtKind::If(Expr::bin(BinOp::Ge, v(&x2), n(20.0)), vec![Stmt::new(StmtKind::Break)], None))],
                        )),
                        _ => {
                            let f2 = g.lambda_pub(2);
                            Stmt::print(Expr::invoke(Expr::invoke(v(&o), "filter", vec![f]), "reduce", vec![f2, n(0.0)]))
                        }
                    });
                }
                for u in uses {
                    let gd = g.guard_begin_pub();
                    let u = g.guard_end_pub(gd, u);
                    out.push(u);
                }
            }
            // a `next` stored in a field takes precedence over the method
            if g.rd.chance(1, 3) {
                g.label_pub("next_in_field");
                let o = g.fresh_pub("o");
                out.push(Stmt::var(&o, Some(mk())));
                let st = g.fresh_pub("st");
                out.push(Stmt::var(&st, Some(n(0.0))));
                out.push(Stmt::expr(Expr::assign(
                    Target::Prop(v(&o), "next".into()),
                    Expr::Lambda(Rc::new(FnDef {
                        name: RefCell::new(g.next_lambda_name()),
                        params: vec![],
                        body: Body::Block(vec![
                            Stmt::expr(Expr::compound(Target::Var(st.clone()), BinOp::Add, n(1.0))),
                            Stmt::new(StmtKind::If(Expr::bin(BinOp::Gt, v(&st), n(2.0)), vec![ret(stop())], None)),
                            ret(Expr::bin(BinOp::Add, v(&st), n(100.0))),
                        ]),
                        kind: FnKind::Lambda,
                    })),
                )));
                let y = g.fresh_pub("x");
                let gd = g.guard_begin_pub();
                let s = Stmt::new(StmtKind::For(y.clone(), v(&o), vec![Stmt::print(v(&y))]));
                let s = g.guard_end_pub(gd, s);
                out.push(s);
            }
        }
        2 => {
            // iter() hands out a fresh iterator object each time: nested loops are independent
            let k = g.fresh_pub("ItBag");
            let c = g.fresh_pub("ItCur");
            out.push(Stmt::new(StmtKind::Class(Rc::new(ClassDef {
                name: c.clone(),
                superclass: Some("Iter".into()),
                default_ctor: None,
                methods: vec![
                    fdef("new", FnKind::Init, vec!["items".into()], vec![setf("items", v("items")), setf("pos", n(0.0))]),
                    fdef("next", FnKind::Method, vec![], vec![
                        Stmt::new(StmtKind::If(
                            Expr::bin(BinOp::Ge, getf("pos"), Expr::invoke(getf("items"), "len", vec![])),
                            vec![ret(stop())],
                            None,
                        )),
                        setf("pos", Expr::bin(BinOp::Add, getf("pos"), n(1.0))),
                        ret(Expr::index(getf("items"), Expr::bin(BinOp::Sub, getf("pos"), n(1.0)))),
                    ]),
                ],
                attr_line: Cell::new(0),
            }))));
            let bag_derives = g.rd.flag();
            out.push(Stmt::new(StmtKind::Class(Rc::new(ClassDef {
                name: k.clone(),
                superclass: if bag_derives { Some("Iter".into()) } else { None },
                default_ctor: None,
                methods: vec![
                    fdef("new", FnKind::Init, vec!["items".into()], vec![setf("items", v("items"))]),
                    fdef("iter", FnKind::Method, vec![], vec![ret(Expr::invoke(v(&c), "new", vec![getf("items")]))]),
                ],
                attr_line: Cell::new(0),
            }))));
            let b = g.fresh_pub("bag");
            let items = g.expr_pub(Kind::Vec, 1);
            out.push(Stmt::var(&b, Some(Expr::invoke(v(&k), "new", vec![items]))));
            let (x, y) = (g.fresh_pub("x"), g.fresh_pub("x"));
            let gd = g.guard_begin_pub();
            let s = Stmt::new(StmtKind::For(
                x.clone(),
                v(&b),
                vec![Stmt::new(StmtKind::For(y.clone(), v(&b), vec![Stmt::print(Expr::TupleLit(vec![v(&x), v(&y)]))]))],
            ));
            let s = g.guard_end_pub(gd, s);
            out.push(s);
            if bag_derives {
                // the container has no `next` of its own: the inherited adapters must go through iter()
                g.label_pub("container_adapters");
                for _ in 0..(1 + g.rd.below(3)) {
                    let f = g.lambda_pub(1);
                    let e = match g.rd.below(5) {
                        0 => Expr::invoke(Expr::invoke(v(&b), "map", vec![f]), "collect", vec![]),
                        1 | 2 => Expr::invoke(Expr::invoke(v(&b), "filter", vec![f]), "collect", vec![]),
                        3 => Expr::invoke(v(&b), "collect", vec![]),
                        _ => {
                            let f2 = g.lambda_pub(2);
                            Expr::invoke(v(&b), "reduce", vec![f2, n(0.0)])
                        }
                    };
                    let gd = g.guard_begin_pub();
                    let s = g.guard_end_pub(gd, Stmt::print(e));
                    out.push(s);
                }
            }
        }
        3 => {
            // two loops sharing one iterator object: the inner loop consumes from the outer's stream
            g.label_pub("shared_iterator");
            let it = g.fresh_pub("it");
            let src = match g.rd.below(4) {
                0 => Expr::invoke(Expr::VecLit((1..=5).map(|k| n(k as f64)).collect()), "iter", vec![]),
                1 => Expr::invoke(Expr::str("aé€b😀c"), "iter", vec![]),
                2 => Expr::invoke(g.literal_range_pub(), "iter", vec![]),
                _ => {
                    let f = g.lambda_pub(1);
                    Expr::invoke(Expr::invoke(Expr::TupleLit((1..=6).map(|k| n(k as f64)).collect()), "iter", vec![]), "map", vec![f])
                }
            };
            out.push(Stmt::var(&it, Some(src)));
            let (x, y) = (g.fresh_pub("x"), g.fresh_pub("x"));
            let inner_exit = match g.rd.below(3) {
                0 => vec![Stmt::new(StmtKind::Break)],
                1 => vec![],
                _ => vec![Stmt::new(StmtKind::If(Expr::bin(BinOp::Eq, v(&y), n(4.0)), vec![Stmt::new(StmtKind::Break)], None))],
            };
            let mut inner = vec![Stmt::print(Expr::TupleLit(vec![v(&x), v(&y)]))];
            inner.extend(inner_exit);
            let gd = g.guard_begin_pub();
            let s = Stmt::new(StmtKind::For(
                x.clone(),
                v(&it),
                vec![Stmt::print(v(&x)), Stmt::new(StmtKind::For(y.clone(), v(&it), inner))],
            ));
            let s = g.guard_end_pub(gd, s);
            out.push(s);
            // the iterator stays exhausted
            let gd = g.guard_begin_pub();
            let s = g.guard_end_pub(gd, Stmt::print(Expr::callv("type", vec![Expr::invoke(v(&it), "next", vec![])])));
            out.push(s);
        }
        4 | 5 => {
            // mutation of the vector being iterated: index based, never a crash
            g.label_pub("mutate_while_iterating");
            let w = g.fresh_pub(if g.at_global_pub() { "g" } else { "v" });
            let len = 1 + g.rd.below(5);
            out.push(Stmt::var(&w, Some(Expr::VecLit((0..len).map(|k| n(k as f64)).collect()))));
            g.declare_pub(&w, Kind::Vec, false);
            let x = g.fresh_pub("x");
            let mut body = vec![Stmt::print(v(&x))];
            match g.rd.below(5) {
                0 => body.push(Stmt::expr(Expr::invoke(v(&w), "pop", vec![]))),
                1 => {
                    body.push(Stmt::expr(Expr::invoke(v(&w), "pop", vec![])));
                    body.push(Stmt::expr(Expr::invoke(v(&w), "pop", vec![])));
                }
                2 => body.push(Stmt::new(StmtKind::If(
                    Expr::bin(BinOp::Lt, Expr::invoke(v(&w), "len", vec![]), n(8.0)),
                    vec![Stmt::expr(Expr::invoke(v(&w), "push", vec![Expr::bin(BinOp::Add, v(&x), n(10.0))]))],
                    None,
                ))),
                3 => body.push(Stmt::expr(Expr::assign(Target::Index(v(&w), Expr::num(-1.0)), Expr::str("set")))),
                _ => {
                    body.push(Stmt::new(StmtKind::If(
                        Expr::bin(BinOp::Eq, v(&x), n(1.0)),
                        vec![Stmt::expr(Expr::invoke(v(&w), "pop", vec![])), Stmt::new(StmtKind::Continue)],
                        None,
                    )));
                    body.push(Stmt::expr(Expr::invoke(v(&w), "push", vec![n(7.0)])));
                    body.push(Stmt::new(StmtKind::If(Expr::bin(BinOp::Gt, Expr::invoke(v(&w), "len", vec![]), n(7.0)), vec![Stmt::new(StmtKind::Break)], None)));
                }
            }
            let gd = g.guard_begin_pub();
            let s = Stmt::new(StmtKind::For(x, v(&w), body));
            let s = g.guard_end_pub(gd, s);
            out.push(s);
            out.push(Stmt::print(v(&w)));
            // an exhausted iterator whose vector then shrinks or grows
            if g.rd.chance(1, 2) {
                let it = g.fresh_pub("it");
                out.push(Stmt::var(&it, Some(Expr::invoke(v(&w), "iter", vec![]))));
                let y = g.fresh_pub("x");
                out.push(Stmt::new(StmtKind::For(y, v(&it), vec![])));
                let gd = g.guard_begin_pub();
                let s = g.guard_end_pub(gd, Stmt::expr(Expr::invoke(v(&w), "pop", vec![])));
                out.push(s);
                let gd = g.guard_begin_pub();
                let s = g.guard_end_pub(gd, Stmt::print(Expr::callv("type", vec![Expr::invoke(v(&it), "next", vec![])])));
                out.push(s);
                out.push(Stmt::expr(Expr::invoke(v(&w), "push", vec![n(1.0)])));
                out.push(Stmt::expr(Expr::invoke(v(&w), "push", vec![n(2.0)])));
                let gd = g.guard_begin_pub();
                let s = g.guard_end_pub(gd, Stmt::print(Expr::invoke(v(&it), "next", vec![])));
                out.push(s);
            } else if g.rd.flag() {
                // the same through an adapter: run to the end, the vector grows, the adapter is asked
                // again (the adapters are as index-based as the iterator they wrap)
                g.label_pub("exhausted_adapter_after_growth");
                let it = g.fresh_pub("it");
                let f = g.lambda_pub(1);
                let adapter = if g.rd.flag() { "map" } else { "filter" };
                out.push(Stmt::var(&it, Some(Expr::invoke(Expr::invoke(v(&w), "iter", vec![]), adapter, vec![f]))));
                let gd = g.guard_begin_pub();
                let s = g.guard_end_pub(gd, Stmt::print(Expr::invoke(v(&it), "collect", vec![])));
                out.push(s);
                out.push(Stmt::expr(Expr::invoke(v(&w), "push", vec![n(4.0)])));
                out.push(Stmt::expr(Expr::invoke(v(&w), "push", vec![n(5.0)])));
                let gd = g.guard_begin_pub();
                let s = g.guard_end_pub(gd, Stmt::print(Expr::invoke(v(&it), "collect", vec![])));
                out.push(s);
                let gd = g.guard_begin_pub();
                let s = g.guard_end_pub(gd, Stmt::print(Expr::callv("type", vec![Expr::invoke(v(&it), "next", vec![])])));
                out.push(s);
            }
        }
        _ => {
            // early exits from a loop over adapters, then the iterator is used again
            let it = g.fresh_pub("it");
            let f = g.lambda_pub(1);
            out.push(Stmt::var(
                &it,
                Some(Expr::invoke(Expr::invoke(Expr::range(n(0.0), n(5.0)), "iter", vec![]), if g.rd.flag() { "map" } else { "filter" }, vec![f])),
            ));
            g.note_range(0, 5);
            let x = g.fresh_pub("x");
            let gd = g.guard_begin_pub();
            let s = Stmt::new(StmtKind::For(
                x.clone(),
                v(&it),
                vec![
                    Stmt::new(StmtKind::If(Expr::bin(BinOp::Eq, v(&x), n(1.0)), vec![Stmt::new(StmtKind::Continue)], None)),
                    Stmt::print(v(&x)),
                    Stmt::new(StmtKind::If(Expr::bin(BinOp::Ge, v(&x), n(2.0)), vec![Stmt::new(StmtKind::Break)], None)),
                ],
            ));
            let s = g.guard_end_pub(gd, s);
            out.push(s);
            let gd = g.guard_begin_pub();
            let s = g.guard_end_pub(gd, Stmt::print(Expr::invoke(v(&it), "collect", vec![])));
            out.push(s);
        }
    }
}
