//! One engine for all properties: families of cases (random byte strings decoded by the
//! property, or enumerated indices), worker processes, proptest as driver and shrinker,
//! crash containment, known-finding matching, replay files, evidence.

use std::collections::{BTreeMap, HashSet};
use std::fs;
use std::io::Write;
use std::path::{Path, PathBuf};
use std::process::{Command, Stdio};
use std::time::Instant;

use proptest::collection::vec as pvec;
use proptest::prelude::*;
use proptest::test_runner::{Config, RngSeed, TestCaseError, TestError, TestRunner};
use serde_json::{json, Value as J};

use crate::rd::{fnv64, mix};

#[derive(Clone, Copy, Debug, PartialEq)]
pub enum Tier {
    Quick,
    Thorough,
}

impl Tier {
    pub fn name(&self) -> &'static str {
        match self {
            Tier::Quick => "quick",
            Tier::Thorough => "thorough",
        }
    }
}

#[derive(Clone, Debug)]
pub enum FamilyKind {
    /// `cases` random byte strings of length < `max_len`
    Random { cases: u64, max_len: usize },
    /// indices 0..count, each encoded as 8 little-endian bytes
    Enumerated { count: u64, exhaustive: bool },
}

#[derive(Clone, Debug)]
pub struct Family {
    pub name: &'static str,
    pub kind: FamilyKind,
}

#[derive(Clone, Debug)]
pub enum Verdict {
    Pass {
        nontrivial: bool,
        /// hash identifying the case for distinctness
        hash: u64,
    },
    Discard(&'static str),
    Fail {
        /// short stable signature: what kind of failure, used for de-duplication and known-finding matching
        sig: String,
        detail: String,
    },
}

pub struct CaseCtx<'a> {
    pub family: &'a str,
    pub bytes: &'a [u8],
    pub labels: &'a mut BTreeMap<String, u64>,
    /// strict = replay mode: no known-finding tolerance inside the property
    pub strict: bool,
    pub tier: Tier,
}

impl<'a> CaseCtx<'a> {
    pub fn label(&mut self, l: &str) {
        *self.labels.entry(l.to_string()).or_insert(0) += 1;
    }
    pub fn label_n(&mut self, l: &str, n: u64) {
        *self.labels.entry(l.to_string()).or_insert(0) += n;
    }
    pub fn index(&self) -> u64 {
        let mut b = [0u8; 8];
        let n = self.bytes.len().min(8);
        b[..n].copy_from_slice(&self.bytes[..n]);
        u64::from_le_bytes(b)
    }
}

pub trait Property {
    fn id(&self) -> &'static str;
    fn families(&self, tier: Tier) -> Vec<Family>;
    fn rule(&self) -> String;
    fn assumptions(&self) -> Vec<String> {
        vec![]
    }
    /// Human-readable rendering of a case (for samples and replay files).
    fn render(&self, family: &str, bytes: &[u8]) -> String;
    fn run(&self, ctx: &mut CaseCtx) -> Verdict;
    /// label -> minimum number of occurrences the generator must reach per tier (coverage floors)
    fn floors(&self, _tier: Tier) -> Vec<(&'static str, u64)> {
        vec![]
    }
    /// CPU seconds one case may take before the worker gives up on it; Some(sig): such a case is a
    /// violation with that signature (termination is part of the property), None: inconclusive
    fn hang_signature(&self) -> Option<&'static str> {
        None
    }
    /// extra keys for the evidence coverage object, computed from merged labels
    fn extra_coverage(&self, _labels: &BTreeMap<String, u64>) -> Vec<(String, J)> {
        vec![]
    }
}

pub fn verif_root() -> PathBuf {
    if let Ok(p) = std::env::var("VERIF_ROOT") {
        return PathBuf::from(p);
    }
    PathBuf::from("/verif")
}

// ---------------------------------------------------------------------------------------------
// known findings

#[derive(Clone, Debug)]
pub struct Known {
    pub property: String,
    pub sig: String,
    pub replay: String,
    pub desc: String,
}

pub fn load_known(id: &str) -> Vec<Known> {
    let path = verif_root().join("KNOWN_FINDINGS.txt");
    let mut v = Vec::new();
    if let Ok(text) = fs::read_to_string(path) {
        for line in text.lines() {
            let line = line.trim();
            if !line.starts_with("known:") {
                continue;
            }
            let rest = line["known:".len()..].trim();
            let mut property = String::new();
            let mut sig = String::new();
            let mut replay = String::new();
            let mut desc = Vec::new();
            for tok in rest.split_whitespace() {
                if desc.is_empty() {
                    if let Some(x) = tok.strip_prefix("property=") {
                        property = x.to_string();
                        continue;
                    }
                    if let Some(x) = tok.strip_prefix("sig=") {
                        sig = x.to_string();
                        continue;
                    }
                    if let Some(x) = tok.strip_prefix("replay=") {
                        replay = x.to_string();
                        continue;
                    }
                }
                desc.push(tok);
            }
            // "property=C08,C09": the first id owns the finding (replays and reports it); the
            // others only use it to recognise the same defect when their generators run into it
            let mut ids = property.split(',');
            let owner = ids.next().unwrap_or("").to_string();
            let applies = owner == id || ids.any(|x| x == id);
            if applies {
                let property = if owner == id { owner } else { format!("also:{}", owner) };
                v.push(Known {
                    property,
                    sig,
                    replay,
                    desc: desc.join(" "),
                });
            }
        }
    }
    v
}

// ---------------------------------------------------------------------------------------------
// replay files

pub fn hex(bytes: &[u8]) -> String {
    let mut s = String::with_capacity(bytes.len() * 2);
    for b in bytes {
        s.push_str(&format!("{:02x}", b));
    }
    s
}

pub fn unhex(s: &str) -> Vec<u8> {
    let s = s.trim();
    let mut v = Vec::with_capacity(s.len() / 2);
    let b = s.as_bytes();
    let mut i = 0;
    while i + 1 < b.len() {
        if let Ok(x) = u8::from_str_radix(&s[i..i + 2], 16) {
            v.push(x);
        }
        i += 2;
    }
    v
}

pub fn write_replay(
    dir: &Path,
    id: &str,
    family: &str,
    bytes: &[u8],
    sig: &str,
    detail: &str,
    rendered: &str,
) -> PathBuf {
    let _ = fs::create_dir_all(dir);
    let name = format!(
        "{}-{}-{:016x}.json",
        id,
        family,
        fnv64(format!("{}|{}", sig, hex(bytes)).as_bytes())
    );
    let path = dir.join(name);
    let j = json!({
        "property": id,
        "family": family,
        "bytes_hex": hex(bytes),
        "signature": sig,
        "detail": detail,
        "case": rendered,
    });
    let _ = fs::write(&path, serde_json::to_string_pretty(&j).unwrap());
    path
}

pub fn read_replay(path: &Path) -> Option<(String, Vec<u8>, String)> {
    let text = fs::read_to_string(path).ok()?;
    let j: J = serde_json::from_str(&text).ok()?;
    let family = j.get("family")?.as_str()?.to_string();
    let bytes = unhex(j.get("bytes_hex")?.as_str()?);
    let sig = j
        .get("signature")
        .and_then(|s| s.as_str())
        .unwrap_or("")
        .to_string();
    Some((family, bytes, sig))
}

// ---------------------------------------------------------------------------------------------
// worker side

#[derive(Default)]
struct FamStats {
    evaluations: u64,
    discards: BTreeMap<String, u64>,
    nontrivial: HashSet<u64>,
    samples: Vec<String>,
    nt_samples: Vec<String>,
    excluded_known: BTreeMap<String, u64>,
}

struct Failure {
    family: String,
    bytes: Vec<u8>,
    sig: String,
    detail: String,
    rendered: String,
}

struct CurFile {
    file: Option<fs::File>,
}

impl CurFile {
    fn new(path: Option<&Path>) -> Self {
        CurFile {
            file: path.and_then(|p| fs::File::create(p).ok()),
        }
    }
    fn set(&mut self, family: &str, bytes: &[u8]) {
        use std::io::{Seek, SeekFrom};
        CASE_START_TICKS.store(cpu_ticks(), std::sync::atomic::Ordering::Relaxed);
        if let Some(f) = self.file.as_mut() {
            let _ = f.seek(SeekFrom::Start(0));
            let line = format!("{} {}\n", family, hex(bytes));
            let _ = f.write_all(line.as_bytes());
            let _ = f.set_len(line.len() as u64);
        }
    }
}

/// A signature is `base` or `base+T1+T2…` where the Ti are trigger events that the failing case
/// executed. It matches the known findings when it is listed verbatim, or when every `base+Ti`
/// is listed (a case that ran into several recorded defects at once).
/// `pattern` with exactly one `*` (not at the start) matches any text with that prefix and suffix
fn glob_match(pattern: &str, text: &str) -> bool {
    match pattern.split_once('*') {
        Some((pre, post)) if !pre.is_empty() && !post.contains('*') => {
            text.len() >= pre.len() + post.len() && text.starts_with(pre) && text.ends_with(post)
        }
        _ => false,
    }
}

static CASE_START_TICKS: std::sync::atomic::AtomicU64 = std::sync::atomic::AtomicU64::new(0);

/// user + system CPU time of this process in clock ticks (1/100 s)
fn cpu_ticks() -> u64 {
    let stat = fs::read_to_string("/proc/self/stat").unwrap_or_default();
    // fields after the command name (which may contain spaces, but ends with ')')
    let rest = stat.rsplit_once(')').map(|x| x.1).unwrap_or("");
    let f: Vec<&str> = rest.split_whitespace().collect();
    // rest starts at field 3 (state): utime is field 14, stime field 15
    let utime: u64 = f.get(11).and_then(|x| x.parse().ok()).unwrap_or(0);
    let stime: u64 = f.get(12).and_then(|x| x.parse().ok()).unwrap_or(0);
    utime + stime
}

/// A case that burns more than the CPU budget is abandoned: the worker writes `<out>.hang` and
/// exits with status 3 (the case in progress is in the `.cur` file).
fn start_watchdog(out: &Path) {
    let limit_s: u64 = std::env::var("VERIF_CASE_CPU_S").ok().and_then(|s| s.parse().ok()).unwrap_or(60);
    // (testing aid: the budget in ticks of 1/100 s)
    let limit_ticks: u64 = std::env::var("VERIF_CASE_CPU_TICKS").ok().and_then(|s| s.parse().ok()).unwrap_or(limit_s * 100);
    let marker = out.with_extension("hang");
    CASE_START_TICKS.store(cpu_ticks(), std::sync::atomic::Ordering::Relaxed);
    std::thread::spawn(move || loop {
        std::thread::sleep(std::time::Duration::from_millis(250));
        let start = CASE_START_TICKS.load(std::sync::atomic::Ordering::Relaxed);
        let now = cpu_ticks();
        if now.saturating_sub(start) > limit_ticks {
            let _ = fs::write(&marker, format!("{} cpu ticks on one case", now - start));
            std::process::exit(3);
        }
    });
}

pub fn known_match<'a>(known: &'a [Known], sig: &str) -> Option<&'a Known> {
    if let Some(k) = known.iter().find(|k| k.sig == sig || glob_match(&k.sig, sig)) {
        return Some(k);
    }
    let mut parts = sig.split('+');
    let base = parts.next()?;
    let triggers: Vec<&str> = parts.collect();
    if triggers.is_empty() {
        return None;
    }
    let mut first = None;
    for t in triggers {
        let want = format!("{}+{}", base, t);
        // "*+T": the defect behind trigger T corrupts interpreter state, any failure shape counts
        let any = format!("*+{}", t);
        match known.iter().find(|k| k.sig == want || k.sig == any) {
            Some(k) => {
                if first.is_none() {
                    first = Some(k);
                }
            }
            None => return None,
        }
    }
    first
}

/// Run worker `w` of `n`: its share of every family. Writes a JSON report to `out`.
pub fn run_worker(prop: &dyn Property, tier: Tier, seed: u64, w: u64, n: u64, out: &Path) {
    let known = load_known(prop.id());
    // cases an earlier incarnation of this worker abandoned because they exceeded the per-case CPU
    // budget ("<family> <hex>" per line): they are not evaluated again but counted as discarded
    let skip: HashSet<String> = fs::read_to_string(out.with_extension("skip"))
        .map(|t| t.lines().map(|l| l.trim().to_string()).filter(|l| !l.is_empty()).collect())
        .unwrap_or_default();
    start_watchdog(out);
    let cur_path = out.with_extension("cur");
    let cur = std::cell::RefCell::new(CurFile::new(Some(&cur_path)));
    let mut labels: BTreeMap<String, u64> = BTreeMap::new();
    let mut fam_reports = Vec::new();
    let mut failures: Vec<Failure> = Vec::new();

    for (fi, fam) in prop.families(tier).iter().enumerate() {
        let stats = std::cell::RefCell::new(FamStats::default());
        let labels_cell = std::cell::RefCell::new(&mut labels);
        let failed = std::cell::Cell::new(false);
        let first_fail: std::cell::RefCell<Option<(String, String)>> =
            std::cell::RefCell::new(None);
        // shrinking is bounded in time as well as in steps: a failure whose every re-evaluation is
        // slow (a runner that hangs until its timeout, say) must still be reported promptly
        let shrink_started: std::cell::Cell<Option<std::time::Instant>> = std::cell::Cell::new(None);

        // The closure evaluates one case; used both for generation and for shrinking.
        let eval = |bytes: &[u8]| -> Result<(), TestCaseError> {
            cur.borrow_mut().set(fam.name, bytes);
            let counting = !failed.get();
            if !skip.is_empty() && skip.contains(&format!("{} {}", fam.name, hex(bytes))) {
                if counting {
                    let mut st = stats.borrow_mut();
                    st.evaluations += 1;
                    *st.discards.entry("abandoned: the case exceeded the per-case CPU budget".to_string()).or_insert(0) += 1;
                }
                return Ok(());
            }
            if !counting {
                match shrink_started.get() {
                    None => shrink_started.set(Some(std::time::Instant::now())),
                    Some(t0) => {
                        if t0.elapsed().as_secs() > 90 {
                            return Ok(());
                        }
                    }
                }
            }
            let mut scratch = BTreeMap::new();
            let verdict = {
                let mut lab = labels_cell.borrow_mut();
                let mut ctx = CaseCtx {
                    family: fam.name,
                    bytes,
                    labels: if counting { &mut **lab } else { &mut scratch },
                    strict: false,
                    tier,
                };
                prop.run(&mut ctx)
            };
            let mut st = stats.borrow_mut();
            match verdict {
                Verdict::Pass { nontrivial, hash } => {
                    if counting {
                        st.evaluations += 1;
                        if st.samples.len() < 2 {
                            let r = prop.render(fam.name, bytes);
                            st.samples.push(r);
                        }
                        if nontrivial {
                            if st.nontrivial.insert(hash) && st.nt_samples.len() < 3 {
                                let r = prop.render(fam.name, bytes);
                                st.nt_samples.push(r);
                            }
                        }
                    }
                    Ok(())
                }
                Verdict::Discard(why) => {
                    if counting {
                        st.evaluations += 1;
                        *st.discards.entry(why.to_string()).or_insert(0) += 1;
                    }
                    Ok(())
                }
                Verdict::Fail { sig, detail } => {
                    if known_match(&known, &sig).is_some() {
                        if counting {
                            st.evaluations += 1;
                            *st.excluded_known.entry(sig).or_insert(0) += 1;
                        }
                        return Ok(());
                    }
                    if counting {
                        st.evaluations += 1;
                        failed.set(true);
                        *first_fail.borrow_mut() = Some((sig.clone(), detail.clone()));
                    } else {
                        // while shrinking: only accept candidates failing with the same signature
                        let same = first_fail
                            .borrow()
                            .as_ref()
                            .map(|(s, _)| *s == sig)
                            .unwrap_or(true);
                        if !same {
                            return Ok(());
                        }
                    }
                    Err(TestCaseError::fail(format!("{}\u{1f}{}", sig, detail)))
                }
            }
        };

        let mut fail: Option<(Vec<u8>, String)> = None;
        match &fam.kind {
            FamilyKind::Random { cases, max_len } => {
                let share = cases / n + if w < cases % n { 1 } else { 0 };
                if share > 0 {
                    let s = mix(seed ^ mix(fnv64(prop.id().as_bytes()) ^ mix(w * 1000 + fi as u64)));
                    let mut seed_bytes = [0u8; 32];
                    for k in 0..4 {
                        seed_bytes[k * 8..k * 8 + 8]
                            .copy_from_slice(&mix(s.wrapping_add(k as u64)).to_le_bytes());
                    }
                    let _ = seed_bytes;
                    let config = Config {
                        cases: share as u32,
                        failure_persistence: None,
                        rng_seed: RngSeed::Fixed(s),
                        max_shrink_iters: 4000,
                        max_local_rejects: u32::MAX,
                        max_global_rejects: u32::MAX,
                        ..Config::default()
                    };
                    let mut runner = TestRunner::new(config);
                    let strat = pvec(any::<u8>(), 0..*max_len);
                    match runner.run(&strat, |bytes| eval(&bytes)) {
                        Ok(()) => {}
                        Err(TestError::Fail(reason, value)) => {
                            fail = Some((value, reason.message().to_string()));
                        }
                        Err(TestError::Abort(reason)) => {
                            fail = Some((vec![], format!("harness-abort\u{1f}{}", reason.message())));
                        }
                    }
                }
            }
            FamilyKind::Enumerated { count, .. } => {
                let mut i = w;
                while i < *count {
                    let bytes = i.to_le_bytes();
                    if let Err(e) = eval(&bytes) {
                        let msg = match e {
                            TestCaseError::Fail(r) => r.message().to_string(),
                            TestCaseError::Reject(r) => r.message().to_string(),
                        };
                        fail = Some((bytes.to_vec(), msg));
                        break;
                    }
                    i += n;
                }
            }
        }
        if let Some((bytes, msg)) = fail {
            let (sig, detail) = match msg.split_once('\u{1f}') {
                Some((a, b)) => (a.to_string(), b.to_string()),
                None => (msg.clone(), String::new()),
            };
            // re-evaluate the minimal case for an accurate detail text
            let mut scratch = BTreeMap::new();
            let mut ctx = CaseCtx {
                family: fam.name,
                bytes: &bytes,
                labels: &mut scratch,
                strict: false,
                tier,
            };
            let (sig, detail) = match prop.run(&mut ctx) {
                Verdict::Fail { sig: s2, detail: d2 } if s2 == sig => (s2, d2),
                _ => (sig, detail),
            };
            failures.push(Failure {
                family: fam.name.to_string(),
                rendered: prop.render(fam.name, &bytes),
                bytes,
                sig,
                detail,
            });
        }
        let st = stats.into_inner();
        fam_reports.push(json!({
            "family": fam.name,
            "evaluations": st.evaluations,
            "discards": st.discards,
            "nontrivial": st.nontrivial.iter().collect::<Vec<_>>(),
            "samples": st.samples,
            "nt_samples": st.nt_samples,
            "excluded_known": st.excluded_known,
        }));
    }
    let report = json!({
        "worker": w,
        "families": fam_reports,
        "labels": labels,
        "failures": failures.iter().map(|f| json!({
            "family": f.family, "bytes_hex": hex(&f.bytes), "sig": f.sig,
            "detail": f.detail, "rendered": f.rendered,
        })).collect::<Vec<_>>(),
        "done": true,
    });
    let tmp = out.with_extension("tmp");
    fs::write(&tmp, serde_json::to_string(&report).unwrap()).unwrap();
    fs::rename(&tmp, out).unwrap();
    let _ = fs::remove_file(cur_path);
}

/// Evaluate a single case in this process (strict mode). Exit code semantics used by
/// `--replay` and crash shrinking: returns the verdict.
pub fn run_single(prop: &dyn Property, family: &str, bytes: &[u8], tier: Tier) -> Verdict {
    let mut labels = BTreeMap::new();
    let mut ctx = CaseCtx {
        family,
        bytes,
        labels: &mut labels,
        strict: true,
        tier,
    };
    prop.run(&mut ctx)
}

// ---------------------------------------------------------------------------------------------
// parent side

pub struct RunSummary {
    pub violations: usize,
    pub inconclusive: Vec<String>,
}

fn case_timeout_s() -> u64 {
    std::env::var("VERIF_CASE_TIMEOUT_S")
        .ok()
        .and_then(|s| s.parse().ok())
        .unwrap_or(60)
}

fn self_exe() -> PathBuf {
    std::env::current_exe().expect("current_exe")
}

/// This executable, started through a shell that caps its address space (a runaway case must
/// not take the machine down).
fn limited_command() -> Command {
    let kb: u64 = std::env::var("VERIF_MEM_KB")
        .ok()
        .and_then(|s| s.parse().ok())
        .unwrap_or(8 * 1024 * 1024);
    let mut c = Command::new("/bin/sh");
    c.arg("-c")
        .arg(format!("ulimit -v {}; exec \"$0\" \"$@\"", kb))
        .arg(self_exe());
    c
}

/// Run one case in a subprocess; Some(sig) if it fails or crashes, None if it passes.
fn subprocess_case(id: &str, family: &str, bytes: &[u8], tier: Tier, dir: &Path) -> Option<String> {
    let f = dir.join(format!("single-{}.case", std::process::id()));
    fs::write(&f, format!("{} {}\n", family, hex(bytes))).ok()?;
    let mut child = limited_command()
        .arg(id)
        .arg("--single")
        .arg(&f)
        .arg("--tier")
        .arg(tier.name())
        .stdout(Stdio::piped())
        .stderr(Stdio::null())
        .spawn()
        .ok()?;
    let t0 = Instant::now();
    loop {
        match child.try_wait() {
            Ok(Some(_)) => break,
            Ok(None) => {
                if t0.elapsed().as_secs() > case_timeout_s() {
                    let _ = child.kill();
                    let _ = child.wait();
                    let _ = fs::remove_file(&f);
                    return Some("timeout".to_string());
                }
                std::thread::sleep(std::time::Duration::from_millis(5));
            }
            Err(_) => break,
        }
    }
    let out = child.wait_with_output().ok()?;
    let _ = fs::remove_file(&f);
    match out.status.code() {
        Some(0) => None,
        Some(1) => {
            let text = String::from_utf8_lossy(&out.stdout);
            let sig = text
                .lines()
                .find_map(|l| l.strip_prefix("SIG "))
                .unwrap_or("fail")
                .to_string();
            Some(sig)
        }
        Some(c) => Some(format!("exit-{}", c)),
        None => {
            use std::os::unix::process::ExitStatusExt;
            Some(format!("crash-signal-{}@{}", out.status.signal().unwrap_or(0), family))
        }
    }
}

/// Delta-debug a crashing byte string with subprocess runs (bounded budget).
fn shrink_crash(id: &str, family: &str, bytes: &[u8], sig: &str, tier: Tier, dir: &Path) -> Vec<u8> {
    let mut best = bytes.to_vec();
    let started = Instant::now();
    let mut budget = 150;
    let mut chunk = (best.len() / 2).max(1);
    while chunk >= 1 && budget > 0 {
        let mut i = 0;
        let mut progressed = false;
        while i < best.len() && budget > 0 {
            if started.elapsed().as_secs() > 90 {
                return best;
            }
            let mut cand = best.clone();
            let end = (i + chunk).min(cand.len());
            cand.drain(i..end);
            budget -= 1;
            if subprocess_case(id, family, &cand, tier, dir).as_deref() == Some(sig) {
                best = cand;
                progressed = true;
            } else {
                i += chunk;
            }
        }
        if !progressed {
            if chunk == 1 {
                break;
            }
            chunk /= 2;
        }
    }
    best
}

pub fn run_parent(prop: &dyn Property, tier: Tier, seed: u64) -> i32 {
    let start = Instant::now();
    let id = prop.id();
    let root = verif_root();
    let work = root.join("work").join(format!("{}-{}", id, std::process::id()));
    let _ = fs::remove_dir_all(&work);
    fs::create_dir_all(&work).unwrap();
    let known = load_known(id);
    let mut violations: Vec<(String, PathBuf)> = Vec::new();
    let mut inconclusive: Vec<String> = Vec::new();
    let mut notes: Vec<String> = Vec::new();

    // 1. regression tier: saved replays must pass; open findings are reported if still failing
    let mut replayed = 0;
    let rdir = root.join("replays").join(id);
    if let Ok(rd) = fs::read_dir(&rdir) {
        let mut files: Vec<_> = rd.flatten().map(|e| e.path()).collect();
        files.sort();
        for f in files {
            if f.extension().map(|e| e == "json").unwrap_or(false) {
                if let Some((family, bytes, _)) = read_replay(&f) {
                    replayed += 1;
                    if let Some(sig) = subprocess_case(id, &family, &bytes, tier, &work) {
                        if known_match(&known, &sig).is_none() {
                            println!("VIOLATION property={} replay={}", id, f.display());
                            println!("  regression replay fails: {}", sig);
                            violations.push((sig, f.clone()));
                        }
                    }
                }
            }
        }
    }
    let mut known_still_failing = 0;
    for k in known.iter().filter(|k| !k.property.starts_with("also:")) {
        let f = root.join(&k.replay);
        match read_replay(&f) {
            Some((family, bytes, _)) => match subprocess_case(id, &family, &bytes, tier, &work) {
                Some(sig) if sig == k.sig || glob_match(&k.sig, &sig) => {
                    known_still_failing += 1;
                    println!("KNOWN-FINDING: property={} {} [sig={}]", id, k.desc, k.sig);
                }
                Some(sig) => {
                    println!("VIOLATION property={} replay={}", id, f.display());
                    println!(
                        "  known finding's reproducer now fails differently: {} (listed: {})",
                        sig, k.sig
                    );
                    violations.push((sig, f.clone()));
                }
                None => {
                    notes.push(format!("listed finding {} no longer reproduces", k.sig));
                }
            },
            None => {
                inconclusive.push(format!("cannot read finding replay {}", f.display()));
            }
        }
    }

    // 2. generated search in worker processes
    let n: u64 = std::env::var("VERIF_WORKERS")
        .ok()
        .and_then(|s| s.parse().ok())
        .unwrap_or_else(|| {
            std::thread::available_parallelism()
                .map(|n| n.get() as u64)
                .unwrap_or(4)
                .min(16)
        });
    let backstop_s: u64 = std::env::var("VERIF_BACKSTOP_S")
        .ok()
        .and_then(|s| s.parse().ok())
        .unwrap_or(match tier {
            Tier::Quick => 900,
            Tier::Thorough => 7200,
        });
    let spawn_worker = |w: u64, out: &Path| -> std::process::Child {
        limited_command()
            .arg(id)
            .arg("--worker")
            .arg(format!("{}/{}", w, n))
            .arg("--tier")
            .arg(tier.name())
            .arg("--seed")
            .arg(seed.to_string())
            .arg("--out")
            .arg(out)
            .stdout(Stdio::null())
            .stderr(
                fs::File::create(out.with_extension("stderr"))
                    .map(Stdio::from)
                    .unwrap_or_else(|_| Stdio::null()),
            )
            .spawn()
            .expect("spawn worker")
    };
    let mut abandoned_cases: u64 = 0;
    let mut children = Vec::new();
    for w in 0..n {
        let out = work.join(format!("w{}.json", w));
        let _ = fs::remove_file(out.with_extension("skip"));
        let child = limited_command()
            .arg(id)
            .arg("--worker")
            .arg(format!("{}/{}", w, n))
            .arg("--tier")
            .arg(tier.name())
            .arg("--seed")
            .arg(seed.to_string())
            .arg("--out")
            .arg(&out)
            .stdout(Stdio::null())
            .stderr(
                fs::File::create(out.with_extension("stderr"))
                    .map(Stdio::from)
                    .unwrap_or_else(|_| Stdio::null()),
            )
            .spawn()
            .expect("spawn worker");
        children.push((w, out, child));
    }
    let mut reports: Vec<J> = Vec::new();
    let mut seen_hang: HashSet<String> = HashSet::new();
    for (w, out, mut child) in children {
        // wait with backstop
        let mut respawns = 0;
        let status = loop {
            let status = loop {
                match child.try_wait() {
                    Ok(Some(st)) => break Some(st),
                    Ok(None) => {
                        if start.elapsed().as_secs() > backstop_s {
                            let _ = child.kill();
                            let _ = child.wait();
                            break None;
                        }
                        std::thread::sleep(std::time::Duration::from_millis(20));
                    }
                    Err(_) => break None,
                }
            };
            // a case that exceeded the per-case CPU budget, in a property that says nothing about
            // running time: set the case aside (counted as discarded) and run the worker's share again
            // without it; a resource limit is not a verdict, on that case or on the whole run
            if status.is_some() && !out.exists() && out.with_extension("hang").exists() && prop.hang_signature().is_none() && respawns < 4 {
                let line = fs::read_to_string(out.with_extension("cur")).unwrap_or_default();
                let line = line.trim();
                if !line.is_empty() {
                    let sk = out.with_extension("skip");
                    let mut all = fs::read_to_string(&sk).unwrap_or_default();
                    all.push_str(line);
                    all.push('\n');
                    let _ = fs::write(&sk, all);
                    let _ = fs::remove_file(out.with_extension("hang"));
                    abandoned_cases += 1;
                    respawns += 1;
                    child = spawn_worker(w, &out);
                    continue;
                }
            }
            break status;
        };
        let stderr_text = fs::read(out.with_extension("stderr"))
            .map(|b| String::from_utf8_lossy(&b).to_string())
            .unwrap_or_default();
        match status {
            None => {
                inconclusive.push(format!("worker {} exceeded the wall-clock backstop and was killed", w));
            }
            Some(st) => {
                if out.exists() {
                    if let Ok(text) = fs::read_to_string(&out) {
                        if let Ok(j) = serde_json::from_str::<J>(&text) {
                            reports.push(j);
                            continue;
                        }
                    }
                    inconclusive.push(format!("worker {} wrote an unreadable report", w));
                } else {
                    // died before finishing: the case in progress is the suspect
                    if out.with_extension("hang").exists() {
                        let cur = out.with_extension("cur");
                        let line = fs::read_to_string(&cur).unwrap_or_default();
                        match (prop.hang_signature(), line.trim().split_once(' ')) {
                            (Some(sig), Some((family, hx))) => {
                                let bytes = unhex(hx);
                                if known_match(&known, sig).is_none() && seen_hang.insert(sig.to_string()) {
                                    let p = write_replay(
                                        &root.join("replays").join("new"),
                                        id,
                                        family,
                                        &bytes,
                                        sig,
                                        "the case did not finish within the per-case CPU budget (60 s; normal cases take microseconds)",
                                        &prop.render(family, &bytes),
                                    );
                                    println!("VIOLATION property={} replay={}", id, p.display());
                                    println!("  {}: a case used more than the CPU budget without finishing", sig);
                                    violations.push((sig.to_string(), p));
                                }
                            }
                            _ => inconclusive.push(format!("worker {} abandoned a case that exceeded the per-case CPU budget", w)),
                        }
                        continue;
                    }
                    if stderr_text.contains("panicked at src/") || stderr_text.contains("panicked at harness/src/") {
                        let first = stderr_text.lines().skip_while(|l| !l.contains("panicked at")).take(2).collect::<Vec<_>>().join(" ");
                        inconclusive.push(format!("worker {} hit a bug in the harness itself: {}", w, first));
                        continue;
                    }
                    let cur = out.with_extension("cur");
                    let desc = {
                        use std::os::unix::process::ExitStatusExt;
                        match (st.code(), st.signal()) {
                            (_, Some(s)) => format!("crash-signal-{}", s),
                            (Some(c), _) => format!("exit-{}", c),
                            _ => "died".to_string(),
                        }
                    };
                    let tail: String = stderr_text
                        .lines()
                        .rev()
                        .take(6)
                        .collect::<Vec<_>>()
                        .into_iter()
                        .rev()
                        .collect::<Vec<_>>()
                        .join(" | ");
                    if !violations.is_empty() {
                        // a violation is already reported with its replay file: reproducing and
                        // shrinking the last case of every further dead worker (minutes each when the
                        // fault is a hang or a memory blow-up) would only delay the verdict
                        notes.push(format!("worker {} died as well ({}); not triaged, a violation had already been reported", w, desc));
                        continue;
                    }
                    if let Ok(line) = fs::read_to_string(&cur) {
                        if let Some((family, hx)) = line.trim().split_once(' ') {
                            let bytes = unhex(hx);
                            let resource = tail.contains("memory allocation of") || tail.contains("failed to allocate");
                            match subprocess_case(id, family, &bytes, tier, &work) {
                                Some(sig) if sig == "timeout" || resource => {
                                    inconclusive.push(format!(
                                        "worker {} ran out of time or memory ({} / {}); not a verdict on the property",
                                        w, desc, sig
                                    ));
                                }
                                Some(sig) => {
                                    if known_match(&known, &sig).is_some() {
                                        notes.push(format!(
                                            "worker {} died on a case matching known finding {}; its remaining share was not explored",
                                            w, sig
                                        ));
                                        inconclusive.push(format!(
                                            "worker {} stopped early at a known crashing finding ({})",
                                            w, sig
                                        ));
                                    } else {
                                        let small = shrink_crash(id, family, &bytes, &sig, tier, &work);
                                        let p = write_replay(
                                            &root.join("replays").join("new"),
                                            id,
                                            family,
                                            &small,
                                            &sig,
                                            &format!("worker died ({}): {}", desc, tail),
                                            &prop.render(family, &small),
                                        );
                                        println!("VIOLATION property={} replay={}", id, p.display());
                                        println!("  worker process died: {} {}", sig, tail);
                                        violations.push((sig, p));
                                    }
                                }
                                None => inconclusive.push(format!(
                                    "worker {} died ({}) but its last case does not reproduce: {}",
                                    w, desc, tail
                                )),
                            }
                        }
                    } else {
                        inconclusive.push(format!("worker {} died ({}) before its first case: {}", w, desc, tail));
                    }
                }
            }
        }
    }

    // 3. merge
    let fams = prop.families(tier);
    let mut evaluations: u64 = 0;
    let mut distinct: HashSet<(String, u64)> = HashSet::new();
    let mut labels: BTreeMap<String, u64> = BTreeMap::new();
    let mut discards: BTreeMap<String, u64> = BTreeMap::new();
    let mut excluded: BTreeMap<String, u64> = BTreeMap::new();
    let mut per_family: BTreeMap<String, (u64, u64)> = BTreeMap::new();
    let mut samples: Vec<J> = Vec::new();
    let mut sample_count: BTreeMap<String, usize> = BTreeMap::new();
    let mut seen_sigs: HashSet<String> = HashSet::new();
    for (s, _) in &violations {
        seen_sigs.insert(s.clone());
    }
    for r in &reports {
        if let Some(l) = r.get("labels").and_then(|l| l.as_object()) {
            for (k, v) in l {
                *labels.entry(k.clone()).or_insert(0) += v.as_u64().unwrap_or(0);
            }
        }
        for f in r.get("families").and_then(|f| f.as_array()).into_iter().flatten() {
            let name = f["family"].as_str().unwrap_or("").to_string();
            let ev = f["evaluations"].as_u64().unwrap_or(0);
            evaluations += ev;
            let e = per_family.entry(name.clone()).or_insert((0, 0));
            e.0 += ev;
            for h in f["nontrivial"].as_array().into_iter().flatten() {
                if let Some(h) = h.as_u64() {
                    if distinct.insert((name.clone(), h)) {
                        e.1 += 1;
                    }
                }
            }
            for (k, v) in f["discards"].as_object().into_iter().flatten() {
                *discards.entry(k.clone()).or_insert(0) += v.as_u64().unwrap_or(0);
            }
            for (k, v) in f["excluded_known"].as_object().into_iter().flatten() {
                *excluded.entry(k.clone()).or_insert(0) += v.as_u64().unwrap_or(0);
            }
            for key in ["nt_samples", "samples"] {
                for s in f[key].as_array().into_iter().flatten() {
                    let c = sample_count.entry(name.clone()).or_insert(0);
                    if *c < 2 {
                        *c += 1;
                        samples.push(json!({"family": name, "case": s}));
                    }
                }
            }
        }
        for f in r.get("failures").and_then(|f| f.as_array()).into_iter().flatten() {
            let sig = f["sig"].as_str().unwrap_or("").to_string();
            if !seen_sigs.insert(sig.clone()) {
                continue;
            }
            let family = f["family"].as_str().unwrap_or("");
            let bytes = unhex(f["bytes_hex"].as_str().unwrap_or(""));
            let p = write_replay(
                &root.join("replays").join("new"),
                id,
                family,
                &bytes,
                &sig,
                f["detail"].as_str().unwrap_or(""),
                f["rendered"].as_str().unwrap_or(""),
            );
            println!("VIOLATION property={} replay={}", id, p.display());
            println!("  {}: {}", sig, f["detail"].as_str().unwrap_or("").lines().take(12).collect::<Vec<_>>().join("\n  "));
            violations.push((sig, p));
        }
    }
    // coverage floors
    if reports.len() as u64 == n {
        for (label, min) in prop.floors(tier) {
            let got = labels.get(label).copied().unwrap_or(0);
            if got < min {
                inconclusive.push(format!(
                    "generator coverage floor missed: label '{}' seen {} times, floor {}",
                    label, got, min
                ));
            }
        }
    }
    if abandoned_cases > 0 {
        notes.push(format!(
            "{} case(s) exceeded the per-case CPU budget and were set aside (counted under 'discarded'); the workers concerned ran their share again without them. A resource limit, not a verdict.",
            abandoned_cases
        ));
    }
    let exhaustive = fams.iter().any(|f| matches!(f.kind, FamilyKind::Enumerated { exhaustive: true, .. }));
    let mut coverage = json!({
        "evaluations": evaluations,
        "distinct_nontrivial": distinct.len(),
        "rule": prop.rule(),
        "samples": samples,
        "per_family": per_family.iter().map(|(k, v)| (k.clone(), json!({"evaluations": v.0, "distinct_nontrivial": v.1}))).collect::<serde_json::Map<_, _>>(),
        "labels": labels,
        "discarded": discards,
        "excluded_known": excluded,
        "regression_replays": replayed,
        "known_findings_still_failing": known_still_failing,
        "workers": n,
        "notes": notes,
        "inconclusive": inconclusive,
    });
    if exhaustive {
        coverage["exhaustive_families"] = json!(fams
            .iter()
            .filter(|f| matches!(f.kind, FamilyKind::Enumerated { exhaustive: true, .. }))
            .map(|f| f.name)
            .collect::<Vec<_>>());
    }
    for (k, v) in prop.extra_coverage(&labels) {
        coverage[k] = v;
    }
    let evidence = json!({
        "property_id": id,
        "tier": tier.name(),
        "seed": seed,
        "level": "exploration",
        "coverage": coverage,
        "assumptions": prop.assumptions(),
        "wall_s": start.elapsed().as_secs_f64(),
        "violations": violations.len(),
    });
    let edir = root.join("evidence");
    let _ = fs::create_dir_all(&edir);
    let epath = edir.join(format!("{}.json", id));
    let tmp = edir.join(format!("{}.json.tmp", id));
    fs::write(&tmp, serde_json::to_string_pretty(&evidence).unwrap()).unwrap();
    fs::rename(&tmp, &epath).unwrap();
    let _ = fs::remove_dir_all(&work);

    println!(
        "{} {}: {} evaluations, {} distinct non-trivial, {} violations, {:.1}s",
        id,
        tier.name(),
        evaluations,
        distinct.len(),
        violations.len(),
        start.elapsed().as_secs_f64()
    );
    if !violations.is_empty() {
        return 1;
    }
    if !inconclusive.is_empty() {
        for i in &inconclusive {
            println!("INCONCLUSIVE: {}", i);
        }
        return 2;
    }
    0
}

/// Shared `main` for vcheck.
pub fn main_with(props: Vec<Box<dyn Property>>) -> i32 {
    let args: Vec<String> = std::env::args().collect();
    if args.len() < 2 {
        eprintln!("usage: vcheck <ID> [--tier quick|thorough] [--seed N] [--replay file] ...");
        return 2;
    }
    let id = args[1].clone();
    let prop = match props.iter().find(|p| p.id() == id) {
        Some(p) => p,
        None => {
            eprintln!("unknown property {}", id);
            return 2;
        }
    };
    let mut tier = match std::env::var("VERIF_TIER").as_deref() {
        Ok("thorough") => Tier::Thorough,
        _ => Tier::Quick,
    };
    let mut seed: u64 = std::env::var("VERIF_SEED")
        .ok()
        .and_then(|s| s.trim().parse::<i64>().ok())
        .map(|v| v as u64)
        .unwrap_or(20260924);
    let mut worker: Option<(u64, u64)> = None;
    let mut out: Option<PathBuf> = None;
    let mut replay: Option<PathBuf> = None;
    let mut single: Option<PathBuf> = None;
    let mut i = 2;
    while i < args.len() {
        match args[i].as_str() {
            "--tier" => {
                i += 1;
                tier = if args[i] == "thorough" { Tier::Thorough } else { Tier::Quick };
            }
            "quick" => tier = Tier::Quick,
            "thorough" => tier = Tier::Thorough,
            "--seed" => {
                i += 1;
                seed = args[i].parse::<i64>().map(|v| v as u64).unwrap_or(seed);
            }
            "--worker" => {
                i += 1;
                let (a, b) = args[i].split_once('/').unwrap();
                worker = Some((a.parse().unwrap(), b.parse().unwrap()));
            }
            "--out" => {
                i += 1;
                out = Some(PathBuf::from(&args[i]));
            }
            "--replay" => {
                i += 1;
                replay = Some(PathBuf::from(&args[i]));
            }
            "--single" => {
                i += 1;
                single = Some(PathBuf::from(&args[i]));
            }
            _ => {}
        }
        i += 1;
    }
    if args.iter().any(|a| a == "--random-families") {
        // "<family>:<max_len>" per random-bytes family of the thorough tier (used by the libFuzzer stage)
        let v: Vec<String> = prop
            .families(Tier::Thorough)
            .iter()
            .filter_map(|f| match f.kind {
                FamilyKind::Random { max_len, .. } => Some(format!("{}:{}", f.name, max_len)),
                _ => None,
            })
            .collect();
        println!("{}", v.join(" "));
        return 0;
    }
    crate::yrun::install_panic_hook();
    if let Some((w, n)) = worker {
        run_worker(prop.as_ref(), tier, seed, w, n, &out.expect("--out"));
        return 0;
    }
    if let Some(f) = single {
        let line = fs::read_to_string(&f).unwrap_or_default();
        let (family, hx) = line.trim().split_once(' ').unwrap_or(("", ""));
        let bytes = unhex(hx);
        return match run_single(prop.as_ref(), family, &bytes, tier) {
            Verdict::Fail { sig, detail } => {
                println!("SIG {}", sig);
                println!("{}", detail);
                1
            }
            _ => 0,
        };
    }
    if let Some(f) = replay {
        let (family, bytes, _) = match read_replay(&f) {
            Some(x) => x,
            None => {
                eprintln!("cannot read replay file {}", f.display());
                return 2;
            }
        };
        println!("{}", prop.render(&family, &bytes));
        // first in a subprocess: a case that kills the process must not take the replay down
        let work = verif_root().join("work");
        let _ = fs::create_dir_all(&work);
        if let Some(sig) = subprocess_case(&id, &family, &bytes, tier, &work) {
            if sig.starts_with("crash-signal") || sig == "timeout" || sig.starts_with("exit-") {
                let known = load_known(&id);
                return if let Some(k) = known_match(&known, &sig) {
                    println!("KNOWN-FINDING: property={} {} [sig={}]", id, k.desc, k.sig);
                    0
                } else {
                    println!("VIOLATION property={} replay={}", id, f.display());
                    println!("  {}: the case kills the process", sig);
                    1
                };
            }
        }
        return match run_single(prop.as_ref(), &family, &bytes, tier) {
            Verdict::Fail { sig, detail } => {
                let known = load_known(&id);
                if let Some(k) = known_match(&known, &sig) {
                    println!("KNOWN-FINDING: property={} {} [sig={}]", id, k.desc, k.sig);
                    println!("{}", detail);
                    0
                } else {
                    println!("VIOLATION property={} replay={}", id, f.display());
                    println!("  {}: {}", sig, detail);
                    1
                }
            }
            Verdict::Pass { .. } => {
                println!("replay passes");
                0
            }
            Verdict::Discard(why) => {
                println!("replay discarded: {}", why);
                0
            }
        };
    }
    run_parent(prop.as_ref(), tier, seed)
}
