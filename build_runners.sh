#!/bin/bash
# Builds the C10 runner (plain yarel, no hooks) in each build configuration of the matrix.
#   quick:    dev, release, release+all safe_*, release+debug_stress_gc
#   thorough: dev + all 32 subsets of the five feature switches under release
# Four target dirs are shared (dependencies compile once per dir); binaries are copied to target/runners/<cfg>/.
set -e
cd "$(dirname "$0")"
ROOT="$(pwd)"
TIER="${1:-quick}"
export CARGO_NET_OFFLINE=true
mkdir -p "$ROOT/target/runners"
FEATS=(safe_stack safe_active_fiber safe_vm_opcodes safe_class_lookup debug_stress_gc)
configs=()
if [ "$TIER" = "thorough" ]; then
  configs+=("dev:")
  for mask in $(seq 0 31); do
    f=""
    for b in 0 1 2 3 4; do
      if [ $(( (mask >> b) & 1 )) = 1 ]; then f="$f,${FEATS[$b]}"; fi
    done
    configs+=("release$mask:${f#,}")
  done
else
  configs=("dev:" "release0:" "release15:safe_stack,safe_active_fiber,safe_vm_opcodes,safe_class_lookup" "release16:debug_stress_gc")
fi
build_one() { # name feats slot
  local name="$1" feats="$2" slot="$3"
  local tdir="$ROOT/target/cfg$slot"
  local prof=release flag=--release
  if [ "$name" = "dev" ]; then prof=debug; flag=""; fi
  ( cd "$ROOT/runner" && cargo build --offline $flag --features "$feats" --target-dir "$tdir" >"$ROOT/target/runners/build-$name.log" 2>&1 ) || { echo "build failed: $name"; tail -5 "$ROOT/target/runners/build-$name.log"; return 1; }
  mkdir -p "$ROOT/target/runners/$name"
  cp "$tdir/$prof/yrunner" "$ROOT/target/runners/$name/yrunner.new"
  mv "$ROOT/target/runners/$name/yrunner.new" "$ROOT/target/runners/$name/yrunner"
  echo "$feats" > "$ROOT/target/runners/$name/features"
}
# four lanes, each builds its share sequentially in its own target dir
pids=()
for slot in 0 1 2 3; do
  (
    i=0
    for c in "${configs[@]}"; do
      if [ $(( i % 4 )) = "$slot" ]; then build_one "${c%%:*}" "${c#*:}" "$slot" || exit 1; fi
      i=$((i+1))
    done
  ) &
  pids+=($!)
done
rc=0
for p in "${pids[@]}"; do wait "$p" || rc=1; done
# record which configurations belong to this tier
: > "$ROOT/target/runners/$TIER.list"
for c in "${configs[@]}"; do echo "${c%%:*}" >> "$ROOT/target/runners/$TIER.list"; done
exit $rc
