//! Byte-level model of yarel strings and of index normalisation. Strings are byte vectors known
//! to be UTF-8; character boundaries come from lead-byte patterns, searching is naive loops.
//! Nothing here calls `str::find`, `replace`, `split`, `is_char_boundary`, `chars` and friends.

#[derive(Clone, Copy, Debug, PartialEq, Eq)]
pub enum EK {
    Type,
    Value,
    Index,
    Runtime,
    Attribute,
    Name,
    Import,
}

impl EK {
    pub fn class_name(&self) -> &'static str {
        match self {
            EK::Type => "TypeError",
            EK::Value => "ValueError",
            EK::Index => "IndexError",
            EK::Runtime => "RuntimeError",
            EK::Attribute => "AttributeError",
            EK::Name => "NameError",
            EK::Import => "ImportError",
        }
    }
}

pub fn is_boundary(s: &[u8], pos: usize) -> bool {
    if pos == 0 || pos == s.len() {
        return true;
    }
    if pos > s.len() {
        return false;
    }
    // continuation bytes are 10xxxxxx
    (s[pos] & 0xC0) != 0x80
}

pub fn char_len_at(s: &[u8], pos: usize) -> usize {
    let b = s[pos];
    if b < 0x80 {
        1
    } else if b >> 5 == 0b110 {
        2
    } else if b >> 4 == 0b1110 {
        3
    } else {
        4
    }
}

pub fn count_chars(s: &[u8]) -> usize {
    s.iter().filter(|b| (**b & 0xC0) != 0x80).count()
}

/// f64 -> integer the way yarel's `validate_integer` does: non-integral (incl. NaN) is a
/// ValueError; the cast saturates at the i64 range (infinities included).
pub fn to_integer(n: f64) -> Result<i64, EK> {
    if n.is_nan() {
        return Err(EK::Value);
    }
    if n.is_infinite() {
        return Ok(if n > 0.0 { i64::MAX } else { i64::MIN });
    }
    if n.floor() != n {
        return Err(EK::Value);
    }
    if n >= 9223372036854775807.0 {
        Ok(i64::MAX)
    } else if n <= -9223372036854775808.0 {
        Ok(i64::MIN)
    } else {
        Ok(n as i64)
    }
}

/// negative indices count from the end; out of range is an IndexError
pub fn bounded_index(n: f64, len: usize) -> Result<usize, EK> {
    let mut i = to_integer(n)?;
    let len = len as i64;
    if i < 0 {
        i = i.saturating_add(len);
    }
    if i < 0 || i >= len {
        return Err(EK::Index);
    }
    Ok(i as usize)
}

/// slice bounds: begin must be inside, end may equal len; end < begin gives an empty slice
pub fn bounded_range(begin: i64, end: i64, len: usize) -> Result<(usize, usize), EK> {
    let len = len as i64;
    let b = if begin < 0 { begin.saturating_add(len) } else { begin };
    if b < 0 || b >= len {
        return Err(EK::Index);
    }
    let e = if end < 0 { end.saturating_add(len) } else { end };
    if e < 0 || e > len {
        return Err(EK::Index);
    }
    Ok((b as usize, if e >= b { e as usize } else { b as usize }))
}

pub fn index_char(s: &[u8], n: f64) -> Result<Vec<u8>, EK> {
    let i = bounded_index(n, s.len())?;
    if !is_boundary(s, i) {
        return Err(EK::Index);
    }
    let l = char_len_at(s, i);
    Ok(s[i..i + l].to_vec())
}

pub fn slice(s: &[u8], begin: i64, end: i64) -> Result<Vec<u8>, EK> {
    let (b, e) = bounded_range(begin, end, s.len())?;
    if !is_boundary(s, b) || !is_boundary(s, e) {
        return Err(EK::Index);
    }
    Ok(s[b..e].to_vec())
}

fn matches_at(s: &[u8], i: usize, needle: &[u8]) -> bool {
    if i + needle.len() > s.len() {
        return false;
    }
    for k in 0..needle.len() {
        if s[i + k] != needle[k] {
            return false;
        }
    }
    true
}

/// `s.find(needle, start)`: byte offset of the first occurrence at or after `start`, or None
pub fn find(s: &[u8], needle: &[u8], start: f64) -> Result<Option<usize>, EK> {
    if needle.is_empty() {
        return Err(EK::Value);
    }
    let mut i = to_integer(start)?;
    let len = s.len() as i64;
    if i < 0 {
        i = i.saturating_add(len);
    }
    if i < 0 || i >= len {
        return Err(EK::Index);
    }
    let start = i as usize;
    if !is_boundary(s, start) {
        return Err(EK::Index);
    }
    let mut p = start;
    while p < s.len() {
        if matches_at(s, p, needle) {
            return Ok(Some(p));
        }
        p += 1;
    }
    Ok(None)
}

pub fn replace(s: &[u8], old: &[u8], new: &[u8]) -> Result<Vec<u8>, EK> {
    if old.is_empty() {
        return Err(EK::Value);
    }
    let mut out = Vec::new();
    let mut p = 0;
    while p < s.len() {
        if matches_at(s, p, old) {
            out.extend_from_slice(new);
            p += old.len();
        } else {
            out.push(s[p]);
            p += 1;
        }
    }
    Ok(out)
}

pub fn split(s: &[u8], delim: &[u8]) -> Result<Vec<Vec<u8>>, EK> {
    if delim.is_empty() {
        return Err(EK::Value);
    }
    let mut parts = Vec::new();
    let mut cur = Vec::new();
    let mut p = 0;
    while p < s.len() {
        if matches_at(s, p, delim) {
            parts.push(std::mem::take(&mut cur));
            p += delim.len();
        } else {
            cur.push(s[p]);
            p += 1;
        }
    }
    parts.push(cur);
    Ok(parts)
}

pub fn starts_with(s: &[u8], p: &[u8]) -> bool {
    matches_at(s, 0, p)
}

pub fn ends_with(s: &[u8], p: &[u8]) -> bool {
    p.len() <= s.len() && matches_at(s, s.len() - p.len(), p)
}

pub fn all_ascii(s: &[u8], pred: fn(u8) -> bool) -> bool {
    !s.is_empty() && s.iter().all(|b| pred(*b))
}

pub fn is_alpha(b: u8) -> bool {
    (b'a'..=b'z').contains(&b) || (b'A'..=b'Z').contains(&b)
}
pub fn is_digit(b: u8) -> bool {
    (b'0'..=b'9').contains(&b)
}
pub fn is_hex(b: u8) -> bool {
    is_digit(b) || (b'a'..=b'f').contains(&b) || (b'A'..=b'F').contains(&b)
}

/// byte offset of the `n`-th character
pub fn char_byte_index(s: &[u8], n: f64) -> Result<usize, EK> {
    let idx = bounded_index(n, count_chars(s))?;
    let mut seen = 0;
    for p in 0..s.len() {
        if is_boundary(s, p) {
            if seen == idx {
                return Ok(p);
            }
            seen += 1;
        }
    }
    Err(EK::Index)
}

pub fn chars(s: &[u8]) -> Vec<Vec<u8>> {
    let mut v = Vec::new();
    let mut p = 0;
    while p < s.len() {
        let l = char_len_at(s, p).min(s.len() - p);
        v.push(s[p..p + l].to_vec());
        p += l;
    }
    v
}

pub fn decode_char(c: &[u8]) -> u32 {
    match c.len() {
        1 => c[0] as u32,
        2 => ((c[0] as u32 & 0x1F) << 6) | (c[1] as u32 & 0x3F),
        3 => ((c[0] as u32 & 0x0F) << 12) | ((c[1] as u32 & 0x3F) << 6) | (c[2] as u32 & 0x3F),
        _ => {
            ((c[0] as u32 & 0x07) << 18)
                | ((c[1] as u32 & 0x3F) << 12)
                | ((c[2] as u32 & 0x3F) << 6)
                | (c[3] as u32 & 0x3F)
        }
    }
}

pub fn encode_char(cp: u32) -> Option<Vec<u8>> {
    if (0xD800..=0xDFFF).contains(&cp) || cp > 0x10FFFF {
        return None;
    }
    Some(if cp < 0x80 {
        vec![cp as u8]
    } else if cp < 0x800 {
        vec![0xC0 | (cp >> 6) as u8, 0x80 | (cp & 0x3F) as u8]
    } else if cp < 0x10000 {
        vec![
            0xE0 | (cp >> 12) as u8,
            0x80 | ((cp >> 6) & 0x3F) as u8,
            0x80 | (cp & 0x3F) as u8,
        ]
    } else {
        vec![
            0xF0 | (cp >> 18) as u8,
            0x80 | ((cp >> 12) & 0x3F) as u8,
            0x80 | ((cp >> 6) & 0x3F) as u8,
            0x80 | (cp & 0x3F) as u8,
        ]
    })
}

/// strict UTF-8 validation (no overlong forms, no surrogates, max U+10FFFF)
pub fn valid_utf8(s: &[u8]) -> bool {
    let mut p = 0;
    while p < s.len() {
        let b = s[p];
        let (l, min) = if b < 0x80 {
            (1, 0)
        } else if b >> 5 == 0b110 {
            (2, 0x80)
        } else if b >> 4 == 0b1110 {
            (3, 0x800)
        } else if b >> 3 == 0b11110 {
            (4, 0x10000)
        } else {
            return false;
        };
        if p + l > s.len() {
            return false;
        }
        for k in 1..l {
            if s[p + k] & 0xC0 != 0x80 {
                return false;
            }
        }
        if l > 1 {
            let cp = decode_char(&s[p..p + l]);
            if cp < min || cp > 0x10FFFF || (0xD800..=0xDFFF).contains(&cp) {
                return false;
            }
        }
        p += l;
    }
    true
}

/// element check used by from_ascii / from_utf8: an integer 0..=255
pub fn byte_value(n: f64) -> Result<u8, EK> {
    if n.is_nan() || n < 0.0 || n > 255.0 || n.floor() != n {
        return Err(EK::Value);
    }
    Ok(n as u8)
}
