//! The reference interpreter: a tree walker over the generated AST. Shares no code with yarel and
//! never sees source text. Variables are heap cells in persistent scope lists, control flow is Rust
//! control flow, fibers are stackful coroutines.

use std::cell::{Cell, RefCell};
use std::collections::{BTreeMap, HashMap};
use std::rc::Rc;

use corosensei::stack::DefaultStack;
use corosensei::{Coroutine, CoroutineResult, Yielder};

use crate::ast::*;
use crate::rv::*;
use crate::strmodel::EK;

pub const FRAMES_MAX: usize = 64;
/// marker for message texts the model does not pin (built-in error messages)
pub const OPAQUE: &str = "\u{1}";

pub type Co = Coroutine<Option<V>, V, FiberEnd>;

pub enum FiberEnd {
    Returned(V),
    Died(Box<Report>),
    /// the run was aborted by an uncaught error in a fiber this one was calling
    Aborted(Box<Report>),
    Discard(&'static str),
}

#[derive(Clone, Debug, PartialEq)]
pub struct TraceEntry {
    pub module: String,
    /// 0 = not pinned (prelude code)
    pub line: u32,
    pub func: String,
}

impl TraceEntry {
    pub fn render(&self) -> String {
        let l = if self.line == 0 {
            "?".to_string()
        } else {
            self.line.to_string()
        };
        if self.func.is_empty() {
            format!("[module \"{}\", line {}] in script", self.module, l)
        } else {
            format!("[module \"{}\", line {}] in {}()", self.module, l, self.func)
        }
    }
}

#[derive(Clone, Debug)]
pub struct Report {
    /// error class name for error instances ("TypeError", user class name, ...), or "exception"
    pub class: String,
    /// yarel ErrorKind name this maps to
    pub kind: &'static str,
    /// rendered "Unhandled X: ctx" text (may contain OPAQUE)
    pub head: String,
    pub trace: Vec<TraceEntry>,
    /// the exception was already in flight when some finally block ran (its reported position is
    /// not defined by the statement that raised it)
    pub through_finally: bool,
}

pub struct Thrown {
    pub value: V,
    pub trace: Vec<TraceEntry>,
    pub passed_finally: Cell<bool>,
}

pub enum Ctl {
    Break,
    Continue,
    Return(V),
    Throw(Box<Thrown>),
    /// the run is over (uncaught exception in some fiber); nothing intercepts this
    Abort(Box<Report>),
    /// the model declines to define this case
    Discard(&'static str),
}

pub type R<T> = Result<T, Ctl>;

pub struct Frame {
    pub serial: u64,
    pub func: String,
    pub module: String,
    pub line: Cell<u32>,
    pub is_core: bool,
}

pub struct FiberState {
    pub frames: RefCell<Vec<Frame>>,
    pub is_root: bool,
    pub obj: RefCell<Option<Rc<FiberObj>>>,
    /// number of try-with-finally statements active in each frame (for trigger E6)
    pub finally_in_frame: RefCell<Vec<u32>>,
    /// dynamic nesting of try statements in this fiber
    pub try_depth: Cell<u32>,
}

pub struct Shared {
    pub out: RefCell<Vec<String>>,
    pub modules: RefCell<HashMap<String, Rc<Module>>>,
    pub sources: RefCell<HashMap<String, ModuleSrc>>,
    pub classes: RefCell<HashMap<&'static str, Rc<Class>>>,
    pub natives: RefCell<HashMap<&'static str, Rc<NativeObj>>>,
    pub steps: Cell<u64>,
    pub step_limit: u64,
    pub events: RefCell<BTreeMap<&'static str, u32>>,
    pub ranges: RefCell<Vec<(i64, i64)>>,
    /// > 0 while a finally block entered by a propagating exception is running (any fiber)
    pub pending_finally: Cell<u32>,
    /// a finally block was left by return/break/continue while an exception was in flight: yarel keeps
    /// its 'exception in flight' flag set until the next catch (recorded finding E11); the finding
    /// manifests when another finally block then runs to its end in the same run
    pub e11_armed: Cell<bool>,
    /// bytes of text produced so far by printing, interpolation and concatenation (a budget: programs
    /// that format megabytes in a loop are declined, they are slow on both sides and show nothing new)
    pub text_bytes: Cell<u64>,
    pub fibers: RefCell<Vec<Rc<FiberObj>>>,
    pub cells: RefCell<Vec<VCell>>,
    pub instances: RefCell<Vec<Rc<Instance>>>,
    pub vecs: RefCell<Vec<Rc<VecObj>>>,
    pub maps: RefCell<Vec<Rc<MapObj>>>,
    pub max_depth: Cell<usize>,
    pub frame_serial: Cell<u64>,
    pub frame_counter: Cell<u64>,
    pub fiber_switches: Cell<u32>,
    /// whether imported modules and reset interpreters see Error/StopIter classes as globals
    pub error_globals_everywhere: bool,
}

pub struct Ctx {
    pub sh: Rc<Shared>,
    pub fs: Rc<FiberState>,
    pub yielder: *const Yielder<Option<V>, V>,
}

pub fn new_cell(sh: &Shared, v: V) -> VCell {
    let c = Rc::new(RefCell::new(v));
    sh.cells.borrow_mut().push(c.clone());
    c
}

pub fn cons(sh: &Shared, env: &Env, name: &str, v: V) -> Env {
    Some(Rc::new(EnvNode {
        name: name.to_string(),
        cell: new_cell(sh, v),
        parent: env.clone(),
        owner: sh.frame_serial.get(),
    }))
}

impl Shared {
    pub fn event(&self, e: &'static str) {
        *self.events.borrow_mut().entry(e).or_insert(0) += 1;
    }
    pub fn class(&self, name: &str) -> Rc<Class> {
        self.classes
            .borrow()
            .get(name)
            .unwrap_or_else(|| panic!("reference: no class {}", name))
            .clone()
    }
    pub fn new_vec(&self, items: Vec<V>) -> V {
        let v = Rc::new(VecObj {
            items: RefCell::new(items),
        });
        self.vecs.borrow_mut().push(v.clone());
        V::Vec(v)
    }
    pub fn new_map(&self, entries: Vec<(V, V)>) -> V {
        let m = Rc::new(MapObj {
            entries: RefCell::new(entries),
        });
        self.maps.borrow_mut().push(m.clone());
        V::Map(m)
    }
    pub fn new_instance(&self, class: Rc<Class>) -> Rc<Instance> {
        let i = Rc::new(Instance {
            class,
            fields: RefCell::new(Vec::new()),
        });
        self.instances.borrow_mut().push(i.clone());
        i
    }
    pub fn new_range(&self, begin: i64, end: i64) -> V {
        let mut r = self.ranges.borrow_mut();
        if !r.contains(&(begin, end)) {
            r.push((begin, end));
        }
        V::Range(Rc::new(RangeObj { begin, end }))
    }
    /// break reference cycles and free coroutine stacks
    pub fn teardown(&self) {
        for f in self.fibers.borrow_mut().drain(..) {
            let co = f.co.borrow_mut().take();
            drop(co);
        }
        for c in self.cells.borrow_mut().drain(..) {
            *c.borrow_mut() = V::Nil;
        }
        for i in self.instances.borrow_mut().drain(..) {
            i.fields.borrow_mut().clear();
        }
        for v in self.vecs.borrow_mut().drain(..) {
            v.items.borrow_mut().clear();
        }
        for m in self.maps.borrow_mut().drain(..) {
            m.entries.borrow_mut().clear();
        }
        for (_, m) in self.modules.borrow_mut().drain() {
            m.globals.borrow_mut().clear();
        }
        for (_, c) in self.classes.borrow_mut().drain() {
            c.methods.borrow_mut().clear();
            *c.meta.borrow_mut() = None;
        }
    }
}

pub fn kind_of_class(name: &str) -> &'static str {
    match name {
        "AttributeError" => "AttributeError",
        "ImportError" => "ImportError",
        "IndexError" => "IndexError",
        "NameError" => "NameError",
        "RuntimeError" => "RuntimeError",
        "TypeError" => "TypeError",
        "ValueError" => "ValueError",
        _ => "RuntimeError",
    }
}

pub fn is_subclass(c: &Rc<Class>, of: &Rc<Class>) -> bool {
    let mut cur = Some(c.clone());
    while let Some(k) = cur {
        if Rc::ptr_eq(&k, of) {
            return true;
        }
        cur = k.superclass.borrow().clone();
    }
    false
}

pub fn find_method(c: &Rc<Class>, name: &str) -> Option<Method> {
    let mut cur = Some(c.clone());
    while let Some(k) = cur {
        for (n, m) in k.methods.borrow().iter().rev() {
            if n == name {
                return Some(m.clone());
            }
        }
        if k.native == NK::StringClass {
            // yarel replaces this metaclass's table wholesale: nothing inherited
            return None;
        }
        cur = k.superclass.borrow().clone();
    }
    None
}

fn get_field(i: &Instance, name: &str) -> Option<V> {
    i.fields
        .borrow()
        .iter()
        .find(|(n, _)| n == name)
        .map(|(_, v)| v.clone())
}

pub fn set_field(i: &Instance, name: &str, v: V) {
    let mut f = i.fields.borrow_mut();
    for e in f.iter_mut() {
        if e.0 == name {
            e.1 = v;
            return;
        }
    }
    f.push((name.to_string(), v));
}

/// does the block declare a local variable anywhere in its own function body?
fn declares_locals(stmts: &[Stmt]) -> bool {
    stmts.iter().any(|s| match &s.kind {
        StmtKind::Var(..)
        | StmtKind::Fn(_)
        | StmtKind::Class(_)
        | StmtKind::For(..)
        | StmtKind::Import(..) => true,
        StmtKind::Try(b, c, f) => {
            c.is_some()
                || declares_locals(b)
                || f.as_ref().map(|f| declares_locals(f)).unwrap_or(false)
        }
        StmtKind::Block(b) | StmtKind::While(_, b) => declares_locals(b),
        StmtKind::If(_, t, e) => declares_locals(t) || e.as_ref().map(|e| declares_locals(std::slice::from_ref(&**e))).unwrap_or(false),
        _ => false,
    })
}

impl Ctx {
    pub fn root(sh: Rc<Shared>) -> Ctx {
        Ctx {
            sh,
            fs: Rc::new(FiberState {
                frames: RefCell::new(Vec::new()),
                is_root: true,
                obj: RefCell::new(None),
                finally_in_frame: RefCell::new(Vec::new()),
                try_depth: Cell::new(0),
            }),
            yielder: std::ptr::null(),
        }
    }

    // ----- bookkeeping -----------------------------------------------------------------

    fn tick(&self) -> R<()> {
        let s = self.sh.steps.get() + 1;
        self.sh.steps.set(s);
        if s > self.sh.step_limit {
            return Err(Ctl::Discard("reference step limit"));
        }
        Ok(())
    }

    fn set_line(&self, line: u32) {
        if line != 0 {
            if let Some(f) = self.fs.frames.borrow().last() {
                f.line.set(line);
            }
        }
    }

    fn cur_line(&self) -> u32 {
        self.fs
            .frames
            .borrow()
            .last()
            .map(|f| f.line.get())
            .unwrap_or(0)
    }

    fn snapshot(&self) -> Vec<TraceEntry> {
        self.fs
            .frames
            .borrow()
            .iter()
            .rev()
            .map(|f| TraceEntry {
                module: f.module.clone(),
                line: if f.is_core { 0 } else { f.line.get() },
                func: f.func.clone(),
            })
            .collect()
    }

    pub fn push_frame(&self, func: &str, module: &str, is_core: bool) {
        let mut fr = self.fs.frames.borrow_mut();
        let serial = self.sh.frame_counter.get() + 1;
        self.sh.frame_counter.set(serial);
        self.sh.frame_serial.set(serial);
        fr.push(Frame {
            serial,
            func: func.to_string(),
            module: module.to_string(),
            line: Cell::new(0),
            is_core,
        });
        self.fs.finally_in_frame.borrow_mut().push(0);
        if fr.len() > self.sh.max_depth.get() {
            self.sh.max_depth.set(fr.len());
        }
    }

    pub fn pop_frame(&self) {
        self.fs.frames.borrow_mut().pop();
        self.fs.finally_in_frame.borrow_mut().pop();
        self.resync_serial();
    }

    /// the serial of the frame now executing (after a pop or a fiber switch)
    pub fn resync_serial(&self) {
        let s = self.fs.frames.borrow().last().map(|f| f.serial).unwrap_or(0);
        self.sh.frame_serial.set(s);
    }

    fn depth(&self) -> usize {
        self.fs.frames.borrow().len()
    }

    // ----- errors ------------------------------------------------------------------------

    /// charge `n` bytes of produced text against the run's budget
    pub fn charge_text(&self, n: usize) -> R<()> {
        let t = self.sh.text_bytes.get() + n as u64;
        self.sh.text_bytes.set(t);
        if t > 6 << 20 {
            return Err(Ctl::Discard("more than 6 MiB of text formatted"));
        }
        Ok(())
    }

    pub fn make_error(&self, kind: EK) -> V {
        let class = self.sh.class(kind.class_name());
        let inst = self.sh.new_instance(class);
        set_field(&inst, "context", V::str(OPAQUE));
        V::Instance(inst)
    }

    pub fn throw_value(&self, value: V) -> Ctl {
        Ctl::Throw(Box::new(Thrown {
            value,
            trace: self.snapshot(),
            passed_finally: Cell::new(false),
        }))
    }

    /// a built-in failure of class `kind` at `line`
    pub fn fail<T>(&self, kind: EK, line: u32) -> R<T> {
        self.set_line(line);
        self.sh.event(match kind {
            EK::Type => "err:TypeError",
            EK::Value => "err:ValueError",
            EK::Index => "err:IndexError",
            EK::Runtime => "err:RuntimeError",
            EK::Attribute => "err:AttributeError",
            EK::Name => "err:NameError",
            EK::Import => "err:ImportError",
        });
        Err(self.throw_value(self.make_error(kind)))
    }

    pub fn report_of(&self, t: &Thrown) -> Report {
        match &t.value {
            V::Instance(i) => {
                let class = i.class.name.clone();
                let is_builtin_error = [
                    "AttributeError",
                    "ImportError",
                    "IndexError",
                    "NameError",
                    "RuntimeError",
                    "TypeError",
                    "ValueError",
                ]
                .iter()
                .any(|n| Rc::ptr_eq(&i.class, &self.sh.class(n)));
                let kind = if is_builtin_error {
                    kind_of_class(&class)
                } else {
                    "RuntimeError"
                };
                let ctx = get_field(i, "context").unwrap_or_else(|| t.value.clone());
                Report {
                    head: format!("Unhandled {}: {}", class, display(&ctx)),
                    class,
                    kind,
                    trace: t.trace.clone(),
                    through_finally: t.passed_finally.get(),
                }
            }
            other => Report {
                class: "exception".into(),
                kind: "RuntimeError",
                head: format!("Unhandled exception: {}", display(other)),
                trace: t.trace.clone(),
                through_finally: t.passed_finally.get(),
            },
        }
    }

    // ----- variables ---------------------------------------------------------------------

    fn lookup(&self, env: &Env, module: &Rc<Module>, name: &str, line: u32) -> R<V> {
        if let Some((c, owner)) = env_lookup(env, name) {
            if owner != self.sh.frame_serial.get() {
                self.sh.event("captured_read");
            }
            return Ok(c.borrow().clone());
        }
        if let Some(v) = module.globals.borrow().get(name) {
            return Ok(v.clone());
        }
        self.fail(EK::Name, line)
    }

    fn assign_var(&self, env: &Env, module: &Rc<Module>, name: &str, v: V, line: u32) -> R<()> {
        if let Some((c, owner)) = env_lookup(env, name) {
            if owner != self.sh.frame_serial.get() {
                self.sh.event("captured_write");
            }
            *c.borrow_mut() = v;
            return Ok(());
        }
        let mut g = module.globals.borrow_mut();
        if g.contains_key(name) {
            g.insert(name.to_string(), v);
            return Ok(());
        }
        drop(g);
        self.fail(EK::Name, line)
    }

    // ----- statements --------------------------------------------------------------------

    /// Executes statements in a fresh nested scope (or at module level when `global`).
    pub fn exec_block(&self, stmts: &[Stmt], env: &Env, sc: &Scope, global: bool) -> R<()> {
        let mut env = env.clone();
        for s in stmts {
            self.exec_stmt(s, &mut env, sc, global)?;
        }
        Ok(())
    }

    fn exec_stmt(&self, s: &Stmt, env: &mut Env, sc: &Scope, global: bool) -> R<()> {
        self.tick()?;
        let line = s.line.get();
        self.set_line(line);
        match &s.kind {
            StmtKind::Expr(e) => {
                self.eval(e, env, sc)?;
            }
            StmtKind::Var(name, init) => {
                let v = match init {
                    Some(e) => self.eval(e, env, sc)?,
                    None => V::Nil,
                };
                if global {
                    sc.module.globals.borrow_mut().insert(name.clone(), v);
                } else {
                    *env = cons(&self.sh, env, name, v);
                }
            }
            StmtKind::Fn(def) => {
                if global {
                    let c = V::Closure(Rc::new(Closure {
                        def: def.clone(),
                        env: env.clone(),
                        module: sc.module.clone(),
                        is_core: sc.is_core,
                    }));
                    sc.module.globals.borrow_mut().insert(def.name.borrow().clone(), c);
                } else {
                    *env = cons(&self.sh, env, &def.name.borrow(), V::Nil);
                    let c = V::Closure(Rc::new(Closure {
                        def: def.clone(),
                        env: env.clone(),
                        module: sc.module.clone(),
                        is_core: sc.is_core,
                    }));
                    *env.as_ref().unwrap().cell.borrow_mut() = c;
                }
            }
            StmtKind::Class(def) => self.exec_class(def, line, env, sc, global)?,
            StmtKind::Block(b) => self.exec_block(b, env, sc, false)?,
            StmtKind::If(c, then, els) => {
                let cv = self.eval(c, env, sc)?;
                if cv.truthy() {
                    self.exec_block(then, env, sc, false)?;
                } else if let Some(e) = els {
                    match &e.kind {
                        StmtKind::Block(b) => self.exec_block(b, env, sc, false)?,
                        _ => {
                            let mut env2 = env.clone();
                            self.exec_stmt(e, &mut env2, sc, false)?;
                        }
                    }
                }
            }
            StmtKind::While(c, body) => loop {
                self.tick()?;
                self.set_line(line);
                if !self.eval(c, env, sc)?.truthy() {
                    break;
                }
                match self.exec_block(body, env, sc, false) {
                    Ok(()) | Err(Ctl::Continue) => {}
                    Err(Ctl::Break) => break,
                    Err(e) => return Err(e),
                }
            },
            StmtKind::For(var, it, body) => {
                let iterable = self.eval(it, env, sc)?;
                self.sh.event(match &iterable {
                    V::Vec(_) => "for:vec",
                    V::Tuple(_) => "for:tuple",
                    V::Range(_) => "for:range",
                    V::Str(_) => "for:str",
                    V::Instance(_) => "for:instance",
                    V::Iter(_) => "for:iter",
                    _ => "for:other",
                });
                let iter_line = if s.aux_line.get() != 0 { s.aux_line.get() } else { line };
                let iter = self.invoke(&iterable, "iter", vec![], iter_line)?;
                let env2 = cons(&self.sh, env, var, V::Nil);
                let cell = env2.as_ref().unwrap().cell.clone();
                let stop = self.sh.class("StopIter");
                loop {
                    self.tick()?;
                    let nx = self.invoke(&iter, "next", vec![], iter_line)?;
                    *cell.borrow_mut() = nx.clone();
                    if let V::Instance(i) = &nx {
                        if Rc::ptr_eq(&i.class, &stop) {
                            break;
                        }
                    }
                    match self.exec_block(body, &env2, sc, false) {
                        Ok(()) | Err(Ctl::Continue) => {}
                        Err(Ctl::Break) => break,
                        Err(e) => return Err(e),
                    }
                }
            }
            StmtKind::Break => {
                self.sh.event("break_exec");
                return Err(Ctl::Break);
            }
            StmtKind::Continue => {
                self.sh.event("continue_exec");
                return Err(Ctl::Continue);
            }
            StmtKind::Return(e) => {
                let v = match e {
                    Some(e) => self.eval(e, env, sc)?,
                    None => V::Nil,
                };
                self.sh.event("return_exec");
                return Err(Ctl::Return(v));
            }
            StmtKind::Throw(e) => {
                let v = self.eval(e, env, sc)?;
                self.set_line(if s.aux_line.get() != 0 { s.aux_line.get() } else { line });
                self.sh.event("throw_stmt");
                return Err(self.throw_value(v));
            }
            StmtKind::Try(body, catch, fin) => return self.exec_try(body, catch, fin, env, sc),
            StmtKind::Import(path, alias) => {
                let m = self.import(path, line)?;
                let name = match alias {
                    Some(a) => a.clone(),
                    None => path.rsplit('/').next().unwrap_or(path).to_string(),
                };
                if global {
                    sc.module.globals.borrow_mut().insert(name, V::Module(m));
                } else {
                    *env = cons(&self.sh, env, &name, V::Module(m));
                }
            }
        }
        Ok(())
    }

    fn exec_try(
        &self,
        body: &[Stmt],
        catch: &Option<(Name, Vec<Stmt>)>,
        fin: &Option<Vec<Stmt>>,
        env: &Env,
        sc: &Scope,
    ) -> R<()> {
        let sh = &self.sh;
        if sh.pending_finally.get() > 0 {
            sh.event("E9");
        }
        sh.event("try");
        self.fs.try_depth.set(self.fs.try_depth.get() + 1);
        let r = self.exec_try_inner(body, catch, fin, env, sc);
        self.fs.try_depth.set(self.fs.try_depth.get() - 1);
        r
    }

    fn exec_try_inner(
        &self,
        body: &[Stmt],
        catch: &Option<(Name, Vec<Stmt>)>,
        fin: &Option<Vec<Stmt>>,
        env: &Env,
        sc: &Scope,
    ) -> R<()> {
        let sh = &self.sh;
        if fin.is_some() {
            if let Some(n) = self.fs.finally_in_frame.borrow_mut().last_mut() {
                *n += 1;
            }
        }
        let handlers_before = sh.events.borrow().get("try_active").copied().unwrap_or(0);
        let _ = handlers_before;
        let mut r = self.exec_block(body, env, sc, false);
        match &r {
            Err(Ctl::Break) | Err(Ctl::Continue) => sh.event("E2"),
            Err(Ctl::Return(_)) => {
                if fin.is_none() {
                    sh.event("E3");
                } else {
                    sh.event("return_through_finally");
                    let nested = self
                        .fs
                        .finally_in_frame
                        .borrow()
                        .last()
                        .map(|n| *n > 1)
                        .unwrap_or(false);
                    if nested {
                        sh.event("E6");
                    }
                }
            }
            _ => {}
        }
        if let Err(Ctl::Throw(_)) = &r {
            if let Some((name, cbody)) = catch {
                sh.e11_armed.set(false);
                let t = match std::mem::replace(&mut r, Ok(())) {
                    Err(Ctl::Throw(t)) => t,
                    _ => unreachable!(),
                };
                sh.event("caught");
                if t.trace.len() > self.depth() {
                    sh.event("caught_from_callee");
                }
                if self.fs.try_depth.get() > 1 {
                    sh.event("caught_nested");
                }
                let env2 = cons(sh, env, name, t.value.clone());
                r = self.exec_block(cbody, &env2, sc, false);
                if fin.is_some() {
                    match &r {
                        Err(Ctl::Return(_)) | Err(Ctl::Break) | Err(Ctl::Continue) => sh.event("E4"),
                        Err(Ctl::Throw(_)) => sh.event("E5"),
                        _ => {}
                    }
                }
            }
        }
        if let Some(f) = fin {
            if let Some(n) = self.fs.finally_in_frame.borrow_mut().last_mut() {
                *n -= 1;
            }
            match &r {
                Err(Ctl::Abort(_)) | Err(Ctl::Discard(_)) => return r,
                _ => {}
            }
            let pending_throw = matches!(r, Err(Ctl::Throw(_)));
            if let Err(Ctl::Throw(t)) = &r {
                t.passed_finally.set(true);
            }
            if pending_throw {
                sh.event("finally_pending_throw");
                if declares_locals(f) {
                    sh.event("E8");
                }
                sh.pending_finally.set(sh.pending_finally.get() + 1);
            } else if r.is_err() {
                sh.event("finally_pending_exit");
            } else {
                sh.event("finally_normal");
            }
            let fr = self.exec_block(f, env, sc, false);
            if pending_throw {
                sh.pending_finally.set(sh.pending_finally.get() - 1);
            }
            if fr.is_ok() && sh.e11_armed.get() {
                // this finally block reaches its end while the stale flag is set
                sh.event("E11");
            }
            if pending_throw && matches!(fr, Err(Ctl::Return(_)) | Err(Ctl::Break) | Err(Ctl::Continue)) {
                sh.event("finally_swallows");
                sh.e11_armed.set(true);
            }
            if let Err(e) = fr {
                if r.is_err() {
                    sh.event("finally_overrides");
                }
                if matches!(r, Err(Ctl::Return(_))) && matches!(e, Ctl::Throw(_)) {
                    // yarel keeps the saved return address: the next finally block to finish anywhere
                    // "returns" with it (recorded finding E10)
                    sh.event("E10");
                }
                return Err(e);
            }
        }
        r
    }

    fn exec_class(&self, def: &Rc<ClassDef>, line: u32, env: &mut Env, sc: &Scope, global: bool) -> R<()> {
        let sh = &self.sh;
        // 1. the name is bound (to nil) before anything else happens
        if global {
            sc.module.globals.borrow_mut().insert(def.name.clone(), V::Nil);
        } else {
            *env = cons(sh, env, &def.name, V::Nil);
        }
        let object = sh.class("Object");
        let mut class_env = env.clone();
        let mut superclass = object.clone();
        if let Some(sname) = &def.superclass {
            let sv = self.lookup(env, &sc.module, sname, line)?;
            match sv {
                V::Class(c) => {
                    class_env = cons(sh, env, "super", V::Class(c.clone()));
                    superclass = c;
                }
                _ => {
                    return self.fail(EK::Runtime, def.attr_line.get());
                }
            }
        }
        let meta = Rc::new(Class {
            name: format!("{}Class", def.name),
            superclass: RefCell::new(Some(object.clone())),
            methods: RefCell::new(Vec::new()),
            meta: RefCell::new(None),
            native: NK::Meta,
        });
        let class = Rc::new(Class {
            name: def.name.clone(),
            superclass: RefCell::new(Some(superclass)),
            methods: RefCell::new(Vec::new()),
            meta: RefCell::new(Some(meta.clone())),
            native: NK::None,
        });
        let mut add = |name: &str, f: Rc<FnDef>, is_static: bool| {
            let c = Rc::new(Closure {
                def: f,
                env: class_env.clone(),
                module: sc.module.clone(),
                is_core: sc.is_core,
            });
            class.methods.borrow_mut().push((name.to_string(), Method::Closure(c.clone())));
            let mut mm = meta.methods.borrow_mut();
            mm.retain(|(n, _)| n != name);
            if is_static {
                mm.push((name.to_string(), Method::Closure(c)));
            }
        };
        if let Some(cname) = &def.default_ctor {
            let f = Rc::new(FnDef {
                name: RefCell::new(cname.clone()),
                params: vec![],
                body: Body::Block(vec![]),
                kind: FnKind::Init,
            });
            add(cname, f, true);
        }
        for m in &def.methods {
            let is_static = matches!(m.kind, FnKind::Static | FnKind::Init);
            let n = m.name.borrow().clone();
            add(&n, m.clone(), is_static);
        }
        // 4. assignment to the class variable
        self.assign_var(env, &sc.module, &def.name, V::Class(class), line)?;
        Ok(())
    }

    fn import(&self, path: &str, line: u32) -> R<Rc<Module>> {
        let sh = &self.sh;
        sh.event("import");
        let existing = sh.modules.borrow().get(path).cloned();
        if let Some(m) = existing {
            if m.imported.get() {
                sh.event("import_again");
                return Ok(m);
            }
            sh.event("import_cycle");
            return self.fail(EK::Import, line);
        }
        let src = sh.sources.borrow().get(path).cloned();
        let body = match src {
            None => return self.fail(EK::Import, line),
            Some(ModuleSrc::Bad(_)) => return self.fail(EK::Import, line),
            Some(ModuleSrc::Ast(b)) => b,
        };
        let m = Rc::new(Module {
            path: path.to_string(),
            globals: RefCell::new(HashMap::new()),
            imported: Cell::new(false),
        });
        sh.modules.borrow_mut().insert(path.to_string(), m.clone());
        // the module body runs as a call (one frame); built-ins are installed right after the
        // frame is set up, before the first instruction
        self.set_line(line);
        if self.depth() == FRAMES_MAX {
            return self.fail(EK::Index, line);
        }
        crate::prelude::install_builtins(sh, &m, sh.error_globals_everywhere);
        self.push_frame("", path, false);
        let sc = Scope {
            module: m.clone(),
            is_core: false,
            kind: FnKind::Function,
            is_script: true,
        };
        let r = self.exec_block(&body, &None, &sc, true);
        self.pop_frame();
        match r {
            Ok(()) => {}
            Err(Ctl::Return(_)) => {}
            Err(e) => return Err(e),
        }
        m.imported.set(true);
        Ok(m)
    }

    // ----- expressions -------------------------------------------------------------------

    fn eval_args(&self, args: &[Expr], env: &Env, sc: &Scope) -> R<Vec<V>> {
        let mut v = Vec::with_capacity(args.len());
        for a in args {
            v.push(self.eval(a, env, sc)?);
        }
        Ok(v)
    }

    fn ln_or(&self, l: &Ln) -> u32 {
        let v = l.get();
        if v != 0 {
            v
        } else {
            self.cur_line()
        }
    }

    pub fn eval(&self, e: &Expr, env: &Env, sc: &Scope) -> R<V> {
        self.tick()?;
        Ok(match e {
            Expr::Nil => V::Nil,
            Expr::True => V::Bool(true),
            Expr::False => V::Bool(false),
            Expr::Num(n) => V::Num(*n),
            Expr::Str(s) => V::str(s),
            Expr::Interp(parts) => {
                let mut out = String::new();
                for p in parts {
                    match p {
                        Part::Lit(s) => out.push_str(s),
                        Part::Ex(x) => {
                            let v = self.eval(x, env, sc)?;
                            match display_checked(&v) {
                                Some(t) => {
                                    self.charge_text(t.len())?;
                                    out.push_str(&t)
                                }
                                None => return Err(Ctl::Discard("value prints to more than 64 KiB")),
                            }
                        }
                    }
                    if out.len() > 1 << 16 {
                        return Err(Ctl::Discard("string larger than 64 KiB"));
                    }
                }
                V::str(&out)
            }
            Expr::Var(n, l) => self.lookup(env, &sc.module, n, self.ln_or(l))?,
            Expr::SelfE => self.lookup(env, &sc.module, "self", self.cur_line())?,
            Expr::CapSelf => {
                let v = self.lookup(env, &sc.module, "Self", self.cur_line())?;
                match v {
                    V::Class(_) => v,
                    other => V::Class(self.class_of(&other)),
                }
            }
            Expr::Assign(t, val, l) => match &**t {
                Target::Var(n) => {
                    let v = self.eval(val, env, sc)?;
                    self.assign_var(env, &sc.module, n, v.clone(), self.ln_or(l))?;
                    v
                }
                Target::Prop(o, n) => {
                    let ov = self.eval(o, env, sc)?;
                    let v = self.eval(val, env, sc)?;
                    self.set_property(&ov, n, v.clone(), self.ln_or(l))?;
                    v
                }
                Target::Index(o, i) => {
                    let ov = self.eval(o, env, sc)?;
                    let iv = self.eval(i, env, sc)?;
                    let v = self.eval(val, env, sc)?;
                    self.set_item(&ov, &iv, v, self.ln_or(l))?;
                    V::Nil
                }
            },
            Expr::Compound(t, op, val, l, lg) => match &**t {
                Target::Var(n) => {
                    let cur = self.lookup(env, &sc.module, n, self.ln_or(lg))?;
                    let rhs = self.eval(val, env, sc)?;
                    let v = self.binary(*op, &cur, &rhs, self.ln_or(l))?;
                    self.assign_var(env, &sc.module, n, v.clone(), self.ln_or(l))?;
                    v
                }
                Target::Prop(o, n) => {
                    let ov = self.eval(o, env, sc)?;
                    let cur = self.get_property(&ov, n, self.ln_or(lg))?;
                    let rhs = self.eval(val, env, sc)?;
                    let v = self.binary(*op, &cur, &rhs, self.ln_or(l))?;
                    self.set_property(&ov, n, v.clone(), self.ln_or(l))?;
                    v
                }
                Target::Index(..) => return Err(Ctl::Discard("compound index assignment")),
            },
            Expr::Unary(op, a, l) => {
                let v = self.eval(a, env, sc)?;
                match (op, &v) {
                    (UnOp::Not, _) => V::Bool(!v.truthy()),
                    (UnOp::Neg, V::Num(n)) => V::Num(-*n),
                    (UnOp::BitNot, V::Num(n)) => V::Num(!(*n as i64) as f64),
                    _ => return self.fail(EK::Type, self.ln_or(l)),
                }
            }
            Expr::Binary(op, a, b, l) => {
                let x = self.eval(a, env, sc)?;
                let y = self.eval(b, env, sc)?;
                self.binary(*op, &x, &y, self.ln_or(l))?
            }
            Expr::And(a, b) => {
                let x = self.eval(a, env, sc)?;
                if !x.truthy() {
                    self.sh.event("short_circuit");
                    x
                } else {
                    self.eval(b, env, sc)?
                }
            }
            Expr::Or(a, b) => {
                let x = self.eval(a, env, sc)?;
                if x.truthy() {
                    self.sh.event("short_circuit");
                    x
                } else {
                    self.eval(b, env, sc)?
                }
            }
            Expr::Range(a, b, l) => {
                let x = self.eval(a, env, sc)?;
                let y = self.eval(b, env, sc)?;
                self.make_range(&x, &y, self.ln_or(l))?
            }
            Expr::Call(f, args, l) => {
                let fv = self.eval(f, env, sc)?;
                let av = self.eval_args(args, env, sc)?;
                self.call_value(&fv, av, self.ln_or(l))?
            }
            Expr::Invoke(o, m, args, l) => {
                let ov = self.eval(o, env, sc)?;
                let av = self.eval_args(args, env, sc)?;
                self.invoke(&ov, m, av, self.ln_or(l))?
            }
            Expr::Get(o, m, l) => {
                let ov = self.eval(o, env, sc)?;
                self.get_property(&ov, m, self.ln_or(l))?
            }
            Expr::Index(o, i, l) => {
                let ov = self.eval(o, env, sc)?;
                let iv = self.eval(i, env, sc)?;
                self.get_item(&ov, &iv, self.ln_or(l))?
            }
            Expr::VecLit(es) => {
                let items = self.eval_args(es, env, sc)?;
                self.sh.new_vec(items)
            }
            Expr::TupleLit(es) => {
                let items = self.eval_args(es, env, sc)?;
                V::Tuple(Rc::new(TupleObj { items }))
            }
            Expr::MapLit(kvs, l) => {
                let mut flat = Vec::new();
                for (k, v) in kvs {
                    let kv = self.eval(k, env, sc)?;
                    let vv = self.eval(v, env, sc)?;
                    flat.push((kv, vv));
                }
                let mut entries: Vec<(V, V)> = Vec::new();
                for (k, v) in flat {
                    if !hashable(&k, 0) {
                        return self.fail(EK::Value, self.ln_or(l));
                    }
                    crate::rnat::map_insert(&mut entries, k, v)?;
                }
                self.sh.new_map(entries)
            }
            Expr::Lambda(def) => V::Closure(Rc::new(Closure {
                def: def.clone(),
                env: env.clone(),
                module: sc.module.clone(),
                is_core: sc.is_core,
            })),
            Expr::SuperGet(m, l) => {
                let line = self.ln_or(l);
                let recv = self.super_receiver(env, sc, line)?;
                let sup = match self.lookup(env, &sc.module, "super", line)? {
                    V::Class(c) => c,
                    _ => return Err(Ctl::Discard("super is not a class")),
                };
                match find_method(&sup, m) {
                    Some(Method::Closure(c)) => V::Bound(Rc::new(BoundObj { recv, method: c })),
                    Some(Method::Native(_)) => V::BoundNative(Rc::new(BoundNativeObj {
                        recv,
                        name: m.clone(),
                    })),
                    None => return self.fail(EK::Attribute, line),
                }
            }
            Expr::SuperInvoke(m, args, l) => {
                let line = self.ln_or(l);
                let recv = self.super_receiver(env, sc, line)?;
                let av = self.eval_args(args, env, sc)?;
                let line = self.ln_or(l);
                let sup = match self.lookup(env, &sc.module, "super", line)? {
                    V::Class(c) => c,
                    _ => return Err(Ctl::Discard("super is not a class")),
                };
                self.sh.event("super_call");
                match find_method(&sup, m) {
                    Some(Method::Closure(c)) => self.call_closure(&c, Some(recv), av, line)?,
                    Some(Method::Native(n)) => crate::rnat::native_method(self, &recv, n, av, line)?,
                    None => return self.fail(EK::Attribute, line),
                }
            }
            Expr::Paren(x) => self.eval(x, env, sc)?,
        })
    }

    fn super_receiver(&self, env: &Env, sc: &Scope, line: u32) -> R<V> {
        match sc.kind {
            FnKind::Method | FnKind::Init => self.lookup(env, &sc.module, "self", line),
            FnKind::Static => self.lookup(env, &sc.module, "Self", line),
            // inside a nested function yarel passes that function itself; the model declines
            _ => {
                self.sh.event("S1");
                Err(Ctl::Discard("super inside a nested function"))
            }
        }
    }

    pub fn binary(&self, op: BinOp, a: &V, b: &V, line: u32) -> R<V> {
        match op {
            BinOp::Eq | BinOp::Ne => {
                if crate::rnat::tainted(a) || crate::rnat::tainted(b) {
                    return Err(Ctl::Discard("operation on a string that embeds a memory address"));
                }
                let eq = match values_equal(a, b, 0) {
                    Some(e) => e,
                    None => return Err(Ctl::Discard("equality on very deep or cyclic data")),
                };
                return Ok(V::Bool(if op == BinOp::Eq { eq } else { !eq }));
            }
            BinOp::Add => {
                if let (V::Str(x), V::Str(y)) = (a, b) {
                    if x.len() + y.len() > 1 << 16 {
                        return Err(Ctl::Discard("string larger than 64 KiB"));
                    }
                    self.charge_text(x.len() + y.len())?;
                    let mut s = String::with_capacity(x.len() + y.len());
                    s.push_str(x);
                    s.push_str(y);
                    return Ok(V::str(&s));
                }
            }
            _ => {}
        }
        let (x, y) = match (a, b) {
            (V::Num(x), V::Num(y)) => (*x, *y),
            _ => return self.fail(EK::Type, line),
        };
        let to_i = |f: f64| f as i64; // saturating, NaN -> 0 (Rust `as`)
        let to_u32 = |f: f64| f as u32;
        Ok(match op {
            BinOp::Add => V::Num(x + y),
            BinOp::Sub => V::Num(x - y),
            BinOp::Mul => V::Num(x * y),
            BinOp::Div => V::Num(x / y),
            BinOp::Mod => V::Num(fmod(x, y)),
            BinOp::BitAnd => V::Num((to_i(x) & to_i(y)) as f64),
            BinOp::BitOr => V::Num((to_i(x) | to_i(y)) as f64),
            BinOp::BitXor => V::Num((to_i(x) ^ to_i(y)) as f64),
            BinOp::Shl => {
                let s = to_u32(y);
                V::Num(if s >= 64 { 0 } else { to_i(x).wrapping_shl(s) } as f64)
            }
            BinOp::Shr => {
                let s = to_u32(y);
                V::Num(if s >= 64 { 0 } else { to_i(x) >> s } as f64)
            }
            BinOp::Lt => V::Bool(x < y),
            BinOp::Gt => V::Bool(x > y),
            // the language defines >= and <= as the negation of < and >
            BinOp::Ge => V::Bool(!(x < y)),
            BinOp::Le => V::Bool(!(x > y)),
            BinOp::Eq | BinOp::Ne => unreachable!(),
        })
    }

    fn make_range(&self, a: &V, b: &V, line: u32) -> R<V> {
        // yarel validates the end operand first
        let conv = |v: &V| -> Result<i64, EK> {
            match v {
                V::Num(n) => crate::strmodel::to_integer(*n),
                _ => Err(EK::Type),
            }
        };
        let end = match conv(b) {
            Ok(i) => i,
            Err(k) => return self.fail(k, line),
        };
        let begin = match conv(a) {
            Ok(i) => i,
            Err(k) => return self.fail(k, line),
        };
        Ok(self.sh.new_range(begin, end))
    }

    pub fn get_item(&self, o: &V, i: &V, line: u32) -> R<V> {
        use crate::strmodel as sm;
        if crate::rnat::tainted(o) {
            return Err(Ctl::Discard("operation on a string that embeds a memory address"));
        }
        let res: Result<V, EK> = match o {
            V::Str(s) => match i {
                V::Num(n) => sm::index_char(s.as_bytes(), *n).map(|b| V::str(std::str::from_utf8(&b).unwrap())),
                V::Range(r) => sm::slice(s.as_bytes(), r.begin, r.end)
                    .map(|b| V::str(std::str::from_utf8(&b).unwrap())),
                _ => Err(EK::Type),
            },
            V::Tuple(t) => match i {
                V::Num(n) => sm::bounded_index(*n, t.items.len()).map(|k| t.items[k].clone()),
                V::Range(r) => sm::bounded_range(r.begin, r.end, t.items.len()).map(|(b, e)| {
                    V::Tuple(Rc::new(TupleObj {
                        items: t.items[b..e].to_vec(),
                    }))
                }),
                _ => Err(EK::Type),
            },
            V::Vec(v) => {
                let items = v.items.borrow();
                match i {
                    V::Num(n) => sm::bounded_index(*n, items.len()).map(|k| items[k].clone()),
                    V::Range(r) => sm::bounded_range(r.begin, r.end, items.len())
                        .map(|(b, e)| self.sh.new_vec(items[b..e].to_vec())),
                    _ => Err(EK::Type),
                }
            }
            _ => Err(EK::Type),
        };
        match res {
            Ok(v) => Ok(v),
            Err(k) => self.fail(k, line),
        }
    }

    fn set_item(&self, o: &V, i: &V, v: V, line: u32) -> R<()> {
        let vec = match o {
            V::Vec(x) => x,
            _ => return self.fail(EK::Type, line),
        };
        let n = match i {
            V::Num(n) => *n,
            _ => return self.fail(EK::Type, line),
        };
        let len = vec.items.borrow().len();
        match crate::strmodel::bounded_index(n, len) {
            Ok(k) => {
                vec.items.borrow_mut()[k] = v;
                Ok(())
            }
            Err(k) => self.fail(k, line),
        }
    }

    // ----- classes, properties, calls --------------------------------------------------

    pub fn class_of(&self, v: &V) -> Rc<Class> {
        let sh = &self.sh;
        match v {
            V::Nil => sh.class("Nil"),
            V::Bool(_) => sh.class("Bool"),
            V::Num(_) => sh.class("Num"),
            V::Str(_) => sh.class("String"),
            V::Vec(_) => sh.class("Vec"),
            V::Tuple(_) => sh.class("Tuple"),
            V::Map(_) => sh.class("HashMap"),
            V::Range(_) => sh.class("Range"),
            V::Closure(_) => sh.class("Func"),
            V::Native(_) => sh.class("BuiltIn"),
            V::Bound(_) => sh.class("Method"),
            V::BoundNative(_) => sh.class("BuiltInMethod"),
            V::Class(c) => match &*c.meta.borrow() {
                Some(m) => m.clone(),
                None => sh.class("Type"),
            },
            V::Instance(i) => i.class.clone(),
            V::Module(_) => sh.class("Module"),
            V::Fiber(_) => sh.class("Fiber"),
            V::Iter(it) => match it.kind {
                IterKind::Vec(_) => sh.class("VecIter"),
                IterKind::Tuple(_) => sh.class("TupleIter"),
                IterKind::Range(..) => sh.class("RangeIter"),
                IterKind::Str(_) => sh.class("StringIter"),
            },
        }
    }

    pub fn get_property(&self, o: &V, name: &str, line: u32) -> R<V> {
        match o {
            V::Instance(i) => {
                if let Some(v) = get_field(i, name) {
                    return Ok(v);
                }
            }
            V::Module(m) => {
                if let Some(v) = m.globals.borrow().get(name) {
                    return Ok(v.clone());
                }
            }
            _ => {}
        }
        let class = self.class_of(o);
        match find_method(&class, name) {
            Some(Method::Closure(c)) => Ok(V::Bound(Rc::new(BoundObj {
                recv: o.clone(),
                method: c,
            }))),
            Some(Method::Native(_)) => Ok(V::BoundNative(Rc::new(BoundNativeObj {
                recv: o.clone(),
                name: name.to_string(),
            }))),
            None => self.fail(EK::Attribute, line),
        }
    }

    fn set_property(&self, o: &V, name: &str, v: V, line: u32) -> R<()> {
        match o {
            V::Module(m) => {
                m.globals.borrow_mut().insert(name.to_string(), v);
                Ok(())
            }
            V::Instance(i) => {
                set_field(i, name, v);
                Ok(())
            }
            _ => self.fail(EK::Attribute, line),
        }
    }

    pub fn invoke(&self, o: &V, name: &str, args: Vec<V>, line: u32) -> R<V> {
        match o {
            V::Instance(i) => {
                if let Some(f) = get_field(i, name) {
                    return self.call_value(&f, args, line);
                }
            }
            V::Module(m) => {
                let g = m.globals.borrow().get(name).cloned();
                if let Some(f) = g {
                    return self.call_value(&f, args, line);
                }
            }
            _ => {}
        }
        let class = self.class_of(o);
        if class.native == NK::None && !class.methods.borrow().iter().any(|(n, _)| n == name) {
            self.sh.event("inherited_lookup");
        }
        match find_method(&class, name) {
            Some(Method::Closure(c)) => self.call_closure(&c, Some(o.clone()), args, line),
            Some(Method::Native(n)) => crate::rnat::native_method(self, o, n, args, line),
            None => self.fail(EK::Attribute, line),
        }
    }

    pub fn call_value(&self, f: &V, args: Vec<V>, line: u32) -> R<V> {
        match f {
            V::Closure(c) => self.call_closure(c, None, args, line),
            V::Bound(b) => {
                self.sh.event("bound_call");
                self.call_closure(&b.method, Some(b.recv.clone()), args, line)
            }
            V::Native(n) => crate::rnat::native_fn(self, n.name, args, line),
            V::BoundNative(b) => {
                let class = self.class_of(&b.recv);
                match find_method(&class, &b.name) {
                    Some(Method::Native(n)) => crate::rnat::native_method(self, &b.recv, n, args, line),
                    _ => Err(Ctl::Discard("bound native lost its method")),
                }
            }
            _ => self.fail(EK::Type, line),
        }
    }

    /// Calls a closure. `recv` is the receiver slot for methods (None for plain calls).
    pub fn call_closure(&self, c: &Rc<Closure>, recv: Option<V>, args: Vec<V>, line: u32) -> R<V> {
        self.set_line(line);
        if args.len() != c.def.params.len() {
            return self.fail(EK::Type, line);
        }
        if self.depth() == FRAMES_MAX {
            self.sh.event("frame_limit");
            return self.fail(EK::Index, line);
        }
        let sh = &self.sh;
        let mut env = c.env.clone();
        let mut result_instance: Option<V> = None;
        match c.def.kind {
            FnKind::Method => {
                env = cons(sh, &env, "self", recv.clone().unwrap_or(V::Nil));
            }
            FnKind::Static => {
                env = cons(sh, &env, "Self", recv.clone().unwrap_or(V::Nil));
            }
            FnKind::Init => {
                let r = match recv.clone() {
                    Some(V::Class(k)) => V::Instance(sh.new_instance(k)),
                    Some(other) => other,
                    None => V::Nil,
                };
                env = cons(sh, &env, "self", r.clone());
                result_instance = Some(r);
            }
            FnKind::Function | FnKind::Lambda => {}
        }
        for (p, a) in c.def.params.iter().zip(args.into_iter()) {
            env = cons(sh, &env, p, a);
        }
        self.push_frame(&c.def.name.borrow(), &c.module.path, c.is_core);
        let sc = Scope {
            module: c.module.clone(),
            is_core: c.is_core,
            kind: c.def.kind,
            is_script: false,
        };
        let r = match &c.def.body {
            Body::Block(b) => match self.exec_block(b, &env, &sc, false) {
                Ok(()) => Ok(V::Nil),
                Err(Ctl::Return(v)) => Ok(v),
                Err(Ctl::Break) | Err(Ctl::Continue) => Err(Ctl::Discard("break outside loop")),
                Err(e) => Err(e),
            },
            Body::Expr(x) => self.eval(x, &env, &sc),
        };
        self.pop_frame();
        let v = r?;
        Ok(match result_instance {
            Some(i) => i,
            None => v,
        })
    }

    // ----- fibers -------------------------------------------------------------------------

    pub fn fiber_new(&self, f: &V, line: u32) -> R<V> {
        let c = match f {
            V::Closure(c) => c.clone(),
            _ => return self.fail(EK::Type, line),
        };
        if c.def.params.len() > 1 {
            return self.fail(EK::Value, line);
        }
        let fo = Rc::new(FiberObj {
            closure: c,
            state: Cell::new(FiberSt::New),
            in_chain: Cell::new(false),
            co: RefCell::new(None),
        });
        self.sh.fibers.borrow_mut().push(fo.clone());
        Ok(V::Fiber(fo))
    }

    pub fn fiber_call(&self, fo: &Rc<FiberObj>, args: Vec<V>, line: u32) -> R<V> {
        let sh = &self.sh;
        let st = fo.state.get();
        if st == FiberSt::Limbo {
            // The run in which this fiber was waiting for another fiber's result ended in an uncaught
            // error. Whatever an implementation makes of such a fiber (yarel: still "called"), its
            // suspended activation - frames, handlers, the try block it was in - belongs to the failed
            // run and must not continue in a later one: a call is refused with a RuntimeError.
            if args.len() > 1 {
                return Err(Ctl::Discard("fiber left inside a call chain by an aborted run, called with several arguments"));
            }
            sh.event("fiber_call_limbo");
            return self.fail(EK::Runtime, line);
        }
        // argument-count checks come first
        if st == FiberSt::New {
            if args.len() != fo.closure.def.params.len() {
                return self.fail(EK::Type, line);
            }
        } else if st == FiberSt::Running {
            // yarel decides "new or not" from a saved instruction pointer that a running fiber may
            // not have updated yet; only argument counts valid both ways are defined
            let p = fo.closure.def.params.len();
            if args.len() != p || args.len() > 1 {
                return Err(Ctl::Discard("re-entrant call with ambiguous argument count"));
            }
        } else if args.len() > 1 {
            return self.fail(EK::Type, line);
        }
        if st == FiberSt::Done {
            sh.event("fiber_call_finished");
            return self.fail(EK::Runtime, line);
        }
        if fo.in_chain.get() {
            sh.event("fiber_call_running");
            return self.fail(EK::Runtime, line);
        }
        self.set_line(line);
        let arg = args.into_iter().next();
        if st == FiberSt::New {
            let sh2 = sh.clone();
            let fo2 = fo.clone();
            let stack = DefaultStack::new(4 << 20).map_err(|_| Ctl::Discard("no coroutine stack"))?;
            let co: Co = Coroutine::with_stack(stack, move |yielder: &Yielder<Option<V>, V>, first: Option<V>| {
                let ctx = Ctx {
                    sh: sh2,
                    fs: Rc::new(FiberState {
                        frames: RefCell::new(Vec::new()),
                        is_root: false,
                        obj: RefCell::new(Some(fo2.clone())),
                        finally_in_frame: RefCell::new(Vec::new()),
                        try_depth: Cell::new(0),
                    }),
                    yielder: yielder as *const _,
                };
                let args: Vec<V> = first.into_iter().collect();
                // the fiber's first frame: no frame-limit check, it is a fresh call stack
                let c = fo2.closure.clone();
                match ctx.call_closure(&c, None, args, 0) {
                    Ok(v) => FiberEnd::Returned(v),
                    Err(Ctl::Throw(t)) => FiberEnd::Died(Box::new(ctx.report_of(&t))),
                    Err(Ctl::Abort(r)) => FiberEnd::Aborted(r),
                    Err(Ctl::Discard(why)) => FiberEnd::Discard(why),
                    Err(Ctl::Return(v)) => FiberEnd::Returned(v),
                    Err(Ctl::Break) | Err(Ctl::Continue) => FiberEnd::Discard("break outside loop"),
                }
            });
            *fo.co.borrow_mut() = Some(co);
        }
        fo.state.set(FiberSt::Running);
        fo.in_chain.set(true);
        sh.fiber_switches.set(sh.fiber_switches.get() + 1);
        let mut co = fo.co.borrow_mut().take().expect("coroutine present");
        let res = co.resume(arg);
        self.resync_serial();
        fo.in_chain.set(false);
        match res {
            CoroutineResult::Yield(v) => {
                *fo.co.borrow_mut() = Some(co);
                fo.state.set(FiberSt::Suspended);
                sh.event("fiber_yielded");
                Ok(v)
            }
            CoroutineResult::Return(end) => {
                fo.state.set(FiberSt::Done);
                match end {
                    FiberEnd::Returned(v) => {
                        sh.event("fiber_returned");
                        Ok(v)
                    }
                    FiberEnd::Died(r) => Err(Ctl::Abort(r)),
                    FiberEnd::Aborted(r) => {
                        fo.state.set(FiberSt::Limbo);
                        Err(Ctl::Abort(r))
                    }
                    FiberEnd::Discard(w) => Err(Ctl::Discard(w)),
                }
            }
        }
    }

    pub fn fiber_yield(&self, args: Vec<V>, line: u32) -> R<V> {
        if args.len() > 1 {
            return self.fail(EK::Type, line);
        }
        if self.fs.is_root {
            self.sh.event("yield_at_root");
            return self.fail(EK::Runtime, line);
        }
        self.set_line(line);
        let v = args.into_iter().next().unwrap_or(V::Nil);
        let y = unsafe { &*self.yielder };
        let resumed = y.suspend(v);
        self.resync_serial();
        // resumed without a value: the yield expression evaluates to nil
        Ok(resumed.unwrap_or(V::Nil))
    }
}

pub struct Scope {
    pub module: Rc<Module>,
    pub is_core: bool,
    pub kind: FnKind,
    pub is_script: bool,
}

/// C `fmod`
pub fn fmod(x: f64, y: f64) -> f64 {
    x % y
}
