//! Entry points for the coverage-guided (libFuzzer) targets in /verif/fuzz. The byte string is
//! decoded by the same generators as the proptest-driven families, so an artifact is a replay file
//! for the corresponding family. The oracle lives here; a violation is reported by `Err(text)` and
//! the target panics with it (which aborts under libFuzzer and saves the input).

use crate::diff::{run_diff, DiffCfg, DiffVerdict};
use crate::gen;
use crate::prelude::RefCfg;
use crate::profiles;
use crate::props::diffprop::trigger_suffix;
use crate::yrun::{self, End, GcCfg, RunCfg};

/// One generated program (profile chosen by the first byte) run three ways: reference interpreter,
/// yarel with swept objects quarantined (hook detects any dereference of a swept object), and —
/// when that run was clean — yarel again with the collector really freeing memory at every
/// allocation, which under AddressSanitizer turns any access the hooks cannot see (instruction
/// pointer into a freed chunk, raw frame and fiber pointers) into a crash.
pub fn exec_case(data: &[u8]) -> Result<&'static str, String> {
    if data.is_empty() {
        return Ok("empty");
    }
    let prof = match data[0] % 7 {
        0 => profiles::c05(),
        1 => profiles::c06(),
        2 => profiles::c07(),
        3 => profiles::c08(),
        4 => profiles::c09(),
        5 => profiles::c18(),
        _ => profiles::mixed(),
    };
    let t0 = std::time::Instant::now();
    let (prog, _labels) = gen::program(&data[1..], prof);
    let cfg = DiffCfg { quarantine: true, fuel: 400_000, ..DiffCfg::default() };
    let d = run_diff(&prog, &[], &cfg, &RefCfg::default());
    if std::env::var("VERIF_TIMING").is_ok() {
        eprintln!("exec_case: generate + reference + first run {:?}; source {} bytes; verdict discard={}", t0.elapsed(), d.source.len(), matches!(d.verdict, DiffVerdict::Discard(_)));
    }
    let suffix = trigger_suffix(&d.events);
    match &d.verdict {
        DiffVerdict::Discard(_) => return Ok("discard"),
        DiffVerdict::Mismatch(m) => {
            if !suffix.is_empty() {
                return Ok("known-shape");
            }
            return Err(format!("ref-mismatch: {}\n{}", m, d.source));
        }
        DiffVerdict::Panic(p) => {
            if !suffix.is_empty() {
                return Ok("known-shape");
            }
            return Err(format!("panic: {}\n{}", p, d.source));
        }
        DiffVerdict::Agree => {}
    }
    let o1 = match &d.yarel {
        Some(o) => o,
        None => return Ok("no-run"),
    };
    if o1.uas_count > 0 {
        if o1.uas.iter().all(|t| t.contains("open upvalue into the value stack")) {
            // recorded finding G3; the second run would really touch freed memory
            return Ok("known-G3");
        }
        return Err(format!("use-after-sweep {:?}\n{}", o1.uas, d.source));
    }
    if o1.dangling_upvalues > 0 && suffix.is_empty() {
        return Err(format!("dangling-upvalue\n{}", d.source));
    }
    if !suffix.is_empty() {
        return Ok("agree-known-shape");
    }
    // second run: no quarantine, collection at every allocation (checked build), memory really freed
    let rc = RunCfg { gc: GcCfg::Default, quarantine: false, fuel: Some(400_000), modules: d.modules.clone() };
    let o2 = yrun::run_source(&d.source, &rc);
    if let End::Panic(p) = &o2.end {
        return Err(format!("panic in the freeing run: {}\n{}", p, d.source));
    }
    let n1: Vec<String> = o1.out.iter().map(|s| yrun::normalise_addr(s)).collect();
    let n2: Vec<String> = o2.out.iter().map(|s| yrun::normalise_addr(s)).collect();
    if n1 != n2 || o1.kind_name() != o2.kind_name() {
        return Err(format!("output depends on whether swept memory is reused: {:?} vs {:?}\n{}", n1, n2, d.source));
    }
    Ok("agree")
}

/// One case of one generated-input family of a property, decoded and judged exactly as the
/// proptest-driven engine does it (`Property::run`), so a libFuzzer campaign explores the same
/// case space with coverage feedback from yarel's code. A failure whose signature is a recorded
/// finding of that property is tolerated and counted by its label; anything else is a violation.
pub fn prop_case(id: &str, family: &str, data: &[u8]) -> Result<&'static str, String> {
    use crate::engine::{known_match, load_known, CaseCtx, Known, Property, Tier, Verdict};
    use std::collections::BTreeMap;
    thread_local! {
        static PROP: std::cell::RefCell<Option<(String, Box<dyn Property>, Vec<Known>)>> = std::cell::RefCell::new(None);
    }
    PROP.with(|cell| {
        let mut slot = cell.borrow_mut();
        if slot.as_ref().map(|(i, _, _)| i != id).unwrap_or(true) {
            let prop = crate::props::all().into_iter().find(|p| p.id() == id).ok_or_else(|| format!("unknown property {}", id))?;
            *slot = Some((id.to_string(), prop, load_known(id)));
        }
        let (_, prop, known) = slot.as_ref().unwrap();
        let mut labels = BTreeMap::new();
        let mut ctx = CaseCtx { family, bytes: data, labels: &mut labels, strict: false, tier: Tier::Thorough };
        match prop.run(&mut ctx) {
            Verdict::Pass { .. } => Ok("pass"),
            Verdict::Discard(_) => Ok("discard"),
            Verdict::Fail { sig, detail } => {
                if known_match(known, &sig).is_some() {
                    Ok("known-finding")
                } else {
                    Err(format!("{} oracle: {}: {}\n{}", id, sig, detail, prop.render(family, data)))
                }
            }
        }
    })
}
