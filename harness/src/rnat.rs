//! Built-in functions and methods of the reference interpreter, written against the byte-level
//! string model and an association-list map.

use std::cell::Cell;
use std::rc::Rc;

use crate::reval::*;
use crate::rv::*;
use crate::strmodel as sm;
use crate::strmodel::EK;

pub fn tainted(v: &V) -> bool {
    match v {
        V::Str(s) => s.contains(ADDR),
        _ => false,
    }
}

fn s2v(b: &[u8]) -> V {
    V::str(std::str::from_utf8(b).expect("model produced invalid UTF-8"))
}

pub fn map_find(entries: &[(V, V)], k: &V) -> R<Option<usize>> {
    for (i, (k2, _)) in entries.iter().enumerate() {
        match values_equal(k, k2, 0) {
            Some(true) => return Ok(Some(i)),
            Some(false) => {}
            None => return Err(Ctl::Discard("equality on very deep data")),
        }
    }
    Ok(None)
}

/// insert or overwrite; returns the previous value
pub fn map_insert(entries: &mut Vec<(V, V)>, k: V, v: V) -> R<Option<V>> {
    match map_find(entries, &k)? {
        Some(i) => Ok(Some(std::mem::replace(&mut entries[i].1, v))),
        None => {
            entries.push((k, v));
            Ok(None)
        }
    }
}

pub fn native_fn(ctx: &Ctx, name: &str, args: Vec<V>, line: u32) -> R<V> {
    match name {
        "print" => {
            if args.len() != 1 {
                return ctx.fail(EK::Type, line);
            }
            match display_checked(&args[0]) {
                Some(t) => {
                    ctx.charge_text(t.len())?;
                    ctx.sh.out.borrow_mut().push(t)
                }
                None => return Err(Ctl::Discard("value prints to more than 64 KiB")),
            }
            Ok(V::Nil)
        }
        "type" => {
            if args.len() != 1 {
                return ctx.fail(EK::Type, line);
            }
            Ok(V::Class(ctx.class_of(&args[0])))
        }
        "clock" => Err(Ctl::Discard("clock is not modelled")),
        _ => Err(Ctl::Discard("unknown native function")),
    }
}

fn want(ctx: &Ctx, args: &[V], n: usize, line: u32) -> R<()> {
    if args.len() != n {
        return ctx.fail(EK::Type, line);
    }
    Ok(())
}

fn stop_iter(ctx: &Ctx) -> V {
    let inst = ctx.sh.new_instance(ctx.sh.class("StopIter"));
    set_field(&inst, "context", V::Nil);
    V::Instance(inst)
}

/// `name` is the native's registered name (the method-table key under which it was found).
pub fn native_method(ctx: &Ctx, recv: &V, name: &str, args: Vec<V>, line: u32) -> R<V> {
    let sh = &ctx.sh;
    macro_rules! lift {
        ($e:expr) => {
            match $e {
                Ok(v) => v,
                Err(k) => return ctx.fail(k, line),
            }
        };
    }
    // a string that embeds a memory address (the text of a function, instance, ...) has an
    // unpredictable length and content: operations on it are not defined by the model
    if tainted(recv) || args.iter().any(tainted) {
        return Err(Ctl::Discard("operation on a string that embeds a memory address"));
    }
    if name == "derives" {
        want(ctx, &args, 1, line)?;
        let q = match &args[0] {
            V::Class(c) => c.clone(),
            _ => return ctx.fail(EK::Value, line),
        };
        return Ok(V::Bool(is_subclass(&ctx.class_of(recv), &q)));
    }
    match recv {
        V::Str(s) => {
            let b = s.as_bytes();
            match name {
                "iter" => {
                    want(ctx, &args, 0, line)?;
                    Ok(V::Iter(Rc::new(IterObj {
                        kind: IterKind::Str(s.clone()),
                        pos: Cell::new(0),
                    })))
                }
                "len" => {
                    want(ctx, &args, 0, line)?;
                    Ok(V::Num(b.len() as f64))
                }
                "is_alpha" => {
                    want(ctx, &args, 0, line)?;
                    Ok(V::Bool(sm::all_ascii(b, sm::is_alpha)))
                }
                "is_digit" => {
                    want(ctx, &args, 0, line)?;
                    Ok(V::Bool(sm::all_ascii(b, sm::is_digit)))
                }
                "is_hexdigit" => {
                    want(ctx, &args, 0, line)?;
                    Ok(V::Bool(sm::all_ascii(b, sm::is_hex)))
                }
                "count_chars" => {
                    want(ctx, &args, 0, line)?;
                    Ok(V::Num(sm::count_chars(b) as f64))
                }
                "char_byte_index" => {
                    want(ctx, &args, 1, line)?;
                    let n = match &args[0] {
                        V::Num(n) => *n,
                        _ => return ctx.fail(EK::Type, line),
                    };
                    Ok(V::Num(lift!(sm::char_byte_index(b, n)) as f64))
                }
                "find" => {
                    want(ctx, &args, 2, line)?;
                    let needle = match &args[0] {
                        V::Str(n) => n.clone(),
                        _ => return ctx.fail(EK::Type, line),
                    };
                    if needle.is_empty() {
                        return ctx.fail(EK::Value, line);
                    }
                    let start = match &args[1] {
                        V::Num(n) => *n,
                        _ => return ctx.fail(EK::Type, line),
                    };
                    Ok(match lift!(sm::find(b, needle.as_bytes(), start)) {
                        Some(p) => V::Num(p as f64),
                        None => V::Nil,
                    })
                }
                "replace" => {
                    want(ctx, &args, 2, line)?;
                    let old = match &args[0] {
                        V::Str(n) => n.clone(),
                        _ => return ctx.fail(EK::Type, line),
                    };
                    if old.is_empty() {
                        return ctx.fail(EK::Value, line);
                    }
                    let new = match &args[1] {
                        V::Str(n) => n.clone(),
                        _ => return ctx.fail(EK::Type, line),
                    };
                    if b.len() * (new.len() + 1) > 1 << 18 {
                        return Err(Ctl::Discard("string larger than 64 KiB"));
                    }
                    Ok(s2v(&lift!(sm::replace(b, old.as_bytes(), new.as_bytes()))))
                }
                "split" => {
                    want(ctx, &args, 1, line)?;
                    let d = match &args[0] {
                        V::Str(n) => n.clone(),
                        _ => return ctx.fail(EK::Type, line),
                    };
                    let parts = lift!(sm::split(b, d.as_bytes()));
                    Ok(sh.new_vec(parts.iter().map(|p| s2v(p)).collect()))
                }
                "starts_with" | "ends_with" => {
                    want(ctx, &args, 1, line)?;
                    let p = match &args[0] {
                        V::Str(n) => n.clone(),
                        _ => return ctx.fail(EK::Type, line),
                    };
                    Ok(V::Bool(if name == "starts_with" {
                        sm::starts_with(b, p.as_bytes())
                    } else {
                        sm::ends_with(b, p.as_bytes())
                    }))
                }
                "to_num" => {
                    want(ctx, &args, 0, line)?;
                    match crate::decimal::parse_number_text(s) {
                        Some(n) => Ok(V::Num(n)),
                        None => ctx.fail(EK::Value, line),
                    }
                }
                "to_bytes" => {
                    want(ctx, &args, 0, line)?;
                    Ok(sh.new_vec(b.iter().map(|x| V::Num(*x as f64)).collect()))
                }
                "to_code_points" => {
                    want(ctx, &args, 0, line)?;
                    Ok(sh.new_vec(
                        sm::chars(b)
                            .iter()
                            .map(|c| V::Num(sm::decode_char(c) as f64))
                            .collect(),
                    ))
                }
                _ => Err(Ctl::Discard("native method not on this receiver (String)")),
            }
        }
        V::Class(c) if c.native == NK::String => {
            // static methods of String
            want(ctx, &args, 1, line)?;
            match name {
                "from" => match display_checked(&args[0]) {
                    Some(t) => Ok(V::str(&t)),
                    None => Err(Ctl::Discard("value prints to more than 64 KiB")),
                },
                "from_ascii" | "from_utf8" | "from_code_points" => {
                    let items = match &args[0] {
                        V::Vec(v) => v.items.borrow().clone(),
                        _ => return ctx.fail(EK::Type, line),
                    };
                    let mut bytes: Vec<u8> = Vec::new();
                    for it in &items {
                        let n = match it {
                            V::Num(n) => *n,
                            _ => return ctx.fail(EK::Type, line),
                        };
                        match name {
                            "from_code_points" => {
                                if n.is_nan() || n < 0.0 || n > 4294967295.0 || n.floor() != n {
                                    return ctx.fail(EK::Value, line);
                                }
                                match sm::encode_char(n as u32) {
                                    Some(c) => bytes.extend_from_slice(&c),
                                    None => return ctx.fail(EK::Value, line),
                                }
                            }
                            "from_ascii" => {
                                let b = lift!(sm::byte_value(n));
                                if b > 127 {
                                    if b < 192 {
                                        // yarel maps 128..191 to U+00C0.. (unpinned): not defined
                                        return Err(Ctl::Discard("from_ascii of 128..191"));
                                    }
                                    bytes.extend_from_slice(&sm::encode_char(b as u32).unwrap());
                                } else {
                                    bytes.push(b);
                                }
                            }
                            _ => bytes.push(lift!(sm::byte_value(n))),
                        }
                    }
                    if !sm::valid_utf8(&bytes) {
                        return ctx.fail(EK::Value, line);
                    }
                    Ok(s2v(&bytes))
                }
                _ => Err(Ctl::Discard("unknown String static")),
            }
        }
        V::Vec(v) => match name {
            "push" => {
                want(ctx, &args, 1, line)?;
                v.items.borrow_mut().push(args[0].clone());
                Ok(recv.clone())
            }
            "pop" => {
                want(ctx, &args, 0, line)?;
                match v.items.borrow_mut().pop() {
                    Some(x) => Ok(x),
                    None => ctx.fail(EK::Runtime, line),
                }
            }
            "len" => {
                want(ctx, &args, 0, line)?;
                Ok(V::Num(v.items.borrow().len() as f64))
            }
            "iter" => {
                want(ctx, &args, 0, line)?;
                Ok(V::Iter(Rc::new(IterObj {
                    kind: IterKind::Vec(v.clone()),
                    pos: Cell::new(0),
                })))
            }
            _ => Err(Ctl::Discard("native method not on this receiver (Vec)")),
        },
        V::Tuple(t) => match name {
            "len" => {
                want(ctx, &args, 0, line)?;
                Ok(V::Num(t.items.len() as f64))
            }
            "iter" => {
                want(ctx, &args, 0, line)?;
                Ok(V::Iter(Rc::new(IterObj {
                    kind: IterKind::Tuple(t.clone()),
                    pos: Cell::new(0),
                })))
            }
            _ => Err(Ctl::Discard("native method not on this receiver (Tuple)")),
        },
        V::Range(r) => match name {
            "iter" => {
                want(ctx, &args, 0, line)?;
                Ok(V::Iter(Rc::new(IterObj {
                    kind: IterKind::Range(r.clone(), Cell::new(r.begin)),
                    pos: Cell::new(0),
                })))
            }
            _ => Err(Ctl::Discard("native method not on this receiver (Range)")),
        },
        V::Iter(it) => match name {
            "next" => {
                want(ctx, &args, 0, line)?;
                let p = it.pos.get();
                Ok(match &it.kind {
                    IterKind::Vec(v) => {
                        let items = v.items.borrow();
                        if p >= items.len() {
                            drop(items);
                            stop_iter(ctx)
                        } else {
                            it.pos.set(p + 1);
                            items[p].clone()
                        }
                    }
                    IterKind::Tuple(t) => {
                        if p >= t.items.len() {
                            stop_iter(ctx)
                        } else {
                            it.pos.set(p + 1);
                            t.items[p].clone()
                        }
                    }
                    IterKind::Range(r, cur) => {
                        if cur.get() == r.end {
                            stop_iter(ctx)
                        } else {
                            let c = cur.get();
                            cur.set(if r.begin < r.end { c.wrapping_add(1) } else { c.wrapping_sub(1) });
                            V::Num(c as f64)
                        }
                    }
                    IterKind::Str(s) => {
                        let b = s.as_bytes();
                        if p >= b.len() {
                            stop_iter(ctx)
                        } else {
                            let l = sm::char_len_at(b, p).min(b.len() - p);
                            it.pos.set(p + l);
                            s2v(&b[p..p + l])
                        }
                    }
                })
            }
            _ => Err(Ctl::Discard("native method not on this receiver (iterator)")),
        },
        V::Map(m) => {
            let key_of = |v: &V| -> R<V> {
                if !hashable(v, 0) {
                    return ctx.fail(EK::Value, line);
                }
                Ok(v.clone())
            };
            match name {
                "has_key" => {
                    want(ctx, &args, 1, line)?;
                    let k = key_of(&args[0])?;
                    let found = map_find(&m.entries.borrow(), &k)?.is_some();
                    Ok(V::Bool(found))
                }
                "get" => {
                    want(ctx, &args, 1, line)?;
                    let k = key_of(&args[0])?;
                    let es = m.entries.borrow();
                    Ok(match map_find(&es, &k)? {
                        Some(i) => es[i].1.clone(),
                        None => V::Nil,
                    })
                }
                "insert" => {
                    want(ctx, &args, 2, line)?;
                    let k = key_of(&args[0])?;
                    let prev = map_insert(&mut m.entries.borrow_mut(), k, args[1].clone())?;
                    Ok(prev.unwrap_or(V::Nil))
                }
                "remove" => {
                    want(ctx, &args, 1, line)?;
                    let k = key_of(&args[0])?;
                    let mut es = m.entries.borrow_mut();
                    Ok(match map_find(&es, &k)? {
                        Some(i) => es.remove(i).1,
                        None => V::Nil,
                    })
                }
                "clear" => {
                    want(ctx, &args, 0, line)?;
                    m.entries.borrow_mut().clear();
                    Ok(V::Nil)
                }
                "len" => {
                    want(ctx, &args, 0, line)?;
                    Ok(V::Num(m.entries.borrow().len() as f64))
                }
                // enumeration order is unspecified: programs must treat these as multisets
                "keys" => {
                    want(ctx, &args, 0, line)?;
                    Ok(sh.new_vec(m.entries.borrow().iter().map(|(k, _)| k.clone()).collect()))
                }
                "values" => {
                    want(ctx, &args, 0, line)?;
                    Ok(sh.new_vec(m.entries.borrow().iter().map(|(_, v)| v.clone()).collect()))
                }
                "items" => {
                    want(ctx, &args, 0, line)?;
                    Ok(sh.new_vec(
                        m.entries
                            .borrow()
                            .iter()
                            .map(|(k, v)| {
                                V::Tuple(Rc::new(TupleObj {
                                    items: vec![k.clone(), v.clone()],
                                }))
                            })
                            .collect(),
                    ))
                }
                _ => Err(Ctl::Discard("native method not on this receiver (HashMap)")),
            }
        }
        V::Class(c) if c.native == NK::Fiber => match name {
            "new" => {
                want(ctx, &args, 1, line)?;
                ctx.fiber_new(&args[0], line)
            }
            "yield" => ctx.fiber_yield(args, line),
            _ => Err(Ctl::Discard("unknown Fiber static")),
        },
        V::Fiber(f) => match name {
            "call" => ctx.fiber_call(f, args, line),
            "has_finished" => {
                want(ctx, &args, 0, line)?;
                if f.state.get() == FiberSt::Limbo {
                    return Err(Ctl::Discard("fiber left inside a call chain by an aborted run"));
                }
                Ok(V::Bool(f.state.get() == FiberSt::Done))
            }
            _ => Err(Ctl::Discard("native method not on this receiver (Fiber)")),
        },
        _ => Err(Ctl::Discard("native method reached with a foreign receiver")),
    }
}
