//! Values of the reference interpreter: deliberately naive representations.

use std::cell::{Cell, RefCell};
use std::collections::HashMap;
use std::rc::Rc;

use crate::ast::*;

pub type VCell = Rc<RefCell<V>>;

pub struct EnvNode {
    pub name: Name,
    pub cell: VCell,
    pub parent: Env,
    /// serial number of the call frame that declared the variable
    pub owner: u64,
}
pub type Env = Option<Rc<EnvNode>>;

pub fn env_lookup(env: &Env, name: &str) -> Option<(VCell, u64)> {
    let mut cur = env;
    while let Some(n) = cur {
        if n.name == name {
            return Some((n.cell.clone(), n.owner));
        }
        cur = &n.parent;
    }
    None
}

#[derive(Clone)]
pub enum V {
    Nil,
    Bool(bool),
    Num(f64),
    Str(Rc<str>),
    Vec(Rc<VecObj>),
    Tuple(Rc<TupleObj>),
    Map(Rc<MapObj>),
    Range(Rc<RangeObj>),
    Closure(Rc<Closure>),
    Native(Rc<NativeObj>),
    Bound(Rc<BoundObj>),
    BoundNative(Rc<BoundNativeObj>),
    Class(Rc<Class>),
    Instance(Rc<Instance>),
    Module(Rc<Module>),
    Fiber(Rc<FiberObj>),
    Iter(Rc<IterObj>),
}

pub struct VecObj {
    pub items: RefCell<Vec<V>>,
}
pub struct TupleObj {
    pub items: Vec<V>,
}
pub struct MapObj {
    /// association list; key equality is the language's `==`
    pub entries: RefCell<Vec<(V, V)>>,
}
pub struct RangeObj {
    pub begin: i64,
    pub end: i64,
}
pub struct Closure {
    pub def: Rc<FnDef>,
    pub env: Env,
    pub module: Rc<Module>,
    /// functions of the built-in prelude (core.yl): their source lines are not compared
    pub is_core: bool,
}
pub struct NativeObj {
    pub name: &'static str,
}
pub struct BoundObj {
    pub recv: V,
    pub method: Rc<Closure>,
}
pub struct BoundNativeObj {
    pub recv: V,
    pub name: String,
}
#[derive(Clone)]
pub enum Method {
    Closure(Rc<Closure>),
    Native(&'static str),
}
#[derive(Clone, Copy, PartialEq, Debug)]
pub enum NK {
    None,
    Object,
    Type,
    Nil,
    Bool,
    Num,
    Func,
    BuiltIn,
    Method,
    BuiltInMethod,
    String,
    StringClass,
    StringIter,
    Tuple,
    TupleIter,
    Vec,
    VecIter,
    Range,
    RangeIter,
    HashMap,
    Module,
    Fiber,
    FiberClass,
    Meta,
}
pub struct Class {
    pub name: String,
    pub superclass: RefCell<Option<Rc<Class>>>,
    pub methods: RefCell<Vec<(Name, Method)>>,
    /// None = the base metaclass `Type`
    pub meta: RefCell<Option<Rc<Class>>>,
    pub native: NK,
}
pub struct Instance {
    pub class: Rc<Class>,
    pub fields: RefCell<Vec<(Name, V)>>,
}
pub struct Module {
    pub path: String,
    pub globals: RefCell<HashMap<Name, V>>,
    pub imported: Cell<bool>,
}
#[derive(Clone, Copy, PartialEq, Debug)]
pub enum FiberSt {
    New,
    Suspended,
    Running,
    Done,
    /// was calling another fiber when the run was aborted by an uncaught error further down the
    /// chain: yarel leaves such a fiber with its frames and caller link; nothing defines its state
    Limbo,
}
pub struct FiberObj {
    pub closure: Rc<Closure>,
    pub state: Cell<FiberSt>,
    /// set while the fiber is running or waiting in a chain of calls (yarel: `caller` is set)
    pub in_chain: Cell<bool>,
    /// yarel's `is_new()` quirk: true until the fiber's first frame saved an instruction pointer
    pub co: RefCell<Option<crate::reval::Co>>,
}
pub enum IterKind {
    Vec(Rc<VecObj>),
    Tuple(Rc<TupleObj>),
    Range(Rc<RangeObj>, Cell<i64>),
    Str(Rc<str>),
}
pub struct IterObj {
    pub kind: IterKind,
    pub pos: Cell<usize>,
}

impl V {
    pub fn str(s: &str) -> V {
        V::Str(Rc::from(s))
    }
    pub fn truthy(&self) -> bool {
        !matches!(self, V::Nil | V::Bool(false))
    }
    pub fn kind_name(&self) -> &'static str {
        match self {
            V::Nil => "nil",
            V::Bool(_) => "bool",
            V::Num(_) => "num",
            V::Str(_) => "str",
            V::Vec(_) => "vec",
            V::Tuple(_) => "tuple",
            V::Map(_) => "map",
            V::Range(_) => "range",
            V::Closure(_) => "closure",
            V::Native(_) => "native",
            V::Bound(_) => "bound",
            V::BoundNative(_) => "boundnative",
            V::Class(_) => "class",
            V::Instance(_) => "instance",
            V::Module(_) => "module",
            V::Fiber(_) => "fiber",
            V::Iter(_) => "iter",
        }
    }
}

fn ptr<T: ?Sized>(r: &Rc<T>) -> usize {
    Rc::as_ptr(r) as *const () as usize
}

/// The language's `==`. Cyclic structures are cut off by a depth bound (`None` = too deep; the
/// caller discards the case, yarel would overflow its native stack there).
pub fn values_equal(a: &V, b: &V, depth: u32) -> Option<bool> {
    if depth > 200 {
        return None;
    }
    Some(match (a, b) {
        (V::Nil, V::Nil) => true,
        (V::Bool(x), V::Bool(y)) => x == y,
        (V::Num(x), V::Num(y)) => x == y,
        (V::Str(x), V::Str(y)) => x.as_bytes() == y.as_bytes(),
        (V::Vec(x), V::Vec(y)) => {
            if Rc::ptr_eq(x, y) {
                return Some(true);
            }
            let (xa, ya) = (x.items.borrow(), y.items.borrow());
            if xa.len() != ya.len() {
                return Some(false);
            }
            for (p, q) in xa.iter().zip(ya.iter()) {
                if !values_equal(p, q, depth + 1)? {
                    return Some(false);
                }
            }
            true
        }
        (V::Tuple(x), V::Tuple(y)) => {
            if Rc::ptr_eq(x, y) {
                return Some(true);
            }
            if x.items.len() != y.items.len() {
                return Some(false);
            }
            for (p, q) in x.items.iter().zip(y.items.iter()) {
                if !values_equal(p, q, depth + 1)? {
                    return Some(false);
                }
            }
            true
        }
        (V::Map(x), V::Map(y)) => {
            if Rc::ptr_eq(x, y) {
                return Some(true);
            }
            let (xa, ya) = (x.entries.borrow(), y.entries.borrow());
            if xa.len() != ya.len() {
                return Some(false);
            }
            for (k, v) in xa.iter() {
                let mut found = false;
                for (k2, v2) in ya.iter() {
                    if values_equal(k, k2, depth + 1)? {
                        if !values_equal(v, v2, depth + 1)? {
                            return Some(false);
                        }
                        found = true;
                        break;
                    }
                }
                if !found {
                    return Some(false);
                }
            }
            true
        }
        // ranges: structural; sound only while the program keeps <= 8 distinct ranges alive
        (V::Range(x), V::Range(y)) => {
            if !Rc::ptr_eq(x, y) {
                RANGE_IDENTITY_OBSERVED.with(|f| f.set(true));
            }
            x.begin == y.begin && x.end == y.end
        }
        (V::Closure(x), V::Closure(y)) => Rc::ptr_eq(x, y),
        (V::Native(x), V::Native(y)) => Rc::ptr_eq(x, y),
        (V::Bound(x), V::Bound(y)) => Rc::ptr_eq(x, y),
        (V::BoundNative(_), V::BoundNative(_)) => false,
        (V::Class(x), V::Class(y)) => Rc::ptr_eq(x, y),
        (V::Instance(x), V::Instance(y)) => Rc::ptr_eq(x, y),
        (V::Module(x), V::Module(y)) => Rc::ptr_eq(x, y),
        (V::Fiber(x), V::Fiber(y)) => Rc::ptr_eq(x, y),
        (V::Iter(x), V::Iter(y)) => Rc::ptr_eq(x, y),
        _ => false,
    })
}

pub fn num_display(n: f64) -> String {
    if n == 0.0 && n.is_sign_negative() {
        "-0".to_string()
    } else {
        format!("{}", n)
    }
}

pub const ADDR: &str = "[MEMADDR]";

pub fn display(v: &V) -> String {
    let mut out = String::new();
    let mut visiting = Vec::new();
    disp(v, &mut out, &mut visiting);
    out
}

pub const DISPLAY_LIMIT: usize = 1 << 16;

/// `display`, or None when the text exceeds 64 KiB (the caller discards the case)
pub fn display_checked(v: &V) -> Option<String> {
    let mut out = String::new();
    let mut visiting = Vec::new();
    disp(v, &mut out, &mut visiting);
    if out.len() > DISPLAY_LIMIT {
        None
    } else {
        Some(out)
    }
}

fn disp(v: &V, out: &mut String, visiting: &mut Vec<usize>) {
    match v {
        V::Nil => out.push_str("nil"),
        V::Bool(b) => out.push_str(if *b { "true" } else { "false" }),
        V::Num(n) => out.push_str(&num_display(*n)),
        V::Str(s) => out.push_str(s),
        V::Vec(x) => {
            let id = ptr(x);
            if visiting.contains(&id) {
                out.push_str("[...]");
                return;
            }
            visiting.push(id);
            out.push('[');
            let items = x.items.borrow();
            for (i, e) in items.iter().enumerate() {
                if out.len() > 4 * DISPLAY_LIMIT {
                    break;
                }
                if i > 0 {
                    out.push_str(", ");
                }
                disp(e, out, visiting);
            }
            out.push(']');
            visiting.pop();
        }
        V::Tuple(x) => {
            let id = ptr(x);
            if visiting.contains(&id) {
                out.push_str("(...)");
                return;
            }
            visiting.push(id);
            out.push('(');
            for (i, e) in x.items.iter().enumerate() {
                if i > 0 {
                    out.push_str(", ");
                }
                disp(e, out, visiting);
            }
            if x.items.len() == 1 {
                out.push(',');
            }
            out.push(')');
            visiting.pop();
        }
        V::Map(x) => {
            let id = ptr(x);
            if visiting.contains(&id) {
                out.push_str("{...}");
                return;
            }
            visiting.push(id);
            out.push('{');
            let es = x.entries.borrow();
            for (i, (k, val)) in es.iter().enumerate() {
                if i > 0 {
                    out.push_str(", ");
                }
                disp(k, out, visiting);
                out.push_str(": ");
                disp(val, out, visiting);
            }
            out.push('}');
            visiting.pop();
        }
        V::Range(r) => out.push_str(&format!("Range({}, {})", r.begin, r.end)),
        V::Closure(c) => {
            let name = c.def.name.borrow();
            if name.is_empty() {
                out.push_str(&format!("<script @ {}>", ADDR));
            } else {
                out.push_str(&format!("<fn {} @ {}>", name, ADDR));
            }
        }
        V::Native(n) => out.push_str(&format!("<built-in fn {}>", n.name)),
        V::Bound(b) => {
            out.push_str(&format!("<method {} on ", b.method.def.name.borrow()));
            disp(&b.recv, out, visiting);
            out.push_str(&format!(" @ {}>", ADDR));
        }
        V::BoundNative(b) => {
            out.push_str(&format!("<built-in method {} on ", b.name));
            disp(&b.recv, out, visiting);
            out.push_str(&format!(" @ {}>", ADDR));
        }
        V::Class(c) => out.push_str(&format!("<class {}>", c.name)),
        V::Instance(i) => out.push_str(&format!("<{} instance @ {}>", i.class.name, ADDR)),
        V::Module(m) => out.push_str(&format!("<module \"{}\">", m.path)),
        V::Fiber(_) => out.push_str(&format!("<fiber @ {}>", ADDR)),
        V::Iter(it) => match &it.kind {
            IterKind::Vec(_) => out.push_str(&format!("<ObjVecIter instance @ {}>", ADDR)),
            IterKind::Tuple(_) => out.push_str(&format!("<ObjTupleIter instance @ {}>", ADDR)),
            IterKind::Range(..) => out.push_str("ObjRangeIter instance"),
            IterKind::Str(_) => out.push_str("ObjStringIter instance"),
        },
    }
}

thread_local! {
    /// set when two distinct range objects were compared (by `==`, inside tuples, or as map keys):
    /// from then on the program's behaviour may depend on which ranges the interpreter's range cache
    /// still holds, which the model does not reproduce
    pub static RANGE_IDENTITY_OBSERVED: std::cell::Cell<bool> = std::cell::Cell::new(false);
}

/// hashable(v): number, string, bool, nil, class, range, tuple of hashables
pub fn hashable(v: &V, depth: u32) -> bool {
    if depth > 200 {
        return true;
    }
    match v {
        V::Nil | V::Bool(_) | V::Num(_) | V::Str(_) | V::Class(_) | V::Range(_) => true,
        V::Tuple(t) => t.items.iter().all(|e| hashable(e, depth + 1)),
        _ => false,
    }
}
